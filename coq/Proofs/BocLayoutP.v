(** C01: the BOC parser model inverts the byte layout of the BOC format
    (Spec/BocLayout.v) for every header variant, every forward-referencing cell
    order and every root list. *)
From Coq Require Import List NArith Arith Lia Bool ZArith ZifyNat ZifyN.
From Tongo Require Import Lib.Bits Lib.Res Spec.Crc32c Model.BitString Model.BocParse
  Spec.BocLayout Proofs.BocParseP.
Import ListNotations.

(* lia understands / and mod by constants in this file only *)
Local Ltac Zify.zify_post_hook ::= Z.div_mod_to_equations.

(** *** big-endian numerals *)
Lemma be_length n : forall v, length (be n v) = n.
Proof.
  induction n as [|n IH]; intros v; cbn [be]; [reflexivity|].
  rewrite app_length, IH. cbn [length]. lia.
Qed.

Lemma be_bytes n : forall v, Forall is_byte (be n v).
Proof.
  induction n as [|n IH]; intros v; cbn [be]; [constructor|].
  apply Forall_app. split; [apply IH|].
  constructor; [|constructor]. unfold is_byte. apply N.mod_lt. lia.
Qed.

Lemma two64_nz : two64 <> 0%N.
Proof. discriminate. Qed.

Lemma fold_be n : forall v,
  fold_left (fun acc b => ((acc * 256 + b) mod two64)%N) (be n v) 0%N
  = ((v mod 256 ^ N.of_nat n) mod two64)%N.
Proof.
  induction n as [|n IH]; intros v.
  - cbn [be fold_left]. change (N.of_nat 0) with 0%N.
    rewrite N.pow_0_r, N.mod_1_r. reflexivity.
  - cbn [be]. rewrite fold_left_app. cbn [fold_left]. rewrite IH.
    rewrite Nat2N.inj_succ, N.pow_succ_r'.
    assert (Hp : (256 ^ N.of_nat n <> 0)%N) by (apply N.pow_nonzero; lia).
    rewrite (N.mod_mul_r v 256 (256 ^ N.of_nat n)) by (lia || exact Hp).
    set (X := ((v / 256) mod 256 ^ N.of_nat n)%N).
    rewrite <- (N.add_mod_idemp_l (X mod two64 * 256)) by exact two64_nz.
    rewrite (N.mul_mod_idemp_l X 256 two64) by exact two64_nz.
    rewrite N.add_mod_idemp_l by exact two64_nz.
    f_equal. lia.
Qed.

Lemma firstn_be n v rest : firstn n (be n v ++ rest) = be n v.
Proof.
  pose proof (firstn_app_exact (be n v) rest) as E. rewrite be_length in E. exact E.
Qed.

Lemma skipn_be n v rest : skipn n (be n v ++ rest) = rest.
Proof.
  pose proof (skipn_app_exact (be n v) rest) as E. rewrite be_length in E. exact E.
Qed.

Lemma read_be_drop_be_gen n v rest :
  read_be_drop n (be n v ++ rest)
  = Ok (((v mod 256 ^ N.of_nat n) mod two64)%N, rest).
Proof.
  unfold read_be_drop, read_be.
  assert (Hs : short n (be n v ++ rest) = false).
  { apply short_false_iff. rewrite app_length, be_length. lia. }
  rewrite Hs, firstn_be, fold_be. cbn [bind]. rewrite skipn_be. reflexivity.
Qed.

Lemma read_be_drop_be n v rest :
  (v < 256 ^ N.of_nat n)%N -> (v < two64)%N ->
  read_be_drop n (be n v ++ rest) = Ok (v, rest).
Proof.
  intros H1 H2. rewrite read_be_drop_be_gen.
  rewrite (N.mod_small v _ H1), (N.mod_small v _ H2). reflexivity.
Qed.

Definition fits (w : nat) (r : nat) : Prop :=
  (N.of_nat r < 256 ^ N.of_nat w)%N /\ (N.of_nat r < two64)%N.

Definition be_list (w : nat) (rs : list nat) : bytes :=
  flat_map (fun r => be w (N.of_nat r)) rs.

Lemma be_list_length w rs : length (be_list w rs) = (w * length rs)%nat.
Proof.
  induction rs as [|r t IH]; cbn [be_list flat_map length]; [lia|].
  fold (be_list w t). rewrite app_length, be_length, IH. lia.
Qed.

Lemma be_list_bytes w rs : Forall is_byte (be_list w rs).
Proof.
  induction rs as [|r t IH]; cbn [be_list flat_map]; [constructor|].
  apply Forall_app. split; [apply be_bytes|exact IH].
Qed.

Lemma read_list_be w rs : forall rest acc,
  Forall (fits w) rs ->
  read_list (length rs) w false (be_list w rs ++ rest) acc
  = Ok (rev acc ++ map N.of_nat rs, rest).
Proof.
  induction rs as [|r t IH]; intros rest acc Hf.
  - cbn [length read_list be_list flat_map app map]. rewrite app_nil_r. reflexivity.
  - inversion Hf as [|? ? (H1 & H2) Ht]; subst.
    cbn [length read_list be_list flat_map map]. fold (be_list w t).
    rewrite <- app_assoc, (read_be_drop_be _ _ _ H1 H2). cbn [bind].
    rewrite (IH _ _ Ht). cbn [rev]. rewrite <- app_assoc. reflexivity.
Qed.

Lemma read_refs_be w rs : forall rest acc,
  Forall (fits w) rs ->
  read_refs (length rs) w (be_list w rs ++ rest) acc
  = Ok (rev acc ++ map N.of_nat rs, rest).
Proof.
  induction rs as [|r t IH]; intros rest acc Hf.
  - cbn [length read_refs be_list flat_map app map]. rewrite app_nil_r. reflexivity.
  - inversion Hf as [|? ? (H1 & H2) Ht]; subst.
    cbn [length read_refs be_list flat_map map]. fold (be_list w t).
    rewrite <- app_assoc, (read_be_drop_be _ _ _ H1 H2). cbn [bind].
    rewrite (IH _ _ Ht). cbn [rev]. rewrite <- app_assoc. reflexivity.
Qed.

Lemma map_to_of_nat (l : list nat) : map N.to_nat (map N.of_nat l) = l.
Proof.
  induction l as [|x t IH]; [reflexivity|].
  cbn [map]. rewrite Nat2N.id, IH. reflexivity.
Qed.

Lemma short_app_exact {A} (a b : list A) : short (length a) (a ++ b) = false.
Proof. apply short_false_iff. rewrite app_length. lia. Qed.

(** *** data bits *)
Lemma bytes_of_bits_length k : forall l, length (bytes_of_bits k l) = k.
Proof.
  induction k as [|k IH]; intros l; cbn [bytes_of_bits length]; [reflexivity|].
  rewrite IH. reflexivity.
Qed.

Lemma bytes_of_bits_bytes k : forall l, Forall is_byte (bytes_of_bits k l).
Proof.
  induction k as [|k IH]; intros l; cbn [bytes_of_bits]; [constructor|].
  constructor; [|apply IH]. unfold is_byte.
  eapply N.lt_le_trans; [apply N_of_bits_bound|].
  change 256%N with (2 ^ 8)%N. apply N.pow_le_mono_r; [lia|].
  rewrite firstn_length. lia.
Qed.

Lemma bytes_bits_of_bits k : forall l,
  length l = (8 * k)%nat -> bytes_bits (bytes_of_bits k l) = l.
Proof.
  induction k as [|k IH]; intros l Hl.
  - destruct l; [reflexivity|cbn [length] in Hl; lia].
  - cbn [bytes_of_bits bytes_bits].
    rewrite IH by (rewrite skipn_length; lia).
    assert (H8 : length (firstn 8 l) = 8%nat) by (rewrite firstn_length; lia).
    pose proof (bits_of_N_of_bits (firstn 8 l)) as E. rewrite H8 in E. rewrite E.
    apply firstn_skipn.
Qed.

Lemma padded_length b : length (padded b) = (8 * ((length b + 7) / 8))%nat.
Proof.
  unfold padded. destruct (Nat.eqb_spec (length b mod 8) 0) as [E|E]; [lia|].
  rewrite app_length. cbn [length]. unfold zeros. rewrite repeat_length. lia.
Qed.

Lemma padded_div b : (length (padded b) / 8 = (length b + 7) / 8)%nat.
Proof. rewrite padded_length. lia. Qed.

Lemma enc_data_length b : length (enc_data b) = ((length b + 7) / 8)%nat.
Proof. unfold enc_data. rewrite bytes_of_bits_length. apply padded_div. Qed.

Lemma zeros_snoc z : zeros z ++ [false] = false :: zeros z.
Proof.
  induction z as [|z IH]; [reflexivity|].
  unfold zeros in *. cbn [repeat app]. rewrite IH. reflexivity.
Qed.

Lemma rev_zeros z : rev (zeros z) = zeros z.
Proof.
  induction z as [|z IH]; [reflexivity|].
  unfold zeros in *. cbn [repeat rev]. rewrite IH. apply zeros_snoc.
Qed.

Lemma strip_go_zeros z : forall fuel r,
  (z < fuel)%nat -> strip_go fuel (zeros z ++ true :: r) = Some (rev r).
Proof.
  induction z as [|z IH]; intros fuel r Hf.
  - destruct fuel as [|fuel]; [lia|]. reflexivity.
  - destruct fuel as [|fuel]; [lia|].
    unfold zeros. cbn [repeat app strip_go]. apply IH. lia.
Qed.

Lemma strip_completion_tag b z :
  (z <= 6)%nat -> strip_completion (b ++ true :: zeros z) = Some b.
Proof.
  intros Hz. unfold strip_completion.
  rewrite rev_app_distr. cbn [rev]. rewrite rev_zeros, <- app_assoc. cbn [app].
  rewrite strip_go_zeros by lia. rewrite rev_involutive. reflexivity.
Qed.

Lemma top_upped_enc b :
  top_upped_bits (enc_data b) (Nat.eqb (length b mod 8) 0) = Ok b.
Proof.
  unfold top_upped_bits.
  pose proof (enc_data_length b) as Hl. rewrite Hl.
  unfold enc_data. rewrite bytes_bits_of_bits by (rewrite padded_div; apply padded_length).
  unfold padded.
  destruct (Nat.eqb_spec (length b mod 8) 0) as [E|E]; cbn [orb]; [reflexivity|].
  destruct (Nat.eqb_spec ((length b + 7) / 8) 0) as [E0|E0]; [lia|].
  rewrite strip_completion_tag by lia. reflexivity.
Qed.

Lemma enc_data_first b :
  (8 <= length b)%nat -> exists t, enc_data b = first_byte b :: t.
Proof.
  intros H8. unfold enc_data. rewrite padded_div.
  destruct ((length b + 7) / 8)%nat as [|k] eqn:Ek; [lia|].
  cbn [bytes_of_bits]. eexists. f_equal.
  unfold first_byte, padded.
  destruct (length b mod 8 =? 0)%nat; [reflexivity|].
  rewrite firstn_app. replace (8 - length b)%nat with 0%nat by lia.
  cbn [firstn]. rewrite app_nil_r. reflexivity.
Qed.

(** *** descriptor bytes *)
Lemma d1_facts (k : N) (s h : bool) (m : N) :
  (k <= 4)%N -> (m < 8)%N ->
  let d1 := (k + (if s then 8 else 0) + (if h then 0 else 16) + 32 * m)%N in
  N.testbit d1 3 = s /\ N.testbit d1 4 = negb h /\ (d1 mod 8 = k)%N /\
  (d1 / 32 = m)%N /\ (d1 < 256)%N.
Proof.
  intros Hk Hm.
  assert (Hk' : (k = 0 \/ k = 1 \/ k = 2 \/ k = 3 \/ k = 4)%N) by lia.
  assert (Hm' : (m = 0 \/ m = 1 \/ m = 2 \/ m = 3 \/ m = 4 \/ m = 5 \/ m = 6 \/ m = 7)%N) by lia.
  clear Hk Hm.
  destruct Hk' as [->|[->|[->|[->| ->]]]];
    destruct Hm' as [->|[->|[->|[->|[->|[->|[->| ->]]]]]]];
    destruct s, h; vm_compute; repeat split.
Qed.

Lemma d2_facts (L : nat) :
  (L <= 1023)%nat ->
  let d2 := N.of_nat (L / 8 + (L + 7) / 8) in
  N.to_nat (d2 / 2 + d2 mod 2) = ((L + 7) / 8)%nat /\
  N.eqb (d2 mod 2) 0 = Nat.eqb (L mod 8) 0 /\ (d2 < 256)%N.
Proof.
  intros HL d2. subst d2. split; [lia|]. split; [|lia].
  destruct (Nat.eqb_spec (L mod 8) 0) as [E|E].
  - apply N.eqb_eq. lia.
  - apply N.eqb_neq. lia.
Qed.

(** *** CRC-32C values are 32-bit *)
Lemma lxor_lt32 a b : (a < 2 ^ 32 -> b < 2 ^ 32 -> N.lxor a b < 2 ^ 32)%N.
Proof.
  intros Ha Hb.
  destruct (N.eq_dec (N.lxor a b) 0) as [E|E]; [rewrite E; apply pow2_pos|].
  apply N.log2_lt_pow2; [lia|].
  eapply N.le_lt_trans; [apply N.log2_lxor|].
  apply N.max_lub_lt.
  - destruct (N.eq_dec a 0) as [->|Ha0]; [cbn; lia|apply N.log2_lt_pow2; lia].
  - destruct (N.eq_dec b 0) as [->|Hb0]; [cbn; lia|apply N.log2_lt_pow2; lia].
Qed.

Lemma crc_bits_bound n : forall c, (c < 2 ^ 32)%N -> (crc_bits n c < 2 ^ 32)%N.
Proof.
  induction n as [|n IH]; intros c Hc; cbn [crc_bits]; [exact Hc|].
  apply IH.
  assert (Hs : (N.shiftr c 1 < 2 ^ 32)%N).
  { rewrite N.shiftr_div_pow2. change (2 ^ 1)%N with 2%N.
    change (2 ^ 32)%N with 4294967296%N in *. lia. }
  destruct (N.odd c); [|exact Hs].
  apply lxor_lt32; [exact Hs|]. unfold crc_poly. change (2 ^ 32)%N with 4294967296%N. lia.
Qed.

Lemma crc_fold_bound l : forall c,
  Forall is_byte l -> (c < 2 ^ 32)%N -> (fold_left crc_byte l c < 2 ^ 32)%N.
Proof.
  induction l as [|b t IH]; intros c Hb Hc; cbn [fold_left]; [exact Hc|].
  inversion Hb as [|? ? Hb1 Hbt]; subst.
  apply IH; [exact Hbt|]. unfold crc_byte. apply crc_bits_bound.
  apply lxor_lt32; [exact Hc|]. unfold is_byte in Hb1.
  change (2 ^ 32)%N with 4294967296%N. lia.
Qed.

Lemma crc32c_bound l : Forall is_byte l -> (crc32c l < 2 ^ 32)%N.
Proof.
  intros Hb. unfold crc32c. apply lxor_lt32.
  - apply crc_fold_bound; [exact Hb|]. change (2 ^ 32)%N with 4294967296%N. lia.
  - change (2 ^ 32)%N with 4294967296%N. lia.
Qed.

Lemma le32_be4 c : (c < 2 ^ 32)%N -> le32 (rev (be 4 c)) = c.
Proof.
  intros Hc. change (2 ^ 32)%N with 4294967296%N in Hc.
  cbn [be app rev le32]. lia.
Qed.
(** *** one cell *)
Lemma parse_cell_gen d1 d2 stored dat refbytes rest size (sp : bool) ty mask b k refs :
  N.testbit d1 3 = sp ->
  N.testbit d1 4 = negb (Nat.eqb (length stored) 0) ->
  N.to_nat (d1 mod 8) = k ->
  (d1 / 32)%N = mask ->
  N.to_nat (d2 / 2 + d2 mod 2) = length dat ->
  (stored = [] \/ length stored = ((popcount3 mask + 1) * 34)%nat) ->
  top_upped_bits dat (N.eqb (d2 mod 2) 0) = Ok b ->
  (if sp then (exists t, dat = ty :: t) /\ ty <> 0%N else ty = 0%N) ->
  read_refs k size (refbytes ++ rest) [] = Ok (refs, rest) ->
  length refbytes = (size * k)%nat ->
  parse_cell (d1 :: d2 :: stored ++ dat ++ refbytes ++ rest) size
  = Ok (mkrnode sp ty mask b refs, rest).
Proof.
  intros T3 T4 M8 D32 HD Hst Htop Hty Hrefs Hrl.
  unfold parse_cell. cbv zeta.
  rewrite T3, T4, M8, D32, HD.
  match goal with |- bind ?A _ = _ =>
    assert (E2 : A = Ok (dat ++ refbytes ++ rest)) end.
  { destruct Hst as [->|Hl].
    - reflexivity.
    - replace (length stored =? 0)%nat with false by (symmetry; apply Nat.eqb_neq; lia).
      cbn [negb]. rewrite <- Hl, short_app_exact, skipn_app_exact. reflexivity. }
  rewrite E2. cbn [bind].
  assert (Es : short (length dat + size * k) (dat ++ refbytes ++ rest) = false).
  { apply short_false_iff. rewrite !app_length. lia. }
  rewrite Es.
  match goal with |- bind ?A _ = _ => assert (Et : A = Ok ty) end.
  { destruct sp; [|rewrite Hty; reflexivity].
    destruct Hty as ((t & ->) & _). reflexivity. }
  rewrite Et. cbn [bind].
  rewrite take_drop_ok by (rewrite app_length; lia). cbn [bind].
  rewrite firstn_app_exact, skipn_app_exact, Htop. cbn [bind].
  rewrite Hrefs. cbn [bind].
  replace (sp && negb (ty =? 0)%N) with sp; [reflexivity|].
  destruct sp; [|reflexivity]. destruct Hty as (_ & Hnz).
  apply N.eqb_neq in Hnz. rewrite Hnz. reflexivity.
Qed.

Definition rnode_of (c : node) : rnode :=
  mkrnode (n_special c) (n_type c) (n_mask c) (n_bits c) (map N.of_nat (n_refs c)).

Lemma node_of_rnode_of c : node_of (rnode_of c) = c.
Proof.
  destruct c as [sp ty m b rs]. unfold node_of, rnode_of.
  cbn [rn_special rn_type rn_mask rn_bits rn_refs n_special n_type n_mask n_bits n_refs].
  rewrite map_to_of_nat. reflexivity.
Qed.

Lemma parse_cell_enc n i size c stored rest :
  cell_ok n i size c stored ->
  (N.of_nat n <= 256 ^ N.of_nat size)%N -> (N.of_nat n <= two64)%N ->
  parse_cell (enc_cell size c stored ++ rest) size = Ok (rnode_of c, rest).
Proof.
  intros (Hbits & Hnr & Hrefs & Hmask & Hsp & Hst & _) Hn1 Hn2.
  unfold enc_cell. cbv zeta.
  rewrite <- !app_comm_cons, <- !app_assoc.
  destruct (d1_facts (N.of_nat (length (n_refs c))) (n_special c)
                     (Nat.eqb (length stored) 0) (n_mask c) ltac:(lia) Hmask)
    as (T3 & T4 & M8 & D32 & _).
  destruct (d2_facts (length (n_bits c)) Hbits) as (HD & HF & _).
  fold (be_list size (n_refs c)).
  unfold rnode_of.
  apply parse_cell_gen with (k := length (n_refs c)).
  - exact T3.
  - exact T4.
  - rewrite M8. apply Nat2N.id.
  - exact D32.
  - unfold d2_of. rewrite HD. symmetry. apply enc_data_length.
  - exact Hst.
  - unfold d2_of. rewrite HF. apply top_upped_enc.
  - destruct (n_special c).
    + destruct Hsp as (H8 & Hty & Hnz). split; [|exact Hnz].
      rewrite Hty. apply enc_data_first. exact H8.
    + exact Hsp.
  - rewrite read_refs_be; [reflexivity|].
    eapply Forall_impl; [|exact Hrefs]. intros r Hr. cbv beta in Hr. unfold fits.
    split; [apply N.lt_le_trans with (N.of_nat n); [lia|exact Hn1]
           |apply N.lt_le_trans with (N.of_nat n); [lia|exact Hn2]].
  - apply be_list_length.
Qed.

Definition cells_bytes (size : nat) (cells : list node) (stored : list bytes) : bytes :=
  concat (map (fun p => enc_cell size (fst p) (snd p)) (combine cells stored)).

Lemma parse_cells_enc n size : forall cells stored i acc,
  cells_ok n i size cells stored ->
  (N.of_nat n <= 256 ^ N.of_nat size)%N -> (N.of_nat n <= two64)%N ->
  parse_cells (length cells) size (cells_bytes size cells stored) acc
  = Ok (rev acc ++ map rnode_of cells).
Proof.
  induction cells as [|c t IH]; intros stored i acc Hok Hn1 Hn2.
  - cbn [length parse_cells map]. rewrite app_nil_r. reflexivity.
  - destruct stored as [|s ts]; [contradiction|]. destruct Hok as (Hc & Ht).
    unfold cells_bytes. cbn [combine map concat fst snd length parse_cells].
    fold (cells_bytes size t ts).
    rewrite (parse_cell_enc _ _ _ _ _ _ Hc Hn1 Hn2). cbn [bind].
    rewrite (IH _ _ _ Ht Hn1 Hn2). cbn [rev]. rewrite <- app_assoc. reflexivity.
Qed.

Lemma cells_bytes_length n size : forall cells stored i,
  cells_ok n i size cells stored ->
  (2 * length cells <= length (cells_bytes size cells stored))%nat.
Proof.
  induction cells as [|c t IH]; intros stored i Hok; [cbn [length]; lia|].
  destruct stored as [|s ts]; [contradiction|]. destruct Hok as (_ & Ht).
  unfold cells_bytes. cbn [combine map concat fst snd]. fold (cells_bytes size t ts).
  rewrite app_length. specialize (IH _ _ Ht).
  unfold enc_cell. cbn [length]. lia.
Qed.

Lemma enc_cell_bytes n i size c stored :
  cell_ok n i size c stored -> Forall is_byte (enc_cell size c stored).
Proof.
  intros (Hbits & Hnr & _ & Hmask & _ & _ & Hsb).
  unfold enc_cell. cbv zeta.
  destruct (d1_facts (N.of_nat (length (n_refs c))) (n_special c)
                     (Nat.eqb (length stored) 0) (n_mask c) ltac:(lia) Hmask)
    as (_ & _ & _ & _ & B1).
  destruct (d2_facts (length (n_bits c)) Hbits) as (_ & _ & B2).
  constructor; [exact B1|]. constructor; [exact B2|].
  apply Forall_app. split; [exact Hsb|].
  apply Forall_app. split; [apply bytes_of_bits_bytes|apply be_list_bytes].
Qed.

Lemma cells_bytes_bytes n size : forall cells stored i,
  cells_ok n i size cells stored -> Forall is_byte (cells_bytes size cells stored).
Proof.
  induction cells as [|c t IH]; intros stored i Hok; [constructor|].
  destruct stored as [|s ts]; [contradiction|]. destruct Hok as (Hc & Ht).
  unfold cells_bytes. cbn [combine map concat fst snd]. fold (cells_bytes size t ts).
  apply Forall_app. split; [eapply enc_cell_bytes; exact Hc|eapply IH; exact Ht].
Qed.

Lemma check_refs_enc n size : forall cells stored i,
  cells_ok n i size cells stored ->
  check_refs (N.of_nat n) (N.of_nat i) (map rnode_of cells) = true.
Proof.
  induction cells as [|c t IH]; intros stored i Hok; [reflexivity|].
  destruct stored as [|s ts]; [contradiction|]. destruct Hok as (Hc & Ht).
  cbn [map check_refs]. apply andb_true_iff. split.
  - destruct Hc as (_ & Hnr & Hrefs & _).
    unfold refs_ok, rnode_of. cbn [rn_refs]. rewrite map_length.
    apply andb_true_iff. split; [apply Nat.leb_le; exact Hnr|].
    apply forallb_forall. intros r Hin. apply in_map_iff in Hin.
    destruct Hin as (x & <- & Hx). rewrite Forall_forall in Hrefs.
    specialize (Hrefs _ Hx). apply andb_true_iff. split; apply N.ltb_lt; lia.
  - rewrite <- Nat2N.inj_succ. eapply IH. exact Ht.
Qed.

Lemma map_node_of_rnode_of cells : map node_of (map rnode_of cells) = cells.
Proof.
  induction cells as [|c t IH]; [reflexivity|].
  cbn [map]. rewrite node_of_rnode_of, IH. reflexivity.
Qed.
(** *** the header *)
Definition cfg_of (prefix : bytes) (fb : N) : option (bool * bool * bool * nat) :=
  if bytes_eqb prefix magic_reach then
    Some (N.testbit fb 7, N.testbit fb 6, N.testbit fb 5, N.to_nat (fb mod 8))
  else if bytes_eqb prefix magic_lean then Some (true, false, false, N.to_nat fb)
  else if bytes_eqb prefix magic_lean_crc then Some (true, true, false, N.to_nat fb)
  else None.

(* everything after the offset-size byte *)
Definition hrest (size off n : nat) (rootl : list nat) (absent : N) (idx data tail : bytes) : bytes :=
  be size (N.of_nat n) ++ be size (N.of_nat (length rootl)) ++ be size absent
  ++ be off (N.of_nat (length data)) ++ be_list size rootl ++ idx ++ data ++ tail.

Lemma hrest_tail size off n rootl absent idx data tail :
  hrest size off n rootl absent idx data tail
  = hrest size off n rootl absent idx data [] ++ tail.
Proof. unfold hrest. rewrite <- !app_assoc. rewrite app_nil_l. reflexivity. Qed.

Lemma parse_header_layout a b c d fb hasIdx hasCrc hasCache size off n rootl absent idx data tail :
  cfg_of [a; b; c; d] fb = Some (hasIdx, hasCrc, hasCache, size) ->
  (1 <= size)%nat -> (off <= 8)%nat ->
  (N.of_nat n < 256 ^ N.of_nat size)%N -> (N.of_nat n < two64)%N ->
  (N.of_nat (length rootl) < 256 ^ N.of_nat size)%N -> (N.of_nat (length rootl) < two64)%N ->
  (N.of_nat (length data) < 256 ^ N.of_nat off)%N ->
  Forall (fits size) rootl ->
  (n <= length data)%nat ->
  length idx = (if hasIdx then off * n else 0)%nat ->
  let body := a :: b :: c :: d :: fb :: N.of_nat off
              :: hrest size off n rootl absent idx data [] in
  tail = (if hasCrc then rev (be 4 (crc32c body)) else []) ->
  (crc32c body < 2 ^ 32)%N ->
  exists ab ix,
    parse_header (a :: b :: c :: d :: fb :: N.of_nat off
                  :: hrest size off n rootl absent idx data tail)
    = Ok (mkheader hasIdx hasCrc hasCache size (N.of_nat n) (N.of_nat (length rootl)) ab
                   (N.of_nat (length data)) (map N.of_nat rootl) ix data
                   (8 * N.of_nat (length rootl) + 8 * N.of_nat n)%N).
Proof.
  intros Hcfg Hsz Hoff Hn1 Hn2 Hr1 Hr2 Hd1 Hfits Hnd Hidx body Htail Hcrc.
  assert (Hd2 : (N.of_nat (length data) < two64)%N).
  { eapply N.lt_le_trans; [exact Hd1|]. unfold two64. change 18446744073709551616%N with (256 ^ 8)%N.
    apply N.pow_le_mono_r; lia. }
  assert (Hboc : a :: b :: c :: d :: fb :: N.of_nat off
                 :: hrest size off n rootl absent idx data tail = body ++ tail).
  { unfold body. rewrite hrest_tail. reflexivity. }
  set (boc := a :: b :: c :: d :: fb :: N.of_nat off
              :: hrest size off n rootl absent idx data tail) in *.
  unfold parse_header.
  assert (E5 : short 5 boc = false) by reflexivity. rewrite E5.
  assert (E4 : take_drop 4 boc
               = Ok ([a; b; c; d], fb :: N.of_nat off :: hrest size off n rootl absent idx data tail))
    by reflexivity.
  rewrite E4. cbn [bind].
  fold (cfg_of [a; b; c; d] fb). rewrite Hcfg.
  rewrite !Nat2N.id.
  assert (Es : short (1 + 3 * size)
                 (N.of_nat off :: hrest size off n rootl absent idx data tail) = false).
  { apply short_false_iff. cbn [length]. unfold hrest. rewrite !app_length, !be_length. lia. }
  rewrite Es. unfold hrest.
  rewrite (read_be_drop_be _ _ _ Hn1 Hn2). cbn [bind].
  rewrite (read_be_drop_be _ _ _ Hr1 Hr2). cbn [bind].
  rewrite read_be_drop_be_gen. cbn [bind].
  set (ab := ((absent mod 256 ^ N.of_nat size) mod two64)%N). exists ab.
  assert (Eo : forall X, short off (be off (N.of_nat (length data)) ++ X) = false).
  { intros X. apply short_false_iff. rewrite app_length, be_length. lia. }
  rewrite Eo.
  rewrite (read_be_drop_be _ _ _ Hd1 Hd2). cbn [bind].
  set (k := length rootl) in *.
  assert (Lb6 : length (be_list size rootl ++ idx ++ data ++ tail)
                = (size * k + (length idx + (length data + length tail)))%nat).
  { rewrite !app_length, be_list_length. reflexivity. }
  rewrite Lb6.
  assert (Er : ((N.of_nat (size * k + (length idx + (length data + length tail))) <? N.of_nat k)%N
               || (N.of_nat (size * k + (length idx + (length data + length tail)))
                   <? N.of_nat k * N.of_nat size)%N) = false).
  { apply orb_false_iff. split; apply N.ltb_ge; nia. }
  rewrite Er.
  assert (Ec : (N.of_nat (size * k + (length idx + (length data + length tail))) <? N.of_nat n)%N = false).
  { apply N.ltb_ge. lia. }
  rewrite Ec.
  unfold k. rewrite !Nat2N.id. rewrite (read_list_be _ _ _ _ Hfits). cbn [bind rev app].
  match goal with |- exists ix, bind ?A _ = _ =>
    assert (Eix : exists ix, A = Ok (ix, data ++ tail)) end.
  { destruct hasIdx.
    - assert (Ei : (N.of_nat (length (idx ++ data ++ tail)) <? N.of_nat off * N.of_nat n)%N = false).
      { apply N.ltb_ge. rewrite app_length, Hidx. nia. }
      rewrite Ei.
      destruct (read_list_ok n off hasCache (idx ++ data ++ tail) []) as (vs & E & _).
      { rewrite app_length. lia. }
      exists vs. rewrite E. replace (n * off)%nat with (length idx) by lia.
      rewrite skipn_app_exact. reflexivity.
    - destruct idx; [|discriminate]. exists []. reflexivity. }
  destruct Eix as (ix & Eix). exists ix. rewrite Eix. cbn [bind].
  assert (Et : (N.of_nat (length (data ++ tail)) <? N.of_nat (length data))%N = false).
  { apply N.ltb_ge. rewrite app_length. lia. }
  rewrite Et.
  rewrite take_drop_ok by (rewrite app_length; lia).
  rewrite firstn_app_exact, skipn_app_exact. cbn [bind].
  match goal with |- context [firstn (length boc - 4) ?L] => change L with boc end.
  destruct hasCrc.
  - assert (Htl : length tail = 4%nat) by (rewrite Htail, rev_length, be_length; reflexivity).
    assert (Hfirst : firstn (length boc - 4) boc = body).
    { rewrite Hboc, app_length, Htl.
      replace (length body + 4 - 4)%nat with (length body) by lia.
      apply firstn_app_exact. }
    rewrite Hfirst.
    assert (E4' : short 4 tail = false) by (apply short_false_iff; lia).
    rewrite E4'.
    assert (Ele : le32 tail = crc32c body) by (rewrite Htail; apply le32_be4; exact Hcrc).
    rewrite Ele, N.eqb_refl. cbn [negb bind].
    rewrite skipn_all2 by lia. reflexivity.
  - rewrite Htail. reflexivity.
Qed.

(** *** the layout has the shape the header walk expects *)
Lemma cfg_reach fb :
  cfg_of magic_reach fb
  = Some (N.testbit fb 7, N.testbit fb 6, N.testbit fb 5, N.to_nat (fb mod 8)).
Proof. reflexivity. Qed.
Lemma cfg_lean fb : cfg_of magic_lean fb = Some (true, false, false, N.to_nat fb).
Proof. reflexivity. Qed.
Lemma cfg_lean_crc fb : cfg_of magic_lean_crc fb = Some (true, true, false, N.to_nat fb).
Proof. reflexivity. Qed.

Lemma fb_facts (vi vc vh : bool) (size : nat) :
  (size <= 7)%nat ->
  let fb := ((if vi then 128 else 0) + (if vc then 64 else 0)
             + (if vh then 32 else 0) + N.of_nat size)%N in
  N.testbit fb 7 = vi /\ N.testbit fb 6 = vc /\ N.testbit fb 5 = vh /\
  N.to_nat (fb mod 8) = size /\ (fb < 256)%N.
Proof.
  intros Hs.
  assert (Hs' : (size = 0 \/ size = 1 \/ size = 2 \/ size = 3 \/ size = 4 \/ size = 5
                 \/ size = 6 \/ size = 7)%nat) by lia.
  clear Hs.
  destruct Hs' as [->|[->|[->|[->|[->|[->|[->| ->]]]]]]];
    destruct vi, vc, vh; vm_compute; repeat split.
Qed.

Definition full (a b c d fb : N) (v : variant) (cells : list node) (roots : list nat)
  (t : bytes) : bytes :=
  a :: b :: c :: d :: fb :: N.of_nat (v_off v)
  :: hrest (v_size v) (v_off v) (length cells) roots (v_absent v)
       (if has_idx v then v_index v else []) (cells_bytes (v_size v) cells (v_stored v)) t.

Lemma layout_shape v cells roots :
  (v_magic v <= 2)%nat ->
  (if Nat.eqb (v_magic v) 0 then v_size v <= 7 else v_size v <= 255)%nat ->
  exists a b c d fb hasCache,
    cfg_of [a; b; c; d] fb = Some (has_idx v, has_crc v, hasCache, v_size v) /\
    Forall is_byte [a; b; c; d; fb] /\
    layout v cells roots
    = full a b c d fb v cells roots
        (if has_crc v then rev (be 4 (crc32c (full a b c d fb v cells roots []))) else []).
Proof.
  intros Hm Hs.
  destruct v as [mg vi vc vh size off ab index stored].
  cbn [v_magic v_size] in Hm, Hs.
  destruct mg as [|[|[|mg]]]; [| | |lia]; cbn [Nat.eqb] in Hs.
  - destruct (fb_facts vi vc vh size Hs) as (F7 & F6 & F5 & F8 & Fb).
    exists 0xb5%N, 0xee%N, 0x9c%N, 0x72%N,
      ((if vi then 128 else 0) + (if vc then 64 else 0)
       + (if vh then 32 else 0) + N.of_nat size)%N, vh.
    split; [|split].
    + rewrite (cfg_reach _), F7, F6, F5, F8. reflexivity.
    + repeat constructor; try exact Fb; unfold is_byte; lia.
    + unfold full, layout, has_crc, has_idx, cells_data, hrest, magic_reach.
      cbn [v_magic v_idx v_crc v_cache v_size v_off v_absent v_index v_stored Nat.eqb].
      destruct vc; cbn [app]; rewrite ?app_nil_r, <- ?app_assoc; cbn [app]; reflexivity.
  - exists 0x68%N, 0xff%N, 0x65%N, 0xf3%N, (N.of_nat size), false.
    split; [|split].
    + rewrite (cfg_lean _), Nat2N.id. reflexivity.
    + repeat constructor; unfold is_byte; lia.
    + unfold full, layout, has_crc, has_idx, cells_data, hrest, magic_lean.
      cbn [v_magic v_idx v_crc v_cache v_size v_off v_absent v_index v_stored Nat.eqb].
      cbn [app]. rewrite ?app_nil_r, <- ?app_assoc. cbn [app]. reflexivity.
  - exists 0xac%N, 0xc3%N, 0xa7%N, 0x28%N, (N.of_nat size), false.
    split; [|split].
    + rewrite (cfg_lean_crc _), Nat2N.id. reflexivity.
    + repeat constructor; unfold is_byte; lia.
    + unfold full, layout, has_crc, has_idx, cells_data, hrest, magic_lean_crc.
      cbn [v_magic v_idx v_crc v_cache v_size v_off v_absent v_index v_stored Nat.eqb].
      cbn [app]. rewrite ?app_nil_r, <- ?app_assoc. cbn [app]. reflexivity.
Qed.

Lemma hrest_bytes size off n rootl absent idx data :
  Forall is_byte idx -> Forall is_byte data ->
  Forall is_byte (hrest size off n rootl absent idx data []).
Proof.
  intros Hi Hd. unfold hrest.
  repeat (apply Forall_app; split); try apply be_bytes; try apply be_list_bytes;
    try assumption. constructor.
Qed.

(** *** the parser inverts the layout *)
Theorem parse_layout (v : variant) (cells : list node) (roots : list nat) :
  layout_ok v cells roots ->
  (N.of_nat (length roots) < 2 ^ 64)%N ->
  exists p, parse_boc (layout v cells roots) = Ok p /\ p_cells p = cells /\ p_roots p = roots.
Proof.
  intros (Hmag & Hsz1 & Hsz2 & Hoff & Hn & Hnr & Hab & Hdl & Hroots & Hcells & Hidx & Hidxb) Hr64.
  cbv zeta in *.
  change (2 ^ 64)%N with two64 in Hr64.
  change (cells_data v cells) with (cells_bytes (v_size v) cells (v_stored v)) in Hdl.
  set (size := v_size v) in *. set (off := v_off v) in *. set (n := length cells) in *.
  set (data := cells_bytes size cells (v_stored v)) in *.
  pose proof (cells_bytes_length _ _ _ _ _ Hcells) as Hlen. fold data in Hlen. fold n in Hlen.
  assert (Hd2 : (N.of_nat (length data) < two64)%N).
  { eapply N.lt_le_trans; [exact Hdl|]. unfold two64.
    change 18446744073709551616%N with (256 ^ 8)%N. apply N.pow_le_mono_r; lia. }
  assert (Hn2 : (N.of_nat n < two64)%N) by lia.
  destruct (layout_shape v cells roots Hmag Hsz2) as (a & b & c & d & fb & hasCache & Hcfg & Hpb & Hlay).
  unfold full in Hlay. fold size off n data in Hlay.
  set (idx := if has_idx v then v_index v else []) in *.
  assert (Hib : Forall is_byte idx) by (unfold idx; destruct (has_idx v); [exact Hidxb|constructor]).
  assert (Hdb : Forall is_byte data) by (eapply cells_bytes_bytes; exact Hcells).
  destruct (parse_header_layout a b c d fb (has_idx v) (has_crc v) hasCache size off n roots
              (v_absent v) idx data
              (if has_crc v
               then rev (be 4 (crc32c (a :: b :: c :: d :: fb :: N.of_nat off
                                        :: hrest size off n roots (v_absent v) idx data [])))
               else []))
    as (ab & ix & Eh); try assumption; try reflexivity; try lia.
  - apply Forall_forall. intros r Hr. rewrite Forall_forall in Hroots. specialize (Hroots r Hr).
    cbv beta in Hroots. fold n in Hroots. unfold fits.
    split; [apply N.lt_trans with (N.of_nat n); [lia|exact Hn]
           |apply N.lt_trans with (N.of_nat n); [lia|exact Hn2]].
  - unfold idx. destruct (has_idx v); [apply Hidx; reflexivity|reflexivity].
  - apply crc32c_bound.
    rewrite !Forall_cons_iff in Hpb. destruct Hpb as (Ha & Hb & Hc & Hd & Hf & _).
    repeat (constructor; [assumption|]).
    constructor; [unfold is_byte; lia|].
    apply hrest_bytes; assumption.
  - assert (Eh' : parse_header (layout v cells roots) = Ok
      (mkheader (has_idx v) (has_crc v) hasCache size (N.of_nat n) (N.of_nat (length roots)) ab
         (N.of_nat (length data)) (map N.of_nat roots) ix data
         (8 * N.of_nat (length roots) + 8 * N.of_nat n)%N)) by (rewrite Hlay; exact Eh).
    unfold parse_boc. rewrite Eh'.
    cbn [bind h_cells h_size h_data h_rootlist h_alloc].
    rewrite Nat2N.id. unfold n, data.
    rewrite (parse_cells_enc (length cells) size cells (v_stored v) 0 [] Hcells);
      [|apply N.lt_le_incl; exact Hn|apply N.lt_le_incl; exact Hn2].
    cbn [bind rev app]. rewrite map_length.
    pose proof (check_refs_enc _ _ _ _ _ Hcells) as Hchk. change (N.of_nat 0) with 0%N in Hchk. unfold n in Hchk.
    rewrite Hchk. cbn [negb].
    assert (Hrt : forallb (fun r => (r <? N.of_nat (length cells))%N) (map N.of_nat roots) = true).
    { apply forallb_forall. intros x Hx. apply in_map_iff in Hx. destruct Hx as (r & <- & Hr).
      rewrite Forall_forall in Hroots. specialize (Hroots r Hr). cbv beta in Hroots.
      apply N.ltb_lt. fold n. lia. }
    rewrite Hrt. cbn [negb].
    eexists. split; [reflexivity|]. cbn [p_cells p_roots].
    split; [apply map_node_of_rnode_of|apply map_to_of_nat].
Qed.

(** Why the bound on the number of roots: for the lean magics the reference
    size may exceed 8 bytes, and the parser's counter reader works in uint64,
    so a 9-byte root count >= 2^64 is read back as a different number. *)
Example read_be_wraps : read_be 9 (be 9 (2 ^ 64)) = Ok 0%N.
Proof. vm_compute. reflexivity. Qed.

(** With at most 8 bytes per cell index (always the case for the generic
    magic, whose size field has 3 bits) the bound follows from [layout_ok]. *)
Corollary parse_layout_size8 (v : variant) (cells : list node) (roots : list nat) :
  layout_ok v cells roots -> (v_size v <= 8)%nat ->
  exists p, parse_boc (layout v cells roots) = Ok p /\ p_cells p = cells /\ p_roots p = roots.
Proof.
  intros Hok H8. apply parse_layout; [exact Hok|].
  destruct Hok as (_ & _ & _ & _ & _ & Hnr & _). cbv zeta in Hnr.
  eapply N.lt_le_trans; [exact Hnr|].
  change (2 ^ 64)%N with (256 ^ 8)%N. apply N.pow_le_mono_r; lia.
Qed.

Corollary parse_layout_generic (v : variant) (cells : list node) (roots : list nat) :
  layout_ok v cells roots -> v_magic v = 0%nat ->
  exists p, parse_boc (layout v cells roots) = Ok p /\ p_cells p = cells /\ p_roots p = roots.
Proof.
  intros Hok Hm. apply parse_layout_size8; [exact Hok|].
  destruct Hok as (_ & _ & Hs & _). cbv zeta in Hs. rewrite Hm in Hs. cbn [Nat.eqb] in Hs. lia.
Qed.

(** The cells and roots a reader obtains do not depend on the header variant,
    the stored hashes, the index bytes or the absent counter. *)
Corollary parse_layout_hashes_irrelevant (v v' : variant) (cells : list node) (roots : list nat) :
  layout_ok v cells roots -> layout_ok v' cells roots ->
  (N.of_nat (length roots) < 2 ^ 64)%N ->
  exists p p', parse_boc (layout v cells roots) = Ok p /\
               parse_boc (layout v' cells roots) = Ok p' /\
               p_cells p = p_cells p' /\ p_roots p = p_roots p'.
Proof.
  intros H1 H2 Hr.
  destruct (parse_layout v cells roots H1 Hr) as (p & E & Hc & Hrt).
  destruct (parse_layout v' cells roots H2 Hr) as (p' & E' & Hc' & Hrt').
  exists p, p'. rewrite Hc, Hc', Hrt, Hrt'. auto.
Qed.
