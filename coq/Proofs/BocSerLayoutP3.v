(** C01 — the bytes emitted by the serialiser model are the BOC layout, part 3:
    what the import phase ([importCell] / [importRoots]) builds.  Every entry of
    the cell-info array points to a cell of the input array; its references are,
    in order, the positions of entries whose hash equals the hash of the
    corresponding child; every map entry is sound; and — when hashes separate
    sub-trees (section hypotheses [T1], [T2], used only under the flag [CF]) —
    two different entries never carry the same hash ("stored once").  Without any
    assumption on the hashes an input cell is imported at most once ([NDX]). *)
From Coq Require Import List NArith ZArith Arith Bool Lia Permutation.
From Tongo Require Import Lib.Bits Lib.Res Model.BocParse Model.CellHash Model.BocSer Proofs.BocParseP
  Proofs.BocReorderP1 Proofs.BocReorderP2 Proofs.BocReorderP3 Proofs.BocReorderP4.
Import ListNotations.

Lemma bytes_eqb_true a : forall b, bytes_eqb a b = true -> a = b.
Proof.
  unfold bytes_eqb. induction a as [|x a IH]; intros [|y b] E; cbn [length combine forallb fst snd Nat.eqb] in E;
    try reflexivity; try discriminate.
  apply andb_true_iff in E. destruct E as [E1 E2]. apply andb_true_iff in E2. destruct E2 as [E2 E3].
  apply N.eqb_eq in E2. subst y. f_equal. apply IH. apply andb_true_iff. split; assumption.
Qed.

Lemma bytes_eqb_same a : bytes_eqb a a = true.
Proof.
  unfold bytes_eqb. induction a as [|x a IH]; [reflexivity|].
  cbn [length combine forallb fst snd Nat.eqb]. apply andb_true_iff in IH. destruct IH as [I1 I2].
  rewrite I1, I2, N.eqb_refl. reflexivity.
Qed.

Section Imp2.
Variable dag : list node.
Variable hashes : list (res bytes).

Definition hash_of (c : nat) (h : bytes) : Prop := nth_error hashes c = Some (Ok h).
Definition nodeix (st : list cinfo) (i : nat) : nat := ci_node (get_ci st i).

Lemma hash_of_fun c h h' : hash_of c h -> hash_of c h' -> h = h'.
Proof. unfold hash_of. intros A B. rewrite A in B. injection B as B. exact B. Qed.

(* entry [p] stands for input cell [c]: same hash *)
Definition link (st : list cinfo) (p c : nat) : Prop :=
  p < length st /\ c < length dag /\ exists h, hash_of (nodeix st p) h /\ hash_of c h.

(* cells of interest (instantiated with the cells reachable from the roots) *)
Variable R : nat -> Prop.
Hypothesis R_child : forall c nd r, R c -> nth_error dag c = Some nd -> In r (n_refs nd) -> R r.

(* optional: a measure that strictly decreases along references (under the
   flag [CFb]) and is determined by the hash (under [CF]); instantiate a flag
   with [False] to ignore the corresponding conclusions *)
Variable CFb CF : Prop.
Variable tsz : nat -> nat.
Hypothesis T1 : CFb -> forall c nd r, R c -> nth_error dag c = Some nd -> In r (n_refs nd) -> tsz r < tsz c.
Hypothesis T2 : CF -> forall c c' h, R c -> R c' -> hash_of c h -> hash_of c' h -> tsz c = tsz c'.

Definition LK (st : list cinfo) : Prop :=
  forall i, i < length st ->
  exists nd h, nth_error dag (nodeix st i) = Some nd /\ hash_of (nodeix st i) h /\
               Forall2 (link st) (rf st i) (n_refs nd).
Definition MP (st : list cinfo) (m : list (bytes * nat)) : Prop :=
  forall h pos, find_hash h m = Some pos -> pos < length st /\ hash_of (nodeix st pos) h.
Definition RC (st : list cinfo) : Prop := forall i, i < length st -> R (nodeix st i).
Definition INJ (st : list cinfo) : Prop :=
  forall i i' h, i < length st -> i' < length st ->
  hash_of (nodeix st i) h -> hash_of (nodeix st i') h -> i = i'.
Definition CM (st : list cinfo) (m : list (bytes * nat)) : Prop :=
  forall i h, i < length st -> hash_of (nodeix st i) h -> find_hash h m <> None.
(* an input cell is imported at most once *)
Definition NDX (st : list cinfo) : Prop :=
  forall i i', i < length st -> i' < length st -> nodeix st i = nodeix st i' -> i = i'.
Definition IS2 (st : list cinfo) (m : list (bytes * nat)) : Prop :=
  LK st /\ MP st m /\ RC st /\ CM st m /\ (CFb -> NDX st) /\ (CFb -> CF -> INJ st).

Definition ext (st st' : list cinfo) : Prop :=
  length st <= length st' /\
  forall i, i < length st -> nodeix st' i = nodeix st i /\ rf st' i = rf st i.

Lemma ext_refl st : ext st st.
Proof. split; [lia|]. intros i _. split; reflexivity. Qed.

Lemma ext_trans a b c : ext a b -> ext b c -> ext a c.
Proof.
  intros [L1 E1] [L2 E2]. split; [lia|]. intros i Hi.
  destruct (E1 i Hi) as [A1 B1]. destruct (E2 i ltac:(lia)) as [A2 B2]. split; congruence.
Qed.

Lemma link_ext st st' p c : ext st st' -> link st p c -> link st' p c.
Proof.
  intros [L E] (Hp & Hc & h & H1 & H2). split; [lia|]. split; [exact Hc|]. exists h. split; [|exact H2].
  destruct (E p Hp) as [-> _]. exact H1.
Qed.

Lemma Forall2_link_ext st st' ps cs : ext st st' -> Forall2 (link st) ps cs -> Forall2 (link st') ps cs.
Proof. intros He HF. induction HF; constructor; [eapply link_ext; eauto|assumption]. Qed.

Lemma ext_app st c : ext st (st ++ [c]).
Proof.
  split; [rewrite app_length; lia|]. intros i Hi. unfold nodeix, rf.
  rewrite get_app_old by exact Hi. split; reflexivity.
Qed.

Lemma cache_get st pos i :
  ci_node (get_ci (set_ci st pos (with_cache (get_ci st pos))) i) = ci_node (get_ci st i) /\
  ci_refs (get_ci (set_ci st pos (with_cache (get_ci st pos))) i) = ci_refs (get_ci st i).
Proof.
  destruct (Nat.eq_dec pos i) as [->|Hne].
  - destruct (Nat.lt_ge_cases i (length st)) as [Hlt|Hge].
    + rewrite get_set_eq by exact Hlt. split; reflexivity.
    + unfold set_ci. rewrite set_nth_oob by exact Hge. split; reflexivity.
  - rewrite get_set_neq by exact Hne. split; reflexivity.
Qed.

Lemma IS2_same st st' m :
  length st' = length st -> (forall i, nodeix st' i = nodeix st i) -> (forall i, rf st' i = rf st i) ->
  IS2 st m -> IS2 st' m.
Proof.
  intros L N F (HLK & HMP & HRC & HM & HX & HC).
  assert (HE : ext st st') by (split; [lia|]; intros i _; split; [apply N|apply F]).
  split; [|split; [|split; [|split; [|split]]]].
  - intros i Hi. rewrite L in Hi. destruct (HLK i Hi) as (nd & h & A & B & C).
    exists nd, h. rewrite N, F. split; [exact A|]. split; [exact B|].
    eapply Forall2_link_ext; eauto.
  - intros h pos Hf. destruct (HMP h pos Hf) as [A B]. rewrite L, N. split; assumption.
  - intros i Hi. rewrite L in Hi. rewrite N. apply HRC. exact Hi.
  - intros i h Hi. rewrite L in Hi. rewrite N. apply HM. exact Hi.
  - intros HCFb i i' Hi Hi'. rewrite L in Hi, Hi'. rewrite !N. apply (HX HCFb); assumption.
  - intros HCFb HCF i i' h Hi Hi'. rewrite L in Hi, Hi'. rewrite !N. apply (HC HCFb HCF); assumption.
Qed.

Definition ic_post2 (st : list cinfo) (cell : nat)
  (r : res (list cinfo * list (bytes * nat) * nat)) : Prop :=
  match r with
  | Ok (st', m', pos) =>
      IS2 st' m' /\ ext st st' /\ link st' pos cell /\
      (CFb -> forall i, length st <= i < length st' -> tsz (nodeix st' i) <= tsz cell)
  | _ => True
  end.

Definition ic_ok2 (ic : icT) : Prop :=
  forall st m r, R r -> IS2 st m -> ic_post2 st r (ic st m r).

Lemma iloop_spec2 ic : ic_ok2 ic ->
  forall rs done st m acc sum L0 B,
  (forall r, In r rs -> R r) -> IS2 st m -> L0 <= length st ->
  Forall2 (link st) (rev acc) done ->
  (CFb -> forall r, In r rs -> tsz r < B) ->
  (CFb -> forall i, L0 <= i < length st -> tsz (nodeix st i) < B) ->
  match iloop ic rs st m acc sum with
  | Ok (st', m', refs, _) =>
      IS2 st' m' /\ ext st st' /\ Forall2 (link st') refs (done ++ rs) /\
      (CFb -> forall i, L0 <= i < length st' -> tsz (nodeix st' i) < B)
  | _ => True
  end.
Proof.
  intros Hic. induction rs as [|r t IH]; intros done st m acc sum L0 B HR HIS HL HF HT HB.
  - cbn [iloop]. rewrite app_nil_r. split; [exact HIS|]. split; [apply ext_refl|]. split; assumption.
  - cbn [iloop].
    pose proof (Hic st m r (HR r (or_introl eq_refl)) HIS) as Hr.
    destruct (ic st m r) as [[[st1 m1] pos]|e|p]; cbn [bind]; [|exact I|exact I].
    destruct Hr as (HIS1 & HE1 & HL1 & HB1). pose proof HE1 as [HLen1 HEq1].
    specialize (IH (done ++ [r]) st1 m1 (pos :: acc) (sum + ci_wt (get_ci st1 pos)) L0 B).
    destruct (iloop ic t st1 m1 (pos :: acc) (sum + ci_wt (get_ci st1 pos)))
      as [[[[st2 m2] refs] sum2]|e|p]; [|exact I|exact I].
    destruct IH as (HIS2 & HE2 & HF2 & HB2).
    + intros r' Hr'. apply HR. right. exact Hr'.
    + exact HIS1.
    + lia.
    + cbn [rev]. apply Forall2_app; [eapply Forall2_link_ext; eauto|].
      constructor; [exact HL1|constructor].
    + intros HCF r' Hr'. apply (HT HCF). right. exact Hr'.
    + intros HCF i Hi. destruct (Nat.lt_ge_cases i (length st)) as [Hlt|Hge].
      * destruct (HEq1 i Hlt) as [-> _]. apply (HB HCF). lia.
      * specialize (HB1 HCF i ltac:(lia)). specialize (HT HCF r (or_introl eq_refl)). lia.
    + split; [exact HIS2|]. split; [eapply ext_trans; eauto|].
      rewrite <- app_assoc in HF2. split; [exact HF2|exact HB2].
Qed.

Lemma import_cell_spec2 : forall fuel st m cell depth,
  R cell -> IS2 st m -> ic_post2 st cell (import_cell dag hashes fuel st m cell depth).
Proof.
  induction fuel as [|f IH]; intros st m cell depth HRc HIS; [exact I|].
  rewrite import_cell_S.
  destruct (1024 <? depth); [exact I|].
  destruct (nth_error hashes cell) as [rh|] eqn:Eh; [|exact I].
  destruct (nth_error dag cell) as [nd|] eqn:End; [|exact I].
  destruct rh as [h|e|p]; cbn [bind]; [|exact I|exact I].
  destruct (find_hash h m) as [pos|] eqn:Ef.
  - (* already imported: only the cache flag changes *)
    cbn [ic_post2]. pose proof HIS as (_ & HMP & _). destruct (HMP h pos Ef) as [Hpos Hh].
    set (st' := set_ci st pos (with_cache (get_ci st pos))).
    assert (HN : forall i, nodeix st' i = nodeix st i) by (intros i; apply cache_get).
    assert (HF : forall i, rf st' i = rf st i) by (intros i; apply cache_get).
    assert (HLn : length st' = length st) by apply set_ci_length.
    split; [apply (IS2_same st st' m HLn HN HF HIS)|].
    split; [split; [lia|]; intros i _; split; [apply HN|apply HF]|].
    split.
    + split; [lia|]. split; [apply nth_error_Some; congruence|].
      exists h. rewrite HN. split; [exact Hh|exact Eh].
    + intros _ i Hi. lia.
  - (* new cell *)
    assert (Hic : ic_ok2 (fun st m r => import_cell dag hashes f st m r (S depth))).
    { intros st0 m0 r Hr HIS0. apply IH; assumption. }
    pose proof (iloop_spec2 _ Hic (n_refs nd) [] st m [] 1 (length st) (tsz cell)
                  (fun r Hr => R_child cell nd r HRc End Hr) HIS (le_n _) (Forall2_nil _)
                  (fun HCF r Hr => T1 HCF cell nd r HRc End Hr)
                  (fun _ i Hi => ltac:(lia))) as HL.
    destruct (iloop _ (n_refs nd) st m [] 1) as [[[[st1 m1] refs] sum]|e|p]; cbn [bind];
      [|exact I|exact I].
    destruct HL as (HIS1 & HE1 & HF1 & HB1). cbn [app] in HF1.
    cbv zeta. cbn [ic_post2].
    set (c := mkci cell false _ refs _ (-1) false).
    assert (HE2 : ext st1 (st1 ++ [c])) by apply ext_app.
    assert (HNnew : nodeix (st1 ++ [c]) (length st1) = cell).
    { unfold nodeix. rewrite get_app_new. reflexivity. }
    assert (HFnew : rf (st1 ++ [c]) (length st1) = refs).
    { unfold rf. rewrite get_app_new. reflexivity. }
    destruct HIS1 as (HLK1 & HMP1 & HRC1 & HM1 & HX1 & HC1).
    destruct HIS as (_ & _ & _ & HM0 & _ & _).
    pose proof HE2 as [_ HEq2].
    assert (HLn : length (st1 ++ [c]) = S (length st1)) by (rewrite app_length; cbn [length]; lia).
    assert (Hold : forall i, i < length st -> ~ hash_of (nodeix st1 i) h).
    { intros i Hlt Hh. destruct HE1 as [_ HEq1]. destruct (HEq1 i Hlt) as [E _]. rewrite E in Hh.
      apply (HM0 i h Hlt Hh). exact Ef. }
    split; [split; [|split; [|split; [|split; [|split]]]]|].
    + (* LK *)
      intros i Hi. rewrite HLn in Hi.
      destruct (Nat.eq_dec i (length st1)) as [->|Hne].
      * exists nd, h. rewrite HNnew, HFnew. split; [exact End|]. split; [exact Eh|].
        eapply Forall2_link_ext; eauto.
      * destruct (HLK1 i ltac:(lia)) as (nd' & h' & A & B & C).
        destruct (HEq2 i ltac:(lia)) as [-> ->]. exists nd', h'.
        split; [exact A|]. split; [exact B|]. eapply Forall2_link_ext; eauto.
    + (* MP *)
      intros h' p' Hf. cbn [find_hash] in Hf. rewrite HLn.
      destruct (bytes_eqb h h') eqn:Eb.
      * injection Hf as <-. apply bytes_eqb_true in Eb. subst h'.
        split; [lia|]. rewrite HNnew. exact Eh.
      * destruct (HMP1 h' p' Hf) as [A B]. split; [lia|].
        destruct (HEq2 p' A) as [-> _]. exact B.
    + (* RC *)
      intros i Hi. rewrite HLn in Hi.
      destruct (Nat.eq_dec i (length st1)) as [->|Hne]; [rewrite HNnew; exact HRc|].
      destruct (HEq2 i ltac:(lia)) as [-> _]. apply HRC1. lia.
    + (* CM *)
      intros i h' Hi Hh. rewrite HLn in Hi. cbn [find_hash].
      destruct (bytes_eqb h h') eqn:Eb; [discriminate|].
      destruct (Nat.eq_dec i (length st1)) as [->|Hne].
      * rewrite HNnew in Hh. pose proof (hash_of_fun _ _ _ Eh Hh) as <-.
        rewrite bytes_eqb_same in Eb. discriminate.
      * destruct (HEq2 i ltac:(lia)) as [E _]. rewrite E in Hh. apply (HM1 i h'); [lia|exact Hh].
    + (* NDX *)
      intros HCFb.
      assert (Hfresh : forall i, i < length st1 -> nodeix st1 i <> cell).
      { intros i Hi Hc. destruct (Nat.lt_ge_cases i (length st)) as [Hlt|Hge].
        - apply (Hold i Hlt). rewrite Hc. exact Eh.
        - specialize (HB1 HCFb i ltac:(lia)). rewrite Hc in HB1. lia. }
      intros i i' Hi Hi'. rewrite HLn in Hi, Hi'.
      destruct (Nat.eq_dec i (length st1)) as [->|Hne];
        destruct (Nat.eq_dec i' (length st1)) as [->|Hne']; [reflexivity| | |].
      * rewrite HNnew. destruct (HEq2 i' ltac:(lia)) as [-> _]. intros A.
        exfalso. apply (Hfresh i'); [lia|congruence].
      * rewrite HNnew. destruct (HEq2 i ltac:(lia)) as [-> _]. intros A.
        exfalso. apply (Hfresh i); [lia|congruence].
      * destruct (HEq2 i ltac:(lia)) as [-> _]. destruct (HEq2 i' ltac:(lia)) as [-> _].
        apply (HX1 HCFb); lia.
    + (* INJ *)
      intros HCFb HCF.
      assert (Hfresh : forall i, i < length st1 -> ~ hash_of (nodeix st1 i) h).
      { intros i Hi Hh. destruct (Nat.lt_ge_cases i (length st)) as [Hlt|Hge].
        - apply (Hold i Hlt Hh).
        - specialize (HB1 HCFb i ltac:(lia)).
          pose proof (T2 HCF (nodeix st1 i) cell h (HRC1 i Hi) HRc Hh Eh). lia. }
      intros i i' h' Hi Hi'. rewrite HLn in Hi, Hi'.
      destruct (Nat.eq_dec i (length st1)) as [->|Hne];
        destruct (Nat.eq_dec i' (length st1)) as [->|Hne']; [reflexivity| | |].
      * rewrite HNnew. destruct (HEq2 i' ltac:(lia)) as [-> _]. intros A B.
        pose proof (hash_of_fun _ _ _ Eh A) as <-. exfalso. apply (Hfresh i'); [lia|exact B].
      * rewrite HNnew. destruct (HEq2 i ltac:(lia)) as [-> _]. intros A B.
        pose proof (hash_of_fun _ _ _ Eh B) as <-. exfalso. apply (Hfresh i); [lia|exact A].
      * destruct (HEq2 i ltac:(lia)) as [-> _]. destruct (HEq2 i' ltac:(lia)) as [-> _].
        apply (HC1 HCFb HCF); lia.
    + split; [eapply ext_trans; eauto|]. split.
      * split; [lia|]. split; [apply nth_error_Some; congruence|].
        exists h. rewrite HNnew. split; exact Eh.
      * intros HCF i Hi. rewrite HLn in Hi.
        destruct (Nat.eq_dec i (length st1)) as [->|Hne]; [rewrite HNnew; lia|].
        destruct (HEq2 i ltac:(lia)) as [-> _]. specialize (HB1 HCF i ltac:(lia)). lia.
Qed.

(** *** importRoots *)
Lemma iroots_spec2 : forall roots done st m acc,
  (forall r, In r roots -> R r) -> IS2 st m -> Forall2 (link st) acc done ->
  match for_roots (iroots_step dag hashes) (st, m, acc) roots with
  | Ok (st', m', acc') => IS2 st' m' /\ Forall2 (link st') acc' (done ++ roots)
  | _ => True
  end.
Proof.
  induction roots as [|r t IH]; intros done st m acc HR HIS HF.
  - cbn [for_roots]. rewrite app_nil_r. split; assumption.
  - cbn [for_roots]. unfold iroots_step at 1.
    pose proof (import_cell_spec2 (S (length dag)) st m r 0 (HR r (or_introl eq_refl)) HIS) as Hr.
    destruct (import_cell dag hashes (S (length dag)) st m r 0) as [[[st1 m1] pos]|e|p];
      cbn [bind]; [|exact I|exact I].
    destruct Hr as (HIS1 & HE1 & HL1 & _).
    specialize (IH (done ++ [r]) st1 m1 (acc ++ [pos])).
    destruct (for_roots (iroots_step dag hashes) (st1, m1, acc ++ [pos]) t) as [[[st2 m2] acc2]|e|p];
      [|exact I|exact I].
    destruct IH as (HIS2 & HF2).
    + intros r' Hr'. apply HR. right. exact Hr'.
    + exact HIS1.
    + apply Forall2_app; [eapply Forall2_link_ext; eauto|]. constructor; [exact HL1|constructor].
    + rewrite <- app_assoc in HF2. split; assumption.
Qed.

Theorem import_phase_links roots :
  (forall r, In r roots -> R r) ->
  match import_phase dag hashes roots with
  | Ok (st, m, rootpos) => IS2 st m /\ Forall2 (link st) rootpos roots
  | _ => True
  end.
Proof.
  intros HR. unfold import_phase.
  apply (iroots_spec2 roots [] [] [] []); [exact HR| |constructor].
  split; [intros i Hi; cbn in Hi; lia|]. split; [intros h pos Hf; discriminate|].
  split; [intros i Hi; cbn in Hi; lia|].
  split; [intros i h Hi; cbn in Hi; lia|].
  split; [intros _ i i' Hi; cbn in Hi; lia|intros _ _ i i' h Hi; cbn in Hi; lia].
Qed.

End Imp2.
