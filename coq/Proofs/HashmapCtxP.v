(** The dictionary walker hands its decoder to the leaf decoder unchanged.
    In the model the value decoder [vdec] of [map_inner] is a parameter of the
    whole walk; a Go Decoder with its options (library resolver, hasher, debug
    flag) is a context [ctx] and the value decoder is [vdec ctx].  For every
    context, every valid dictionary with any label forms whose leaves hold raw
    value encodings (bits and references) decodes to the list of its keys with
    every value decoded by [vdec ctx] applied to that leaf — exactly as the
    value decodes outside a dictionary under the same context; and if some leaf
    does not decode under the context, the dictionary does not decode. *)
From Coq Require Import List NArith Arith Lia Bool Sorted.
From Tongo Require Import Lib.Bits Lib.Res Spec.Dict Model.Hashmap Proofs.DictP Proofs.HashmapP.
Import ListNotations.

Section Ctx.
Variable Ctx V : Type.
Variable vdec : Ctx -> bits -> list cell -> option V.
Variable ctx : Ctx.

(* the leaves of the tree are raw value encodings: what follows the label *)
Notation raw := (bits * list cell)%type.
Definition venc_raw (w : raw) : bits * list cell := w.

Definition dec_leaf (w : raw) : option V := vdec ctx (fst w) (snd w).

Fixpoint dec_all (m : list (bits * raw)) : option (list (bits * V)) :=
  match m with
  | [] => Some []
  | (k, w) :: t =>
      match dec_leaf w, dec_all t with
      | Some v, Some r => Some ((k, v) :: r)
      | _, _ => None
      end
  end.

Lemma dec_all_app a b :
  dec_all (a ++ b) =
    match dec_all a, dec_all b with Some x, Some y => Some (x ++ y) | _, _ => None end.
Proof.
  induction a as [|[k w] a IH]; cbn [app dec_all].
  - destruct (dec_all b); reflexivity.
  - rewrite IH. destruct (dec_leaf w); [|reflexivity].
    destruct (dec_all a); [|reflexivity]. destruct (dec_all b); reflexivity.
Qed.

Lemma map_inner_ctx (t : apt raw) : forall N m prefix c,
  wf_pt m (erase t) -> forms_valid t -> (length prefix + m = N)%nat ->
  cells_of venc_raw m t = Ok c ->
  match dec_all (tree_to_list prefix (erase t)) with
  | Some l => map_inner (vdec ctx) N m c prefix = Ok l
  | None => exists e, map_inner (vdec ctx) N m c prefix = Err e
  end.
Proof.
  induction t as [f lbl v|f lbl l IHl r IHr]; intros N m prefix c Hwf Hfv HN Hc.
  - cbn [cells_of] in Hc. apply mk_cell_ok in Hc. subst c.
    cbn [erase wf_pt forms_valid tree_to_list dec_all] in *.
    cbn [map_inner]. unfold venc_raw.
    rewrite load_label_enc by (auto; lia). cbn [bind].
    replace (length (prefix ++ lbl) <? N)%nat with false
      by (symmetry; apply Nat.ltb_ge; rewrite app_length; lia).
    unfold vdec_res, dec_leaf. destruct (vdec ctx (fst v) (snd v)) as [x|]; cbn [bind].
    + rewrite firstn_all2 by (rewrite app_length; lia). reflexivity.
    + eexists. reflexivity.
  - cbn [cells_of] in Hc.
    apply bind_ok in Hc. destruct Hc as (lc & Hlc & Hc).
    apply bind_ok in Hc. destruct Hc as (rc & Hrc & Hc).
    apply mk_cell_ok in Hc. subst c.
    cbn [erase wf_pt forms_valid] in *.
    destruct Hwf as (Hlen & Hwl & Hwr). destruct Hfv as (Hf & Hfl & Hfr).
    cbn [tree_to_list]. rewrite dec_all_app.
    cbn [map_inner].
    rewrite <- (app_nil_r (enc_label f m lbl)).
    rewrite load_label_enc by (auto; lia). cbn [bind].
    replace (length (prefix ++ lbl) <? N)%nat with true
      by (symmetry; apply Nat.ltb_lt; rewrite app_length; lia).
    replace (m - (1 + length lbl))%nat with (m - length lbl - 1)%nat by lia.
    specialize (IHl N (m - length lbl - 1)%nat ((prefix ++ lbl) ++ [false]) lc Hwl Hfl).
    specialize (IHr N (m - length lbl - 1)%nat ((prefix ++ lbl) ++ [true]) rc Hwr Hfr).
    rewrite <- !app_assoc in IHl, IHr.
    assert (HL : (length (prefix ++ lbl ++ [false]) + (m - length lbl - 1) = N)%nat)
      by (rewrite !app_length; cbn [length]; lia).
    assert (HR : (length (prefix ++ lbl ++ [true]) + (m - length lbl - 1) = N)%nat)
      by (rewrite !app_length; cbn [length]; lia).
    specialize (IHl HL Hlc). specialize (IHr HR Hrc).
    rewrite <- !app_assoc.
    destruct (dec_all (tree_to_list (prefix ++ lbl ++ [false]) (erase l))) as [la|].
    + rewrite IHl. cbn [bind].
      destruct (dec_all (tree_to_list (prefix ++ lbl ++ [true]) (erase r))) as [ra|].
      * rewrite IHr. reflexivity.
      * destruct IHr as (e & ->). eexists. reflexivity.
    + destruct IHl as (e & ->). eexists. reflexivity.
Qed.

Theorem decode_ctx n (t : apt raw) c :
  wf_pt n (erase t) -> forms_valid t -> cells_of venc_raw n t = Ok c ->
  match dec_all (tree_to_list [] (erase t)) with
  | Some l => decode (vdec ctx) n c = Ok l
  | None => exists e, decode (vdec ctx) n c = Err e
  end.
Proof. intros Hwf Hfv Hc. unfold decode. apply (map_inner_ctx t n n [] c); auto. Qed.

End Ctx.
