(** C11 proofs, part 4: the client model against the specification server
    (Spec/AdnlSpec.v): handshake, client -> server and server -> client packet
    streams, the whole session. *)
From Coq Require Import List NArith Bool Lia Arith.
From Tongo Require Import Lib.Bits Spec.AdnlSpec Model.AdnlT
  Proofs.AdnlTP Proofs.AdnlTP2 Proofs.AdnlTP3.
Import ListNotations.
Local Open Scope N_scope.

Section Agreement.
  Variable H : list N -> list N.
  Variable cstate : Type.
  Variable next : cstate -> N * cstate.
  Variable init : list N -> list N -> cstate.
  Variable dh : list N -> list N -> list N.
  Variable pub : list N -> list N.             (* public key of a private key *)
  Hypothesis H_len : forall x, length (H x) = 32%nat.
  (* Diffie-Hellman agreement and key sizes: facts about X25519 / Ed25519 *)
  Hypothesis dh_agree : forall a b, dh a (pub b) = dh b (pub a).
  Hypothesis dh_len : forall a b, length (dh a b) = 32%nat.
  Hypothesis pub_len : forall a, length (pub a) = 32%nat.

  Notation xor_stream := (xor_stream cstate next).
  Notation ctr := (ctr cstate next).
  Notation stx := (sv_tx cstate).
  Notation srx := (sv_rx cstate).
  Notation spar := (sv_params cstate).

  (* the specification's CTR mode is the model's running XORKeyStream *)
  Lemma ctr_xor_stream d : forall s, ctr s d = xor_stream s d.
  Proof.
    unfold AdnlSpec.ctr. induction d as [|b t IH]; intros s; [reflexivity|].
    cbn [length keystream AdnlT.xor_stream]. destruct (next s) as [k s1].
    specialize (IH s1). destruct (keystream cstate next s1 (length t)) as [ks s2].
    rewrite <- IH. reflexivity.
  Qed.

  (* ---------- handshake ---------- *)

  Theorem handshake_agrees cpriv spriv params :
    length params = 160%nat ->
    server_accept H cstate next init dh spriv (pub spriv)
      (handshake_bytes H cstate next init (pub spriv) params (pub cpriv) (dh cpriv (pub spriv)))
    = Some {| sv_params := params;
              sv_tx := client_rx0 cstate init params;
              sv_rx := client_tx0 cstate init params |}.
  Proof.
    intros Lp. unfold handshake_bytes, hs_key, hs_nonce, server_accept.
    set (hp := H params). set (shared := dh cpriv (pub spriv)).
    set (key := slice 0 16 shared ++ slice 16 32 hp).
    set (iv := slice 0 4 hp ++ slice 20 32 shared).
    destruct (xor_stream (init key iv) params) as [data sd] eqn:X. cbn [fst].
    pose proof (xor_stream_length_eq _ _ _ _ _ _ X) as Ld.
    rewrite (fit_exact 32 (address_hash H (pub spriv)) (H_len _)).
    rewrite (fit_exact 32 (pub cpriv) (pub_len _)).
    rewrite (fit_exact 32 hp (H_len _)).
    rewrite (fit_exact 160 data ltac:(lia)).
    set (A := address_hash H (pub spriv)). set (B := pub cpriv).
    assert (LA : length A = 32%nat) by apply H_len.
    assert (LB : length B = 32%nat) by apply pub_len.
    assert (LC : length hp = 32%nat) by apply H_len.
    assert (Lhs : length (A ++ B ++ hp ++ data) = handshake_len).
    { rewrite !app_length. unfold handshake_len. lia. }
    rewrite Lhs, Nat.eqb_refl.
    rewrite (slice_0 A _ 32 LA).
    unfold A at 1, address_hash, key_id, pub_ed25519_tag. rewrite bytes_eqb_refl. cbn [andb].
    rewrite (slice_skip A _ 32 64 LA). change (64 - 32)%nat with 32%nat.
    rewrite (slice_0 B _ 32 LB).
    replace (A ++ B ++ hp ++ data) with ((A ++ B) ++ hp ++ data) by (rewrite <- app_assoc; reflexivity).
    rewrite (slice_skip (A ++ B) _ 64 96 ltac:(rewrite app_length; lia)).
    change (96 - 64)%nat with 32%nat. rewrite (slice_0 hp _ 32 LC).
    replace ((A ++ B) ++ hp ++ data) with (((A ++ B) ++ hp) ++ data) by (rewrite <- !app_assoc; reflexivity).
    rewrite (slice_skip ((A ++ B) ++ hp) _ 96 256 ltac:(rewrite !app_length; lia)).
    change (256 - 96)%nat with 160%nat. rewrite (slice_0_all data 160 ltac:(lia)).
    unfold B. rewrite (dh_agree spriv cpriv). fold shared. fold key. fold iv.
    rewrite ctr_xor_stream, (xor_stream_invol _ _ _ _ _ _ X). cbn [fst].
    fold hp. rewrite bytes_eqb_refl. reflexivity.
  Qed.

  (* ---------- packet streams ---------- *)

  Lemma send_all_plain msgs : forall s,
    Forall wf_msg msgs ->
    send_all H cstate next s msgs = xor_stream s (frames_plain H msgs).
  Proof.
    induction msgs as [|[n p] t IH]; intros s W; [reflexivity|].
    inversion W as [|m l [Wn Wp] Wt]; subst. cbn [fst snd] in Wn, Wp.
    unfold max_packet_len in Wp.
    cbn [send_all]. unfold send_packet.
    rewrite (marshal_frame H H_len n p Wn ltac:(lia)).
    unfold frames_plain. cbn [map concat fst snd]. fold (frames_plain H t).
    rewrite xor_stream_app. destruct (xor_stream s (frame H n p)) as [c s1].
    rewrite (IH s1 Wt). destruct (xor_stream s1 (frames_plain H t)); reflexivity.
  Qed.

  Lemma server_send_all_plain msgs : forall sv,
    server_send_all H cstate next sv msgs =
    (fst (xor_stream (stx sv) (frames_plain H msgs)),
     {| sv_params := spar sv;
        sv_tx := snd (xor_stream (stx sv) (frames_plain H msgs));
        sv_rx := srx sv |}).
  Proof.
    induction msgs as [|[n p] t IH]; intros sv.
    - cbn. destruct sv; reflexivity.
    - cbn [server_send_all]. unfold server_send. rewrite ctr_xor_stream.
      unfold frames_plain. cbn [map concat fst snd]. fold (frames_plain H t).
      rewrite xor_stream_app. destruct (xor_stream (stx sv) (frame H n p)) as [c s1].
      rewrite IH. cbn [sv_tx sv_params sv_rx].
      destruct (xor_stream s1 (frames_plain H t)); reflexivity.
  Qed.

  (* the specification's splitter on a concatenation of frames *)
  Lemma split_frame_frame n p rest :
    wf_msg (n, p) -> split_frame H (frame H n p ++ rest) = Frame n p rest.
  Proof.
    intros [Wn Wp]. cbn [fst snd] in Wn, Wp. unfold max_packet_len in Wp.
    unfold frame. rewrite <- !app_assoc. unfold split_frame.
    rewrite (take_app_exact (le32 (32 + len p + 32)) _ 4 eq_refl).
    change (0 =? 4) with false. change (negb (0 =? 0)) with false. cbv iota.
    rewrite of_le32_le32 by lia.
    rewrite (proj2 (N.ltb_ge _ frame_min)) by (unfold frame_min; lia).
    rewrite (proj2 (N.ltb_ge frame_max _)) by (unfold frame_max; lia).
    cbn [orb].
    rewrite (take_app_exact n _ 32 ltac:(unfold len; lia)).
    rewrite (take_app_exact p _ (32 + len p + 32 - 64) ltac:(lia)).
    rewrite (take_app_exact (H (n ++ p)) rest 32 ltac:(unfold len; rewrite H_len; reflexivity)).
    change (negb (0 =? 0)) with false. cbv iota. rewrite bytes_eqb_refl. reflexivity.
  Qed.

  Lemma split_frames_plain msgs : forall fuel,
    Forall wf_msg msgs ->
    split_frames H (length msgs + S fuel) (frames_plain H msgs) = (msgs, SDone).
  Proof.
    induction msgs as [|[n p] t IH]; intros fuel W; [reflexivity|].
    inversion W as [|m l Wm Wt]; subst.
    unfold frames_plain. cbn [map concat fst snd length plus split_frames].
    fold (frames_plain H t). rewrite (split_frame_frame n p _ Wm), (IH fuel Wt). reflexivity.
  Qed.

  (* client -> server: the specification server receives exactly the packets *)
  Theorem server_receives sv msgs ct s' :
    Forall wf_msg msgs ->
    send_all H cstate next (srx sv) msgs = (ct, s') ->
    server_recv H cstate next sv ct =
    (msgs, SDone, {| sv_params := spar sv; sv_tx := stx sv; sv_rx := s' |}).
  Proof.
    intros W Hs. rewrite (send_all_plain msgs _ W) in Hs.
    unfold server_recv. rewrite ctr_xor_stream, (xor_stream_invol _ _ _ _ _ _ Hs).
    pose proof (frames_plain_length H msgs) as Lm.
    replace (S (length (frames_plain H msgs)))
      with (length msgs + S (length (frames_plain H msgs) - length msgs))%nat by lia.
    rewrite (split_frames_plain msgs _ W). reflexivity.
  Qed.

  (* server -> client: every segmentation of the server's bytes *)
  Theorem client_receives sv msgs ct sv' segs :
    Forall wf_msg msgs ->
    server_send_all H cstate next sv msgs = (ct, sv') ->
    concat segs = ct ->
    recv_all H cstate next segs (stx sv) = (map snd msgs, PEof).
  Proof.
    intros W Hs C. rewrite server_send_all_plain in Hs. injection Hs as Ect _.
    eapply (recv_all_frames H cstate next H_len msgs segs (stx sv) ct _ W); [|exact C].
    rewrite <- Ect. apply surjective_pairing.
  Qed.

  (* ---------- the whole session ---------- *)

  Theorem session_agrees cpriv spriv params reply s2c c2s sbytes sv' incoming :
    length params = 160%nat ->
    Forall wf_msg (reply :: s2c) -> Forall wf_msg c2s ->
    let spub := pub spriv in
    let hs := handshake_bytes H cstate next init spub params (pub cpriv) (dh cpriv spub) in
    let sv := {| sv_params := params;
                 sv_tx := client_rx0 cstate init params;
                 sv_rx := client_tx0 cstate init params |} in
    server_send_all H cstate next sv (reply :: s2c) = (sbytes, sv') ->
    concat incoming = sbytes ->
    let run := client_session H cstate next init spub params (pub cpriv) (dh cpriv spub) c2s incoming in
    server_accept H cstate next init dh spriv spub (cr_handshake run) = Some sv /\
    cr_connected run = true /\
    cr_delivered run = map snd s2c /\ cr_end run = PEof /\
    fst (fst (server_recv H cstate next sv (cr_sent run))) = c2s /\
    snd (fst (server_recv H cstate next sv (cr_sent run))) = SDone.
  Proof.
    intros Lp Ws Wc spub hs sv Ssend Cin run.
    inversion Ws as [|m l Wr Ws2]; subst m l.
    rewrite server_send_all_plain in Ssend.
    apply (f_equal fst) in Ssend. cbn [fst] in Ssend. rename Ssend into Ect.
    unfold sv in Ect. cbn [AdnlSpec.sv_tx] in Ect.
    unfold frames_plain in Ect. cbn [map concat] in Ect. fold (frames_plain H s2c) in Ect.
    destruct (xor_stream (client_rx0 cstate init params)
                (frame H (fst reply) (snd reply) ++ frames_plain H s2c)) as [ct sfin] eqn:X.
    cbn [fst] in Ect. subst sbytes.
    apply xor_stream_split in X. destruct X as [c1 [c2 [s1 [-> [X1 X2]]]]].
    destruct reply as [rn rp]. cbn [fst snd] in X1.
    destruct (parse_frame_ok H cstate next H_len incoming (client_rx0 cstate init params)
                rn rp c1 s1 c2 Wr X1 Cin) as [r1 [C1 P]].
    pose proof (recv_all_frames H cstate next H_len s2c r1 s1 c2 sfin Ws2 X2 C1) as R.
    destruct (send_all H cstate next (client_tx0 cstate init params) c2s) as [sent stx] eqn:Sd.
    assert (Erun : run = {| cr_handshake := hs; cr_sent := sent; cr_connected := true;
                            cr_delivered := map snd s2c; cr_end := PEof |}).
    { unfold run, client_session. fold hs. rewrite P, Sd, R. reflexivity. }
    rewrite Erun. cbn [cr_handshake cr_sent cr_connected cr_delivered cr_end].
    split; [apply handshake_agrees; exact Lp|].
    rewrite (server_receives sv c2s sent stx Wc Sd). cbn [fst snd]. auto.
  Qed.
End Agreement.
