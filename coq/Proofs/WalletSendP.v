(** C15: the address is the hash of the initial state, is injective in the
    resolved parameters (under hash injectivity), NextMessageParams, the
    confirmation loop over all histories, destination = the wallet itself. *)
From Coq Require Import List NArith ZArith Arith Bool Lia.
From Tongo Require Import Lib.Bits Lib.Res Model.BocParse Model.CellHash Spec.ReprHash Model.Wallet
  Model.WalletSend Proofs.WalletP Proofs.WalletSigP Proofs.WalletHlP.
Import ListNotations.

(** *** small facts *)
Lemma app_inj_len {A} (a a' b b' : list A) :
  length a = length a' -> a ++ b = a' ++ b' -> a = a' /\ b = b'.
Proof.
  revert a'. induction a as [|x a IH]; intros [|x' a'] Hl H; cbn [length] in Hl; try discriminate.
  - auto.
  - cbn [app] in H. injection H as -> H. injection Hl as Hl. destruct (IH a' Hl H) as (-> & ->). auto.
Qed.

Lemma ok_inj {A} (a b : A) : @Ok A a = Ok b -> a = b.
Proof. intros H. injection H. auto. Qed.

Lemma u32_inj a b : u32 a = u32 b -> (a mod 4294967296 = b mod 4294967296)%N.
Proof. intros H. rewrite <- !N_u32_mod, H. reflexivity. Qed.

Lemma u32_mod_eq a b : (a mod 4294967296 = b mod 4294967296)%N -> u32 a = u32 b.
Proof.
  intros H. unfold u32. rewrite <- (bits_of_mod 32 a), <- (bits_of_mod 32 b).
  change (2 ^ N.of_nat 32)%N with 4294967296%N. rewrite H. reflexivity.
Qed.

Lemma u8_inj a b : (a < 256)%N -> (b < 256)%N -> u8 a = u8 b -> a = b.
Proof. intros Ha Hb H. rewrite <- (N_u8 a Ha), <- (N_u8 b Hb), H. reflexivity. Qed.

Lemma new_wallet_ver pk v o w : new_wallet pk v o = Ok w -> w_ver w = v /\ w_pk w = pk.
Proof.
  unfold new_wallet. destruct v; intros H; try discriminate H;
    apply (f_equal (fun r => match r with Ok x => (w_ver x, w_pk x) | _ => (w_ver w, w_pk w) end)) in H;
    cbn [w_ver w_pk] in H; injection H as <- <-; auto.
Qed.

Lemma pk_bits_len w : length (pk_bits w) = 256%nat.
Proof. apply fit_len. Qed.

Lemma mod256_bound z : (Z.to_N (z mod 256) < 256)%N.
Proof.
  assert (H := Z.mod_pos_bound z 256 ltac:(lia)). change 256%N with (Z.to_N 256). apply Z2N.inj_lt; lia.
Qed.

Lemma int32_of_mod256 z : (int32_of z mod 256 = z mod 256)%Z.
Proof.
  unfold int32_of.
  pose proof (Z.div_mod (z + 2147483648) 4294967296 ltac:(lia)) as D.
  replace ((z + 2147483648) mod 4294967296 - 2147483648)%Z
    with (z + (- ((z + 2147483648) / 4294967296) * 16777216) * 256)%Z by lia.
  apply Z.mod_add. lia.
Qed.

Lemma int8_of_int32 z : int8_of (int32_of z) = int8_of z.
Proof.
  unfold int8_of. f_equal. rewrite Z.add_mod, int32_of_mod256, <- Z.add_mod by lia. reflexivity.
Qed.

Definition has_data (v : version) : Prop :=
  match v with V3R2Lockup | HLV1R1 | HLV1R2 | HLV2 | HLV2R1 => False | _ => True end.

Lemma data_bits_ok w : has_data (w_ver w) -> exists b, data_bits w = Ok b /\ (length b <= 1023)%nat.
Proof.
  unfold data_bits, has_data. destruct (w_ver w); intros H; try contradiction; eexists; (split; [reflexivity|]);
    rewrite ?app_length, ?bits_of_length, ?u32_len, ?u8_len, ?u64_len, ?pk_bits_len; cbn [length]; lia.
Qed.

Section S.
Variable code : version -> cell.
Variable chash : cell -> res bytes.

(** *** address = (workchain, hash of the state-init cell) *)
Theorem address_is_hash w a :
  address code chash w = Ok a ->
  exists db, data_bits w = Ok db /\
    a = (int32_of (w_wc w), snd a) /\
    chash (ocell stateinit_bits [code (w_ver w); ocell db []]) = Ok (snd a).
Proof.
  unfold address, state_init, data_cell. intros H.
  apply bind_ok in H. destruct H as (si & Hsi & H).
  apply bind_ok in Hsi. destruct Hsi as (d & Hd & Hsi).
  apply bind_ok in Hd. destruct Hd as (db & Hdb & Hd).
  apply mk_ok in Hd. destruct Hd as (-> & _). apply mk_ok in Hsi. destruct Hsi as (-> & _).
  apply bind_ok in H. destruct H as (h & Hh & H). injection H as <-.
  exists db. cbn [snd]. auto.
Qed.

(* the three APIs are the same function of the same resolved wallet *)
Theorem apis_agree pk v net wc sub :
  api_generate_address code chash pk v net wc sub = api_new code chash pk v (mkopt (Some wc) sub net) /\
  api_new code chash pk v (mkopt None sub net) = api_generate_address code chash pk v net 0 sub /\
  (forall w, new_wallet pk v (mkopt (Some wc) sub net) = Ok w ->
     api_generate_state_init code pk v net wc sub = state_init code w /\
     api_generate_address code chash pk v net wc sub =
       (do si <- state_init code w; do h <- chash si; Ok (int32_of (w_wc w), h))).
Proof.
  split; [reflexivity|]. split.
  - unfold api_new, api_generate_address, new_wallet. destruct v; reflexivity.
  - intros w Hw. unfold api_generate_state_init, api_generate_address. rewrite Hw. split; reflexivity.
Qed.

(** *** injectivity *)
(* what enters the initial data besides the key, as resolved by newWallet *)
Definition id_fields (w : wallet) : list N :=
  match w_ver w with
  | V3R1 | V3R2 | V4R1 | V4R2 | HLV2R2 => [w_sub w mod 4294967296]
  | V5Beta => [w_net w mod 4294967296; Z.to_N (w_wc w mod 256); w_sub w mod 4294967296]
  | V5R1 => [w_wid w mod 4294967296]
  | _ => []
  end%N.

Definition hash_injective_on (P : cell -> Prop) : Prop :=
  forall c1 c2 h, P c1 -> P c2 -> chash c1 = Ok h -> chash c2 = Ok h -> c1 = c2.
Definition is_state_init (c : cell) : Prop := exists w, state_init code w = Ok c.
Definition codes_distinct : Prop :=
  forall v1 v2, has_data v1 -> has_data v2 -> code v1 = code v2 -> v1 = v2.

Lemma data_bits_inj w1 w2 b :
  w_ver w1 = w_ver w2 -> data_bits w1 = Ok b -> data_bits w2 = Ok b ->
  pk_bits w1 = pk_bits w2 /\ id_fields w1 = id_fields w2.
Proof.
  unfold data_bits, id_fields. intros Ev. rewrite <- Ev.
  pose proof (pk_bits_len w1) as L1. pose proof (pk_bits_len w2) as L2.
  destruct (w_ver w1); intros H1 H2; try (exfalso; discriminate H1).
  all: apply ok_inj in H1; apply ok_inj in H2; rewrite <- H1 in H2; clear H1; rename H2 into E; symmetry in E.
  all: repeat match type of E with
       | u32 ?a ++ _ = u32 ?b ++ _ =>
           apply app_inj_len in E; [|rewrite !u32_len; reflexivity];
           let E1 := fresh "E" in destruct E as (E1 & E); apply u32_inj in E1
       | u64 ?a ++ _ = u64 ?b ++ _ =>
           apply app_inj_len in E; [|rewrite !u64_len; reflexivity]; destruct E as (_ & E)
       | u8 ?a ++ _ = u8 ?b ++ _ =>
           apply app_inj_len in E; [|rewrite !u8_len; reflexivity];
           let E1 := fresh "E" in destruct E as (E1 & E)
       | bits_of 33 _ ++ _ = bits_of 33 _ ++ _ =>
           apply app_inj_len in E; [|rewrite !bits_of_length; reflexivity]; destruct E as (_ & E)
       | [true] ++ _ = [true] ++ _ => apply app_inj_len in E; [|reflexivity]; destruct E as (_ & E)
       | pk_bits _ ++ _ = pk_bits _ ++ _ =>
           apply app_inj_len in E; [|rewrite L1, L2; reflexivity];
           let E1 := fresh "E" in destruct E as (E1 & E)
       end.
  all: try (split; [assumption || (symmetry; assumption)|]).
  all: try (split; [symmetry; assumption|]).
  all: try reflexivity.
  all: try (f_equal; congruence).
  - (* v5 beta *)
    apply u8_inj in E1; try apply mod256_bound. rewrite E0, E1, E3. reflexivity.
Qed.

Theorem address_injective w1 w2 a :
  hash_injective_on is_state_init -> codes_distinct ->
  has_data (w_ver w1) -> has_data (w_ver w2) ->
  address code chash w1 = Ok a -> address code chash w2 = Ok a ->
  w_ver w1 = w_ver w2 /\ pk_bits w1 = pk_bits w2 /\ int32_of (w_wc w1) = int32_of (w_wc w2) /\
  id_fields w1 = id_fields w2.
Proof.
  intros Hinj Hcd Hd1 Hd2 H1 H2. unfold address in H1, H2.
  apply bind_ok in H1. destruct H1 as (s1 & Hs1 & H1). apply bind_ok in H1. destruct H1 as (h1 & Hh1 & H1).
  apply bind_ok in H2. destruct H2 as (s2 & Hs2 & H2). apply bind_ok in H2. destruct H2 as (h2 & Hh2 & H2).
  injection H1 as <-. injection H2 as E32 <-.
  assert (Es : s1 = s2).
  { eapply Hinj; [exists w1; exact Hs1|exists w2; exact Hs2|exact Hh1|exact Hh2]. }
  subst s2. unfold state_init, data_cell in Hs1, Hs2.
  apply bind_ok in Hs1. destruct Hs1 as (d1 & Hd1' & Hs1). apply bind_ok in Hd1'. destruct Hd1' as (b1 & Hb1 & Hd1').
  apply bind_ok in Hs2. destruct Hs2 as (d2 & Hd2' & Hs2). apply bind_ok in Hd2'. destruct Hd2' as (b2 & Hb2 & Hd2').
  apply mk_ok in Hd1'. destruct Hd1' as (-> & _). apply mk_ok in Hd2'. destruct Hd2' as (-> & _).
  apply mk_ok in Hs1. destruct Hs1 as (-> & _). apply mk_ok in Hs2. destruct Hs2 as (E & _).
  unfold ocell in E. injection E as Ec Eb. subst b2.
  pose proof (Hcd _ _ Hd1 Hd2 Ec) as Ev.
  destruct (data_bits_inj w1 w2 b1 Ev Hb1 Hb2) as (Epk & Eid). auto.
Qed.

(* conversely equal resolved parameters give equal addresses, so the address
   differs exactly when version, key, int32 workchain or an id field differs *)
Theorem address_complete w1 w2 :
  w_ver w1 = w_ver w2 -> pk_bits w1 = pk_bits w2 -> int32_of (w_wc w1) = int32_of (w_wc w2) ->
  id_fields w1 = id_fields w2 ->
  address code chash w1 = address code chash w2.
Proof.
  intros Ev Epk Ewc Eid.
  assert (Eb : data_bits w1 = data_bits w2).
  { unfold data_bits, id_fields in *. rewrite <- Ev in *. rewrite Epk.
    destruct (w_ver w1); try reflexivity.
    all: inversion Eid; clear Eid.
    all: repeat match goal with
                | E : (?a mod 4294967296 = ?b mod 4294967296)%N |- _ => rewrite (u32_mod_eq a b E); clear E
                | E : Z.to_N _ = Z.to_N _ |- _ => rewrite E; clear E
                end.
    all: reflexivity. }
  unfold address, state_init, data_cell. rewrite Eb, Ev, Ewc. reflexivity.
Qed.

End S.

(** *** how the options resolve (the caveats) *)
(* v3, v4, highload: explicit sub-wallet id, else 698983191 + workchain as uint32 *)
Theorem resolved_subwallet pk v o w :
  v = V3R1 \/ v = V3R2 \/ v = V4R1 \/ v = V4R2 \/ v = HLV2R2 ->
  new_wallet pk v o = Ok w ->
  w_sub w = match o_sub o with
            | Some s => s
            | None => to_u32 (default_subwallet + opt_or (o_wc o) 0%Z)
            end.
Proof.
  intros Hv H.
  assert (E : w_sub w = match new_wallet pk v o with Ok x => w_sub x | _ => 0%N end) by (rewrite H; reflexivity).
  rewrite E. unfold new_wallet. destruct Hv as [->|[->|[->|[->| ->]]]]; cbn [w_sub opt_or];
    destruct (o_sub o); reflexivity.
Qed.

(* hence leaving the id out and passing the default explicitly is the same wallet *)
Theorem default_subwallet_same_wallet pk v wc net :
  v = V3R1 \/ v = V3R2 \/ v = V4R1 \/ v = V4R2 \/ v = HLV2R2 ->
  new_wallet pk v (mkopt wc None net) =
  new_wallet pk v (mkopt wc (Some (to_u32 (default_subwallet + opt_or wc 0%Z))) net).
Proof. intros [->|[->|[->|[->| ->]]]]; reflexivity. Qed.

(* v5r1: wallet id = (1 | workchain:8 | 0:23) xor uint32(network id) *)
Theorem v5r1_wallet_id pk o w :
  new_wallet pk V5R1 o = Ok w ->
  w_wid w = N.lxor (2147483648 + Z.to_N (opt_or (o_wc o) 0 mod 256)%Z * 8388608)%N
                   (to_u32 (opt_or (o_net o) mainnet_global_id)).
Proof.
  intros H.
  assert (E : w_wid w = match new_wallet pk V5R1 o with Ok x => w_wid x | _ => 0%N end) by (rewrite H; reflexivity).
  rewrite E. unfold new_wallet. cbn [w_wid]. f_equal.
  unfold context_id. set (b := Z.to_N (opt_or (o_wc o) 0 mod 256)%Z).
  rewrite !N_of_bits_app, !N_of_bits_zeros, N_u8 by apply mod256_bound.
  rewrite !app_length, u8_len. unfold zeros. rewrite !repeat_length.
  change (N_of_bits [true]) with 1%N.
  change (2 ^ N.of_nat (8 + (8 + 15)))%N with 2147483648%N.
  change (2 ^ N.of_nat (8 + 15))%N with 8388608%N. lia.
Qed.

(* for one workchain byte the wallet id determines the network id and back; across
   workchain bytes two (workchain, network) pairs can share a wallet id — their
   addresses still differ in the workchain *)
Theorem v5r1_network_id_injective ctx n1 n2 : N.lxor ctx n1 = N.lxor ctx n2 -> n1 = n2.
Proof.
  intros H. apply (f_equal (N.lxor ctx)) in H.
  rewrite <- !N.lxor_assoc, !N.lxor_nilpotent, !N.lxor_0_l in H. exact H.
Qed.

(** *** NextMessageParams *)
Definition seq_version (v : version) : Prop :=
  v = V3R1 \/ v = V3R2 \/ v = V4R1 \/ v = V4R2 \/ v = V5Beta \/ v = V5R1.

Theorem next_params_spec code w st :
  seq_version (w_ver w) ->
  next_params code w st =
    match st with
    | AActive d => do s <- seqno_of_data (w_ver w) d; Ok (s, None)
    | _ => do si <- state_init code w; Ok (0%N, Some si)
    end.
Proof. intros [E|[E|[E|[E|[E|E]]]]]; unfold next_params; rewrite E; destruct st; reflexivity. Qed.

(* highload: no seqno; the state-init only for an account that does not exist
   or is uninitialised *)
Theorem next_params_highload code w st :
  w_ver w = HLV2R2 ->
  next_params code w st =
    match st with
    | ANone | AUninit => do si <- state_init code w; Ok (0%N, Some si)
    | _ => Ok (0%N, None)
    end.
Proof. intros E. unfold next_params. rewrite E. reflexivity. Qed.

(* the decoders on all well-formed data of a version: Proofs/WalletDataP.v *)

(** *** the confirmation loop over all histories *)
Theorem confirm_iff wait sent h :
  confirm wait sent h = true <->
  exists i t s, nth_error h i = Some (t, Some s) /\ (sent < s)%N /\
                forall j tj aj, (j <= i)%nat -> nth_error h j = Some (tj, aj) -> (tj < wait)%Z.
Proof.
  induction h as [|[t a] rest IH]; cbn [confirm].
  - split; [discriminate|]. intros (i & t & s & H & _). destruct i; discriminate.
  - destruct (t <? wait)%Z eqn:Et.
    + apply Z.ltb_lt in Et.
      assert (Step : confirm wait sent rest = true <->
                     exists i t0 s, nth_error ((t, a) :: rest) (S i) = Some (t0, Some s) /\ (sent < s)%N /\
                       forall j tj aj, (j <= S i)%nat -> nth_error ((t, a) :: rest) j = Some (tj, aj) -> (tj < wait)%Z).
      { rewrite IH. split; intros (i & t0 & s & Hn & Hs & Hall); exists i, t0, s; (split; [exact Hn|]); (split; [exact Hs|]).
        - intros [|j] tj aj Hj Hnj; [cbn in Hnj; injection Hnj as <- <-; exact Et|].
          apply (Hall j tj aj); [lia|exact Hnj].
        - intros j tj aj Hj Hnj. apply (Hall (S j) tj aj); [lia|exact Hnj]. }
      assert (Tail : (exists i t0 s, nth_error ((t, a) :: rest) i = Some (t0, Some s) /\ (sent < s)%N /\
                        forall j tj aj, (j <= i)%nat -> nth_error ((t, a) :: rest) j = Some (tj, aj) -> (tj < wait)%Z) ->
                     (exists s, a = Some s /\ (sent < s)%N) \/ confirm wait sent rest = true).
      { intros (i & t0 & s & Hn & Hs & Hall). destruct i as [|i].
        - cbn in Hn. injection Hn as <- ->. left. eauto.
        - right. apply Step. eauto 10. }
      destruct a as [s|].
      * destruct (sent <? s)%N eqn:Es.
        -- apply N.ltb_lt in Es. split; [|reflexivity]. intros _. exists 0%nat, t, s.
           split; [reflexivity|]. split; [exact Es|]. intros [|j] tj aj Hj Hnj; [|lia].
           cbn in Hnj. injection Hnj as <- <-. exact Et.
        -- apply N.ltb_ge in Es. split.
           ++ intros H. apply Step in H. destruct H as (i & t0 & s0 & H). exists (S i), t0, s0. exact H.
           ++ intros H. destruct (Tail H) as [(s0 & [= <-] & Hlt)|Hc]; [lia|exact Hc].
      * split.
        -- intros H. apply Step in H. destruct H as (i & t0 & s0 & H). exists (S i), t0, s0. exact H.
        -- intros H. destruct (Tail H) as [(s0 & Hd & _)|Hc]; [discriminate|exact Hc].
    + apply Z.ltb_ge in Et. split; [discriminate|]. intros (i & t0 & s & Hn & Hs & Hall).
      specialize (Hall 0%nat t a ltac:(lia) eq_refl). lia.
Qed.

(* with a clock that never goes back: some poll before the deadline reports a
   seqno greater than the sent one *)
Definition clock_monotone (h : list poll) : Prop :=
  forall i j ti ai tj aj, (i <= j)%nat -> nth_error h i = Some (ti, ai) -> nth_error h j = Some (tj, aj) -> (ti <= tj)%Z.

Theorem confirm_monotone wait sent h :
  clock_monotone h ->
  (confirm wait sent h = true <->
   exists i t s, nth_error h i = Some (t, Some s) /\ (sent < s)%N /\ (t < wait)%Z).
Proof.
  intros Hm. rewrite confirm_iff. split; intros (i & t & s & Hn & Hs & H); exists i, t, s;
    (split; [exact Hn|]); (split; [exact Hs|]).
  - apply (H i t (Some s)); [lia|exact Hn].
  - intros j tj aj Hj Hnj. pose proof (Hm j i tj aj t (Some s) Hj Hnj Hn). lia.
Qed.

(* the loop is over at the first reading at or past the deadline: later answers
   cannot change the result *)
Lemma confirm_stops wait sent h : forall i t a,
  nth_error h i = Some (t, a) -> (wait <= t)%Z -> confirm wait sent h = confirm wait sent (firstn i h).
Proof.
  induction h as [|[t0 a0] rest IH]; intros i t a Hn Ht; [destruct i; discriminate|].
  destruct i as [|i].
  - cbn in Hn. injection Hn as -> ->. cbn [firstn confirm].
    replace (t <? wait)%Z with false by (symmetry; apply Z.ltb_ge; lia). reflexivity.
  - cbn [nth_error] in Hn. cbn [firstn confirm]. rewrite (IH i t a Hn Ht). reflexivity.
Qed.

(* logical clock in ticks: every iteration sleeps at least [step] (= wait/10 in
   RawSendV2), so the reading before poll i is at least i*step.  Then only the
   first n polls with n*step >= wait can matter: the send returns after at most
   n polls (10 when the deadline is a multiple of 10 clock units). *)
Definition ticks (step : Z) (h : list poll) : Prop :=
  forall i t a, nth_error h i = Some (t, a) -> (Z.of_nat i * step <= t)%Z.

Theorem confirm_poll_bound wait sent h step n :
  ticks step h -> (wait <= Z.of_nat n * step)%Z ->
  confirm wait sent h = confirm wait sent (firstn n h).
Proof.
  intros Hk Hn. destruct (nth_error h n) as [[t a]|] eqn:E.
  - apply (confirm_stops wait sent h n t a E). specialize (Hk n t a E). lia.
  - apply nth_error_None in E. rewrite firstn_all2 by exact E. reflexivity.
Qed.

Corollary confirm_ten_polls wait sent h :
  ticks (wait / 10) h -> (wait mod 10 = 0)%Z ->
  confirm wait sent h = confirm wait sent (firstn 10 h).
Proof.
  intros Hk Hm. apply (confirm_poll_bound wait sent h (wait / 10) 10 Hk).
  pose proof (Z.div_mod wait 10 ltac:(lia)). change (Z.of_nat 10) with 10%Z. lia.
Qed.

(** *** the account record is read from the CURRENT poll only: whatever earlier
    polls left in the reused variable, Status() and NextMessageParams answer for
    the record decoded last *)
Lemma var_status_current v rec : var_status (decode_into v rec) = Ok rec.
Proof. destruct rec; reflexivity. Qed.

Theorem next_params_polled code w v0 recs rec :
  next_params_var code w (fold_left decode_into (recs ++ [rec]) v0) = next_params code w rec.
Proof.
  rewrite fold_left_app. cbn [fold_left]. unfold next_params_var. rewrite var_status_current. reflexivity.
Qed.

(** *** history independence: whatever was called before on the same Wallet
    object, and whatever the caller did to the values it got back, every answer
    is the answer of a fresh wallet with the same parameters *)
Theorem history_independent code chash w ops :
  run_history code chash w ops = map (fresh_answer code chash w) ops.
Proof.
  unfold run_history. induction ops as [|op t IH]; [reflexivity|].
  cbn [run_design map library_design d_step fst snd]. f_equal. exact IH.
Qed.

Corollary history_prefix_irrelevant code chash w pre op :
  nth_error (run_history code chash w (pre ++ [op])) (length pre) = Some (fresh_answer code chash w op).
Proof.
  rewrite history_independent, map_app, nth_error_app2 by (rewrite map_length; lia).
  rewrite map_length, Nat.sub_diag. reflexivity.
Qed.

Section Conf.
Variable code : version -> cell.
Variable chash : cell -> res bytes.
Variable SK : Type.
Variable sign : SK -> bytes -> bits.

(* RawSendV2 once the message is built *)
Theorem raw_send_v2_spec w sk wc addr seqno valid ms init rnd wait send_err hist hh e :
  raw_send_msg SK chash sign w sk wc addr seqno valid ms init rnd = Ok (hh, e) ->
  raw_send_v2 chash SK sign w sk wc addr seqno valid ms init rnd wait send_err hist =
    (Some e,
     if send_err then Err EChain
     else if (wait =? 0)%Z then Ok hh
     else match w_ver w with
          | HLV2R2 => Err EWallet
          | _ => if confirm wait seqno hist then Ok hh else Err ETimeout
          end).
Proof.
  intros H. unfold raw_send_v2. rewrite H. destruct send_err; [reflexivity|].
  destruct (wait =? 0)%Z; [reflexivity|]. destruct (w_ver w); destruct (confirm wait seqno hist); reflexivity.
Qed.

(* nothing is sent when the message cannot be built (too many messages, ...) *)
Theorem raw_send_v2_refused w sk wc addr seqno valid ms init rnd wait send_err hist x :
  raw_send_msg SK chash sign w sk wc addr seqno valid ms init rnd = Err x ->
  raw_send_v2 chash SK sign w sk wc addr seqno valid ms init rnd wait send_err hist = (None, Err x).
Proof. intros H. unfold raw_send_v2. rewrite H. reflexivity. Qed.

Hypothesis hash_len : forall c h, chash c = Ok h -> length h = 32%nat.

Lemma bytes_to_bits_len l : length (bytes_to_bits l) = (8 * length l)%nat.
Proof.
  induction l as [|x t IH]; [reflexivity|]. cbn [bytes_to_bits flat_map length].
  rewrite app_length, bits_of_length. fold (bytes_to_bits t). lia.
Qed.

(* SendV2: whatever reaches SendMessage is addressed to the wallet itself,
   carries the seqno and the state-init NextMessageParams chose, and the
   outcome follows raw_send_v2_spec *)
Theorem send_v2_spec w sk a ms valid rnd wait send_err hist e r :
  send_v2 code chash SK sign w sk (Some a) ms valid rnd wait send_err hist = (Some e, r) ->
  exists seqno init wc h hh body,
    next_params code w a = Ok (seqno, init) /\ address code chash w = Ok (wc, h) /\
    raw_send_msg SK chash sign w sk wc (bytes_to_bits h) seqno valid ms init rnd = Ok (hh, e) /\
    create_body SK chash sign w sk ms seqno valid op_signed_external rnd = Ok body /\
    (init_ok chash init ->
     parse_ext chash e = Ok (mkext (ext_in_std (w_wc w) (bytes_to_bits h)) init body)) /\
    r = (if send_err then Err EChain
         else if (wait =? 0)%Z then Ok hh
         else match w_ver w with
              | HLV2R2 => Err EWallet
              | _ => if confirm wait seqno hist then Ok hh else Err ETimeout
              end).
Proof.
  unfold send_v2. intros H.
  destruct (next_params code w a) as [[seqno init]|x|p] eqn:En;
    destruct (address code chash w) as [[wc h]|x'|p'] eqn:Ea; try discriminate.
  destruct (raw_send_msg SK chash sign w sk wc (bytes_to_bits h) seqno valid ms init rnd) as [[hh e']|x|p] eqn:Er.
  - rewrite (raw_send_v2_spec _ _ _ _ _ _ _ _ _ _ _ _ _ _ Er) in H. injection H as <- <-.
    assert (Hl : length (bytes_to_bits h) = 256%nat).
    { rewrite bytes_to_bits_len. unfold address in Ea.
      apply bind_ok in Ea. destruct Ea as (si & _ & Ea). apply bind_ok in Ea. destruct Ea as (h' & Hh & Ea).
      injection Ea as _ <-. rewrite (hash_len _ _ Hh). reflexivity. }
    assert (Ewc : wc = int32_of (w_wc w)).
    { unfold address in Ea. apply bind_ok in Ea. destruct Ea as (si & _ & Ea).
      apply bind_ok in Ea. destruct Ea as (h' & _ & Ea). injection Ea as <- _. reflexivity. }
    exists seqno, init, wc, h, hh.
    assert (Hb : exists body, create_body SK chash sign w sk ms seqno valid op_signed_external rnd = Ok body /\
                  (init_ok chash init -> parse_ext chash e' =
                     Ok (mkext (ext_in_std (w_wc w) (bytes_to_bits h)) init body))).
    { unfold raw_send_msg in Er. destruct (max_messages (w_ver w) <? length ms)%nat; [discriminate|].
      apply bind_ok in Er. destruct Er as (body & Hb & Er). exists body. split; [exact Hb|]. intros Hi.
      apply bind_ok in Er. destruct Er as (e2 & He & Er). apply bind_ok in Er. destruct Er as (h2 & Hh2 & Er).
      injection Er as <- <-.
      rewrite (parse_ext_msg chash wc (bytes_to_bits h) init body e2 h2 Hl Hi He Hh2).
      rewrite Ewc. unfold ext_in_std. rewrite int8_of_int32.
      destruct (create_body_shape SK chash sign _ _ _ _ _ _ _ _ Hb) as (u & hu & _ & _ & _ & -> & _).
      destruct (sig_appended (w_ver w)); reflexivity. }
    destruct Hb as (body & Hb & Hp). exists body. auto 10.
  - unfold raw_send_v2 in H. rewrite Er in H. discriminate.
  - unfold raw_send_v2 in H. rewrite Er in H. discriminate.
Qed.

(* the wallet's own state-init is a decodable StateInit *)
Lemma own_state_init_ok w si : state_init code w = Ok si -> stateinit_ok si = Ok tt.
Proof.
  unfold state_init. intros H. apply bind_ok in H. destruct H as (d & _ & H). apply mk_ok in H. destruct H as (-> & _).
  reflexivity.
Qed.

Lemma next_params_init_ok w a seqno init : next_params code w a = Ok (seqno, init) -> init_ok chash init.
Proof.
  unfold next_params. intros H.
  assert (G : forall r, (do si <- state_init code w; Ok (0%N, Some si)) = Ok r -> init_ok chash (snd r)).
  { intros r Hr. apply bind_ok in Hr. destruct Hr as (si & Hsi & Hr). injection Hr as <-. cbn [snd init_ok].
    exact (own_state_init_ok w si Hsi). }
  assert (G2 : forall v d r, (do s <- seqno_of_data v d; Ok (s, @None cell)) = Ok r -> init_ok chash (snd r)).
  { intros v d r Hr. apply bind_ok in Hr. destruct Hr as (s & _ & Hr). injection Hr as <-. exact I. }
  destruct (w_ver w); try discriminate; destruct a; try (apply (G _ H)); try (apply (G2 _ _ _ H));
    injection H as <- <-; exact I.
Qed.

(* SendV2 / Send with the clock: what is sent carries expiry = now + the wallet's
   configured lifetime (the same value CreateMessageBody takes by default), the
   requested messages and, for seqno-bearing versions, the account's seqno *)
Theorem api_send_v2_expiry w sk life now a ms rnd wait send_err hist e r :
  (forall sk m, length (sign sk m) = 512%nat) ->
  modes_ok ms -> sendable (w_ver w) ->
  (forall seqno init, next_params code w a = Ok (seqno, init) -> (seqno < 4294967296)%N) ->
  api_send_v2 code chash SK sign w sk life now (Some a) ms rnd wait send_err hist = (Some e, r) ->
  exists d, decode_msg chash (w_ver w) e = Ok d /\ extract_raw chash (w_ver w) e = Ok ms /\
            d_valid d = unix32 (expiry now life).
Proof.
  intros Hsl Hm Hs Hq H. unfold api_send_v2 in H.
  destruct (send_v2_spec _ _ _ _ _ _ _ _ _ _ _ H) as (seqno & init & wc & h & hh & body & Hn & Ha & Hr & _).
  assert (Hl : length (bytes_to_bits h) = 256%nat).
  { rewrite bytes_to_bits_len. unfold address in Ha.
    apply bind_ok in Ha. destruct Ha as (si & _ & Ha). apply bind_ok in Ha. destruct Ha as (h' & Hh & Ha).
    injection Ha as _ <-. rewrite (hash_len _ _ Hh). reflexivity. }
  destruct (WalletHlP.extract_roundtrip SK chash sign Hsl _ _ _ _ _ _ _ _ _ _ _ Hm Hl
              (next_params_init_ok _ _ _ _ Hn) Hs (Hq _ _ Hn) Hr) as (d & Hd & He & _ & _ & Hv & _).
  exists d. auto.
Qed.

(* nothing is sent when the account state cannot be fetched *)
Theorem send_v2_state_error w sk ms valid rnd wait send_err hist :
  send_v2 code chash SK sign w sk None ms valid rnd wait send_err hist = (None, Err EChain).
Proof. reflexivity. Qed.

End Conf.
