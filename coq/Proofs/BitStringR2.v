(** C06, read side continued: bytes, bit strings, big integers, unary, and the
    decode-inverts-encode facts used by the sequence theorem. *)
From Coq Require Import List NArith ZArith Arith Lia Bool.
From Tongo Require Import Lib.Bits Lib.Res Model.BitString Proofs.BitStringW Proofs.BitStringR.
Import ListNotations.

(** **** two's complement: decode inverts encode *)
Lemma testbit_top n k :
  (n < 2 ^ N.of_nat (S k))%N -> N.testbit n (N.of_nat k) = (2 ^ N.of_nat k <=? n)%N.
Proof.
  intros Hn. rewrite Nat2N.inj_succ, N.pow_succ_r' in Hn.
  pose proof (pow2_pos (N.of_nat k)) as Hp.
  set (P := (2 ^ N.of_nat k)%N) in *.
  destruct (N.leb_spec P n) as [Hge|Hlt].
  - apply N.testbit_true. fold P.
    assert (n / P = 1)%N as ->; [|reflexivity].
    symmetry. apply (N.div_unique n P 1 (n - P)); lia.
  - apply N.testbit_false. fold P. rewrite N.div_small by lia. reflexivity.
Qed.

Theorem dec_enc_int v w :
  (1 <= w)%nat -> int_fits v w -> dec_int (enc_int v w) = v.
Proof.
  intros Hw Hfit. unfold int_fits in Hfit. destruct w as [|k]; [lia|].
  replace (Z.of_nat (S k) - 1)%Z with (Z.of_nat k) in Hfit by lia.
  unfold enc_int.
  assert (Hpk : (0 < 2 ^ Z.of_nat k)%Z) by (apply Z.pow_pos_nonneg; lia).
  assert (Hp2 : (2 ^ Z.of_nat (S k) = 2 * 2 ^ Z.of_nat k)%Z).
  { rewrite Nat2Z.inj_succ, Z.pow_succ_r by lia. reflexivity. }
  set (n := Z.to_N (v mod 2 ^ Z.of_nat (S k))).
  assert (HPN : Z.of_N (2 ^ N.of_nat k) = (2 ^ Z.of_nat k)%Z)
    by (rewrite N2Z.inj_pow, nat_N_Z; reflexivity).
  assert (Hn : (n < 2 ^ N.of_nat (S k))%N).
  { apply N2Z.inj_lt. unfold n. rewrite Z2N.id by (apply Z.mod_pos_bound; lia).
    rewrite N2Z.inj_pow, nat_N_Z. apply Z.mod_pos_bound. lia. }
  rewrite (bits_of_S_split k n Hn), (testbit_top n k Hn).
  cbn [dec_int]. rewrite bits_of_length, N_of_bits_bits_of.
  pose proof (pow2_pos (N.of_nat k)) as HpN.
  set (P := (2 ^ N.of_nat k)%N) in *.
  rewrite <- HPN in *.
  destruct (Z.ltb_spec v 0) as [Hneg|Hpos].
  - assert (HnZ : Z.of_N n = (v + 2 * Z.of_N P)%Z).
    { unfold n. rewrite Z2N.id by (apply Z.mod_pos_bound; lia).
      rewrite Hp2. symmetry. apply Z.mod_unique with (q := (-1)%Z); lia. }
    destruct (N.leb_spec P n); [|lia].
    assert (n mod P = n - P)%N as ->.
    { symmetry. apply (N.mod_unique n P 1); lia. }
    lia.
  - assert (HnZ : Z.of_N n = v).
    { unfold n. rewrite Z.mod_small by lia. rewrite Z2N.id by lia. reflexivity. }
    destruct (N.leb_spec P n); [lia|].
    rewrite N.mod_small by lia. exact HnZ.
Qed.

(** **** ReadByte incl. the unaligned 16-bit load *)
Theorem read_byte_spec s :
  Inv s ->
  read_byte s =
    if (rcur s + 8 <=? len s)%nat then (adv s 8, Ok (N_of_bits (rd s 8)))
    else (s, Err ENotEnoughBits).
Proof.
  intros HI. pose proof HI as (H1 & H2 & H3 & H4). unfold read_byte.
  rewrite avail_ltb by exact HI.
  destruct (Nat.leb_spec (rcur s + 8) (len s)) as [Hfit|Hno]; cbn [negb]; [|reflexivity].
  rewrite rd_buf by exact Hfit.
  pose proof (Nat.div_mod (rcur s) 8 ltac:(lia)) as Hdm.
  pose proof (Nat.mod_upper_bound (rcur s) 8 ltac:(lia)) as Hub.
  pose proof (Nat.div_mod (length (buf s)) 8 ltac:(lia)) as Hbm.
  destruct (Nat.eqb_spec (rcur s mod 8) 0) as [Hra|Hra].
  - rewrite short_false by lia. rewrite div8_mul by exact Hra. reflexivity.
  - rewrite short_false by lia.
    unfold adv. f_equal. f_equal.
    set (off := (rcur s mod 8)%nat) in *.
    set (win := firstn 16 (skipn (8 * (rcur s / 8)) (buf s))).
    assert (Hwin : length win = 16%nat) by (unfold win; rewrite firstn_length, skipn_length; lia).
    change 256%N with (2 ^ 8)%N. rewrite <- N.land_ones, N.ones_equiv, N.pred_sub.
    replace (8 - off)%nat with (length win - 8 - off)%nat by lia.
    change 8%N with (N.of_nat 8).
    rewrite window by lia.
    f_equal. unfold win.
    rewrite firstn_skipn_firstn by lia.
    rewrite skipn_add. f_equal. f_equal. lia.
Qed.

(** **** ReadBytes *)
Lemma bytes_of_bits_skip n : forall l,
  bytes_of_bits (S n) l = N_of_bits (firstn 8 l) :: bytes_of_bits n (skipn 8 l).
Proof. reflexivity. Qed.

Lemma read_byte_loop_spec n : forall s acc,
  Inv s -> (rcur s + 8 * n <= len s)%nat ->
  read_byte_loop n s acc =
    (adv s (8 * n), Ok (rev acc ++ bytes_of_bits n (skipn (rcur s) (buf s)))).
Proof.
  induction n as [|n IH]; intros s acc HI Hfit.
  - cbn [read_byte_loop bytes_of_bits]. rewrite app_nil_r. unfold adv, set_rcur.
    replace (rcur s + 8 * 0)%nat with (rcur s) by lia. destruct s; reflexivity.
  - cbn [read_byte_loop]. rewrite read_byte_spec by exact HI.
    destruct (Nat.leb_spec (rcur s + 8) (len s)); [|lia].
    rewrite IH; [|apply Inv_adv; [exact HI|lia]|cbn [adv set_rcur rcur len]; lia].
    f_equal.
    + unfold adv, set_rcur; cbn. f_equal. lia.
    + f_equal. cbn [rev]. rewrite <- app_assoc. f_equal. cbn [app].
      rewrite bytes_of_bits_skip. f_equal.
      * rewrite rd_buf by lia. reflexivity.
      * cbn [adv set_rcur rcur buf]. rewrite skipn_add. reflexivity.
Qed.

Theorem read_bytes_spec n s :
  Inv s ->
  read_bytes n s =
    if (rcur s + 8 * n <=? len s)%nat
    then (adv s (8 * n), Ok (bytes_of_bits n (skipn (rcur s) (abs s))))
    else (s, Err ENotEnoughBits).
Proof.
  intros HI. pose proof HI as (H1 & H2 & H3 & H4). unfold read_bytes.
  rewrite avail_ltb by exact HI. rewrite (Nat.mul_comm n 8).
  destruct (Nat.leb_spec (rcur s + 8 * n) (len s)) as [Hfit|Hno]; cbn [negb]; [|reflexivity].
  assert (Habs : bytes_of_bits n (skipn (rcur s) (abs s)) = bytes_of_bits n (skipn (rcur s) (buf s))).
  { unfold abs. clear - Hfit. revert Hfit. generalize (rcur s) as r. generalize (buf s) as l.
    generalize (len s) as m.
    induction n as [|n IH]; intros m l r Hfit; [reflexivity|].
    cbn [bytes_of_bits]. f_equal.
    - f_equal. apply firstn_skipn_firstn. lia.
    - rewrite !skipn_add. apply IH. lia. }
  rewrite Habs.
  destruct (Nat.eqb_spec (rcur s mod 8) 0) as [Hra|Hra].
  - rewrite Nat.mul_add_distr_l, div8_mul by exact Hra.
    rewrite short_false by lia. reflexivity.
  - rewrite read_byte_loop_spec by assumption. reflexivity.
Qed.

(** **** ReadBits *)
Theorem read_bits_spec n s :
  Inv s ->
  read_bits n s =
    if (rcur s + n <=? len s)%nat then (adv s n, Ok (rd s n)) else (s, Err ENotEnoughBits).
Proof.
  intros HI. pose proof HI as (H1 & H2 & H3 & H4). unfold read_bits.
  rewrite avail_ltb by exact HI.
  destruct (Nat.leb_spec (rcur s + n) (len s)) as [Hfit|Hno]; cbn [negb]; [|reflexivity].
  rewrite rd_buf by exact Hfit.
  pose proof (Nat.div_mod (length (buf s)) 8 ltac:(lia)) as Hbm.
  destruct (Nat.eqb_spec (rcur s mod 8) 0) as [Hra|Hra].
  - assert (Hnb : (8 * (rcur s / 8 + nbytes n) <= length (buf s))%nat).
    { unfold nbytes. rewrite Nat.mul_add_distr_l, div8_mul by exact Hra.
      pose proof (Nat.div_mod (n + 7) 8 ltac:(lia)).
      pose proof (Nat.mod_upper_bound (n + 7) 8 ltac:(lia)).
      pose proof (Nat.div_mod (rcur s) 8 ltac:(lia)).
      (* rcur + n <= |buf|, both rcur and |buf| multiples of 8 *)
      assert (exists q, length (buf s) = 8 * q)%nat as (q & Hq) by (exists (length (buf s) / 8)%nat; lia).
      assert (exists p, rcur s = 8 * p)%nat as (p & Hp) by (exists (rcur s / 8)%nat; lia).
      lia. }
    rewrite short_false by exact Hnb. rewrite div8_mul by exact Hra. reflexivity.
  - rewrite short_false by lia. reflexivity.
Qed.

(** **** big integers *)
Lemma N_of_bits_bytes_bits n : forall l,
  (8 * n <= length l)%nat ->
  N_of_bits (bytes_bits (bytes_of_bits n l)) = N_of_bits (firstn (8 * n) l).
Proof.
  induction n as [|n IH]; intros l Hl; [reflexivity|].
  cbn [bytes_of_bits bytes_bits].
  assert (H8 : bits_of 8 (N_of_bits (firstn 8 l)) = firstn 8 l).
  { assert (Hlen : length (firstn 8 l) = 8%nat) by (rewrite firstn_length; lia).
    rewrite <- Hlen at 1. apply bits_of_N_of_bits. }
  rewrite H8.
  replace (8 * S n)%nat with (8 + 8 * n)%nat by lia.
  rewrite <- (firstn_skipn 8 l) at 3.
  rewrite firstn_app, firstn_firstn.
  replace (Nat.min (8 + 8 * n) 8) with 8%nat by lia.
  rewrite firstn_length. replace (8 + 8 * n - Nat.min 8 (length l))%nat with (8 * n)%nat by lia.
  rewrite !N_of_bits_app. rewrite IH by (rewrite skipn_length; lia).
  f_equal. f_equal. f_equal.
  (* lengths *)
  assert (Hb : forall m k, (8 * m <= length k)%nat -> length (bytes_bits (bytes_of_bits m k)) = (8 * m)%nat).
  { clear. induction m as [|m IHm]; intros k Hk; [reflexivity|].
    cbn [bytes_of_bits bytes_bits]. rewrite app_length, bits_of_length.
    rewrite IHm by (rewrite skipn_length; lia). lia. }
  rewrite Hb by (rewrite skipn_length; lia).
  rewrite firstn_length, skipn_length. lia.
Qed.

Theorem read_big_uint_spec w s :
  Inv s ->
  read_big_uint w s =
    if (rcur s + w <=? len s)%nat then (adv s w, Ok (N_of_bits (rd s w)))
    else (s, Err ENotEnoughBits).
Proof.
  intros HI. pose proof HI as (H1 & H2 & H3 & H4). unfold read_big_uint.
  rewrite avail_ltb by exact HI.
  destruct (Nat.leb_spec (rcur s + w) (len s)) as [Hfit|Hno]; cbn [negb]; [|reflexivity].
  destruct (Nat.eqb_spec w 0) as [->|Hw0].
  { unfold adv, set_rcur. rewrite Nat.add_0_r. unfold rd. cbn [firstn]. destruct s; reflexivity. }
  pose proof (Nat.div_mod w 8 ltac:(lia)) as Hdm.
  pose proof (Nat.mod_upper_bound w 8 ltac:(lia)) as Hub.
  set (k := (w mod 8)%nat) in *. set (q := (w / 8)%nat) in *.
  (* the head read *)
  assert (Hfirst :
    (if (k =? 0)%nat then (s, Ok 0%N) else read_uint k s) = (adv s k, Ok (N_of_bits (rd s k)))).
  { destruct (Nat.eqb_spec k 0) as [Hk|Hk].
    - rewrite Hk. unfold adv, set_rcur, rd. rewrite Nat.add_0_r. cbn [firstn]. destruct s; reflexivity.
    - rewrite read_uint_spec by (try exact HI; lia).
      destruct (Nat.leb_spec (rcur s + k) (len s)); [reflexivity|lia]. }
  rewrite Hfirst.
  assert (HI1 : Inv (adv s k)) by (apply Inv_adv; [exact HI|lia]).
  rewrite read_bytes_spec by exact HI1.
  cbn [adv set_rcur rcur len].
  destruct (Nat.leb_spec (rcur s + k + 8 * q) (len s)); [|lia].
  f_equal.
  - unfold adv, set_rcur; cbn [rcur buf cap len]. f_equal. lia.
  - f_equal.
    rewrite N_of_bits_bytes_bits.
    2:{ rewrite skipn_length. unfold abs, adv; cbn [buf len set_rcur]. rewrite firstn_length. lia. }
    (* glue head and tail *)
    change (abs (set_rcur s (rcur s + k))) with (abs s).
    assert (Hsplit : rd s w = rd s k ++ firstn (8 * q) (skipn (rcur s + k) (abs s))).
    { unfold rd. rewrite Hdm at 1. rewrite Nat.add_comm.
      rewrite <- (firstn_skipn k (skipn (rcur s) (abs s))) at 1.
      rewrite firstn_app, firstn_firstn.
      replace (Nat.min (k + 8 * q) k) with k by lia.
      rewrite firstn_length, skipn_length.
      assert (Hal : length (abs s) = len s) by (unfold abs; rewrite firstn_length; lia).
      rewrite Hal. replace (k + 8 * q - Nat.min k (len s - rcur s))%nat with (8 * q)%nat by lia.
      rewrite skipn_add. reflexivity. }
    rewrite Hsplit, N_of_bits_app. f_equal. f_equal. f_equal.
    rewrite firstn_length, skipn_length.
    assert (Hal : length (abs s) = len s) by (unfold abs; rewrite firstn_length; lia).
    rewrite Hal. f_equal. lia.
Qed.

Theorem read_big_int_spec w s :
  Inv s -> (1 <= w)%nat ->
  read_big_int w s =
    if (rcur s + w <=? len s)%nat then (adv s w, Ok (dec_int (rd s w)))
    else (s, Err ENotEnoughBits).
Proof.
  intros HI Hw. pose proof HI as (H1 & H2 & H3 & H4). unfold read_big_int.
  rewrite avail_ltb by exact HI.
  destruct (Nat.leb_spec (rcur s + w) (len s)) as [Hfit|Hno]; cbn [negb]; [|reflexivity].
  destruct (Nat.eqb_spec w 0) as [?|_]; [lia|].
  rewrite short_false by lia.
  destruct w as [|k]; [lia|].
  rewrite (rd_S s k HI Hfit).
  assert (Hsign : get_bit (rcur s) s = nth 0 (rd s 1) false).
  { pose proof (read_bit_spec s HI) as Hb. unfold read_bit in Hb.
    rewrite avail_ltb in Hb by exact HI.
    destruct (Nat.leb_spec (rcur s + 1) (len s)); [|lia]. cbn [negb] in Hb.
    rewrite short_false in Hb by lia. congruence. }
  rewrite Hsign. set (sign := nth 0 (rd s 1) false).
  assert (HI1 : Inv (adv s 1)) by (apply Inv_adv; [exact HI|lia]).
  replace (set_rcur s (S (rcur s))) with (adv s 1) by (unfold adv; rewrite Nat.add_1_r; reflexivity).
  assert (Hadv : adv (adv s 1) k = adv s (S k)).
  { unfold adv, set_rcur; cbn. f_equal. lia. }
  assert (Hlenk : length (rd (adv s 1) k) = k).
  { apply rd_length; [exact HI1|]. cbn [adv set_rcur rcur len]. lia. }
  cbn [dec_int]. rewrite Hlenk.
  destruct (Nat.eqb_spec (S k) 1) as [Hk1|Hk1].
  - assert (k = 0%nat) by lia. subst k.
    destruct (rd (adv s 1) 0) eqn:E; [|cbn in Hlenk; lia].
    cbn. destruct sign; reflexivity.
  - replace (S k - 1)%nat with k by lia.
    rewrite (read_big_uint_spec k (adv s 1) HI1).
    cbn [adv set_rcur rcur len].
    destruct (Nat.leb_spec (rcur s + 1 + k) (len s)); [|lia].
    fold (adv s 1). rewrite Hadv. destruct sign; reflexivity.
Qed.

(** **** unary *)
Lemma read_unary_loop_spec n : forall fuel s acc,
  Inv s -> (n < fuel)%nat ->
  rd s (S n) = ones n ++ [false] ->
  (rcur s + S n <= len s)%nat ->
  read_unary_loop fuel s acc = (adv s (S n), Ok (acc + n)%nat).
Proof.
  induction n as [|n IH]; intros fuel s acc HI Hf Hrd Hfit;
    (destruct fuel as [|fuel]; [lia|]); cbn [read_unary_loop];
    rewrite read_bit_spec by exact HI;
    (destruct (Nat.leb_spec (rcur s + 1) (len s)); [|lia]);
    rewrite (rd_S s _ HI Hfit) in Hrd; cbn [ones repeat app] in Hrd.
  - assert (Hb : nth 0 (rd s 1) false = false) by congruence.
    rewrite Hb, Nat.add_0_r. reflexivity.
  - injection Hrd as Hb Hrest.
    rewrite Hb.
    rewrite (IH fuel (adv s 1) (S acc)).
    + f_equal; [unfold adv, set_rcur; cbn [rcur buf cap len]; f_equal; lia | f_equal; lia].
    + apply Inv_adv; [exact HI|lia].
    + lia.
    + exact Hrest.
    + cbn [adv set_rcur rcur len]. lia.
Qed.

Theorem read_unary_spec n s :
  Inv s -> (rcur s + S n <= len s)%nat ->
  rd s (S n) = ones n ++ [false] ->
  read_unary s = (adv s (S n), Ok n).
Proof.
  intros HI Hfit Hrd. unfold read_unary.
  rewrite (read_unary_loop_spec n) with (acc := 0%nat); auto.
  unfold avail_read. lia.
Qed.
