(** C11 proofs, part 5: Connection.Send under the connection mutex.  In every
    interleaving of the senders' Lock / Encrypt / Write / Unlock steps that the
    mutex admits, the bytes on the wire are send_all of the packets in the
    order in which the mutex was acquired, and every sender's packets keep
    their order. *)
From Coq Require Import List NArith Bool Lia Arith.
From Tongo Require Import Lib.Bits Spec.AdnlSpec Model.AdnlT.
Import ListNotations.
Local Open Scope N_scope.

Section LockProofs.
  Variable H : list N -> list N.
  Variable cstate : Type.
  Variable next : cstate -> N * cstate.

  Notation send_all := (send_all H cstate next).
  Notation send_packet := (send_packet H cstate next).
  Notation csys := (csys cstate).
  Notation cstep := (cstep H cstate next).
  Notation crun := (crun H cstate next).

  Lemma send_all_snoc L : forall s m,
    send_all s (L ++ [m]) =
    (let '(w, t) := send_all s L in
     let '(c, t') := send_packet t (fst m) (snd m) in (w ++ c, t')).
  Proof.
    induction L as [|[n p] L IH]; intros s [mn mp].
    - cbn [app AdnlT.send_all fst snd]. destruct (send_packet s mn mp) as [c t].
      rewrite app_nil_r. reflexivity.
    - cbn [app AdnlT.send_all]. destruct (send_packet s n p) as [c s1].
      rewrite IH. destruct (send_all s1 L) as [w t]. cbn [fst snd].
      destruct (send_packet t mn mp) as [c' t']. rewrite app_assoc. reflexivity.
  Qed.

  Section Inv.
    Variable tx0 : cstate.
    Definition W (L : list msg) : list N := fst (send_all tx0 L).
    Definition T (L : list msg) : cstate := snd (send_all tx0 L).

    Lemma W_snoc L m : W (L ++ [m]) = W L ++ fst (send_packet (T L) (fst m) (snd m)).
    Proof.
      unfold W, T. rewrite send_all_snoc. destruct (send_all tx0 L) as [w t]. cbn [fst snd].
      destruct (send_packet t (fst m) (snd m)); reflexivity.
    Qed.

    Lemma T_snoc L m : T (L ++ [m]) = snd (send_packet (T L) (fst m) (snd m)).
    Proof.
      unfold T. rewrite send_all_snoc. destruct (send_all tx0 L) as [w t]. cbn [fst snd].
      destruct (send_packet t (fst m) (snd m)); reflexivity.
    Qed.

    (* who may be where while the mutex is free / held by i *)
    Definition inv (st : csys) : Prop :=
      let L := map snd (cs_log st) in
      (cs_owner st = None /\ cs_active st = [] /\ cs_wire st = W L /\ cs_tx st = T L) \/
      (exists i L' m, cs_owner st = Some i /\ L = L' ++ [m] /\
         ((cs_active st = [(i, PLocked m)] /\ cs_wire st = W L' /\ cs_tx st = T L') \/
          (exists c, cs_active st = [(i, PEnc c)] /\ cs_wire st = W L' /\
                     send_packet (T L') (fst m) (snd m) = (c, cs_tx st)) \/
          (cs_active st = [(i, PWrote)] /\ cs_wire st = W L /\ cs_tx st = T L))).

    Lemma alookup_single j i p :
      alookup j [(i, p)] = if Nat.eqb j i then Some p else None.
    Proof. cbn. destruct (Nat.eqb j i); reflexivity. Qed.

    Lemma aset_single i p q : aset i q [(i, p)] = [(i, q)].
    Proof. unfold aset. cbn. rewrite Nat.eqb_refl. reflexivity. Qed.

    Lemma aremove_single i p : aremove i [(i, p)] = [].
    Proof. cbn. rewrite Nat.eqb_refl. reflexivity. Qed.

    Lemma inv_step st i a st' :
      inv st -> cstep false i a st = Some st' -> inv st'.
    Proof.
      intros I S. unfold inv in *.
      destruct I as [[Ow [Ac [Wi Tx]]] | [j [L' [m [Ow [EL Ph]]]]]].
      - (* mutex free: only Lock is enabled *)
        destruct a; cbn [AdnlT.cstep] in S; rewrite ?Ow, ?Ac in S; cbn [alookup] in S;
          try discriminate.
        destruct (qpop i (cs_queues st)) as [[m qs]|]; [|discriminate].
        injection S as <-. cbn [cs_owner cs_active cs_wire cs_tx cs_log].
        right. exists i, (map snd (cs_log st)), m.
        rewrite map_app. cbn [map snd]. repeat split; auto.
      - destruct a; cbn [AdnlT.cstep] in S; rewrite ?Ow in S; try discriminate.
        + (* Encrypt *)
          destruct Ph as [[Ac [Wi Tx]] | [[c [Ac _]] | [Ac _]]];
            rewrite Ac, alookup_single in S; destruct (Nat.eqb i j) eqn:E; try discriminate.
          apply Nat.eqb_eq in E. subst i. cbn [negb] in S.
          destruct (send_packet (cs_tx st) (fst m) (snd m)) as [c tx] eqn:SP.
          injection S as <-. cbn [cs_owner cs_active cs_wire cs_tx cs_log].
          right. exists j, L', m. rewrite aset_single. repeat split; auto.
          right. left. exists c. rewrite <- Tx. auto.
        + (* Write *)
          destruct Ph as [[Ac _] | [[c [Ac [Wi SP]]] | [Ac _]]];
            rewrite Ac, alookup_single in S; destruct (Nat.eqb i j) eqn:E; try discriminate.
          apply Nat.eqb_eq in E. subst i.
          injection S as <-. cbn [cs_owner cs_active cs_wire cs_tx cs_log].
          right. exists j, L', m. rewrite aset_single. repeat split; auto.
          right. right. rewrite EL, W_snoc, T_snoc, SP, Wi. auto.
        + (* Unlock *)
          destruct Ph as [[Ac _] | [[c [Ac _]] | [Ac [Wi Tx]]]];
            rewrite Ac, alookup_single in S; destruct (Nat.eqb i j) eqn:E; try discriminate.
          apply Nat.eqb_eq in E. subst i.
          injection S as <-. cbn [cs_owner cs_active cs_wire cs_tx cs_log].
          left. try rewrite aremove_single. cbn [aremove]. rewrite ?Nat.eqb_refl. auto.
    Qed.

    Lemma inv_run sched : forall st ev,
      inv st -> inv (fst (crun false sched st ev)).
    Proof.
      induction sched as [|[i a] t IH]; intros st ev I; [exact I|].
      cbn [AdnlT.crun]. destruct (cstep false i a st) as [st'|] eqn:S.
      - apply IH. eapply inv_step; eassumption.
      - apply IH. exact I.
    Qed.

    Lemma inv_init queues : inv (cinit cstate tx0 queues).
    Proof. left. cbn. auto. Qed.

    (* whenever the mutex is free, the wire carries exactly send_all of the
       packets in lock-acquisition order and the cipher is in the matching state *)
    Theorem lock_serialises queues sched :
      let st := fst (crun false sched (cinit cstate tx0 queues) []) in
      cs_owner st = None ->
      cs_active st = [] /\
      cs_wire st = fst (send_all tx0 (map snd (cs_log st))) /\
      cs_tx st = snd (send_all tx0 (map snd (cs_log st))).
    Proof.
      intros st Ow. pose proof (inv_run sched _ [] (inv_init queues)) as I.
      fold st in I. destruct I as [[_ [Ac [Wi Tx]]] | [j [L' [m [Ow' _]]]]].
      - auto.
      - congruence.
    Qed.

    (* at any moment the wire is a prefix of that stream *)
    Theorem lock_wire_prefix queues sched :
      let st := fst (crun false sched (cinit cstate tx0 queues) []) in
      exists rest, fst (send_all tx0 (map snd (cs_log st))) = cs_wire st ++ rest.
    Proof.
      intros st. pose proof (inv_run sched _ [] (inv_init queues)) as I. fold st in I.
      destruct I as [[_ [_ [Wi _]]] | [j [L' [m [_ [EL Ph]]]]]].
      - exists []. rewrite app_nil_r. symmetry. exact Wi.
      - fold (W (map snd (cs_log st))). rewrite EL, W_snoc.
        destruct Ph as [[_ [Wi _]] | [[c [_ [Wi _]]] | [_ [Wi _]]]].
        + eexists. rewrite Wi. reflexivity.
        + eexists. rewrite Wi. reflexivity.
        + exists []. rewrite app_nil_r, Wi, EL, W_snoc. reflexivity.
    Qed.
  End Inv.

  (* ---------- every sender's packets keep their order (both variants) ---------- *)

  Definition sent_by (i : nat) (log : list (nat * msg)) : list msg :=
    map snd (filter (fun e => Nat.eqb (fst e) i) log).

  Lemma qpop_spec i : forall qs m qs',
    qpop i qs = Some (m, qs') ->
    nth i qs [] = m :: nth i qs' [] /\ forall j, j <> i -> nth j qs' [] = nth j qs [].
  Proof.
    induction i as [|i IH]; intros [|q t] m qs' E; cbn [qpop] in E; try discriminate.
    - destruct q as [|x q]; [discriminate|]. injection E as <- <-. cbn. split; [reflexivity|].
      intros [|j] Nj; [congruence|reflexivity].
    - destruct (qpop i t) as [[m' t']|] eqn:Q; [|discriminate]. injection E as <- <-.
      destruct (IH t m' t' Q) as [E1 E2]. cbn. split; [exact E1|].
      intros [|j] Nj; [reflexivity|]. apply E2. congruence.
  Qed.

  Definition order_inv (queues0 : list (list msg)) (st : csys) : Prop :=
    forall j, sent_by j (cs_log st) ++ nth j (cs_queues st) [] = nth j queues0 [].

  Lemma order_step queues0 early st i a st' :
    order_inv queues0 st -> cstep early i a st = Some st' -> order_inv queues0 st'.
  Proof.
    intros I S. destruct a; cbn [AdnlT.cstep] in S.
    - destruct (cs_owner st); [discriminate|].
      destruct (alookup i (cs_active st)); [discriminate|].
      destruct (qpop i (cs_queues st)) as [[m qs]|] eqn:Q; [|discriminate].
      injection S as <-. destruct (qpop_spec i _ _ _ Q) as [E1 E2].
      intros j. cbn [cs_log cs_queues]. unfold sent_by. rewrite filter_app, map_app.
      cbn [filter fst]. destruct (Nat.eqb_spec i j) as [<-|Nj].
      + cbn [map snd]. rewrite <- app_assoc. cbn [app]. rewrite <- E1. apply I.
      + cbn [map]. rewrite app_nil_r, (E2 j ltac:(congruence)). apply I.
    - destruct (alookup i (cs_active st)) as [[m|m|c|]|]; try discriminate;
        destruct early; try discriminate;
        destruct (AdnlT.send_packet H cstate next (cs_tx st) (fst m) (snd m));
        injection S as <-; exact I.
    - destruct (alookup i (cs_active st)) as [[m|m|c|]|]; try discriminate.
      injection S as <-. exact I.
    - destruct (alookup i (cs_active st)) as [[m|m|c|]|]; try discriminate;
        destruct early; try discriminate; injection S as <-; exact I.
  Qed.

  Theorem per_sender_order early tx0 queues sched :
    let st := fst (crun early sched (cinit cstate tx0 queues) []) in
    forall j, sent_by j (cs_log st) ++ nth j (cs_queues st) [] = nth j queues [].
  Proof.
    assert (G : forall sched st ev, order_inv queues st ->
                order_inv queues (fst (crun early sched st ev))).
    { clear sched. induction sched as [|[i a] t IH]; intros st ev I; [exact I|].
      cbn [AdnlT.crun]. destruct (cstep early i a st) as [st'|] eqn:S.
      - apply IH. eapply order_step; eassumption.
      - apply IH. exact I. }
    intros st. apply G. intros j. cbn. reflexivity.
  Qed.
End LockProofs.
