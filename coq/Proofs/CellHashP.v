(** C02: the hashing loop of boc/immutable_cell.go computes the declarative
    TON representation hash (Spec/ReprHash.v) for every cell tree and every
    level mask 0..7, at every level; sharing / caching does not matter. *)
From Coq Require Import List NArith Arith Lia Bool.
From Tongo Require Import Lib.Bits Lib.Res Model.BocParse Model.CellHash Spec.ReprHash.
Import ListNotations.

Section P.
Variable H : bytes -> bytes.

(** total accessors for a built immutable cell *)
Definition ih (c : imm) (l : nat) : bytes := match imm_hash c l with Ok h => h | _ => [] end.
Definition idp (c : imm) (l : nat) : N := match imm_depth c l with Ok d => d | _ => 0%N end.
Definition imm_wf (c : imm) : Prop :=
  forall l, imm_hash c l = Ok (ih c l) /\ imm_depth c l = Ok (idp c l).

Lemma mapM_hash_wf (irefs : list imm) j :
  Forall imm_wf irefs -> mapM (fun r => imm_hash r j) irefs = Ok (map (fun r => ih r j) irefs).
Proof.
  induction irefs as [|r t IH]; intros Hw; [reflexivity|].
  inversion Hw as [|? ? Hr Ht]; subst. cbn [mapM map].
  rewrite (proj1 (Hr j)). cbn [bind]. rewrite (IH Ht). reflexivity.
Qed.

Lemma mapM_depth_wf (irefs : list imm) j :
  Forall imm_wf irefs -> mapM (fun r => imm_depth r j) irefs = Ok (map (fun r => idp r j) irefs).
Proof.
  induction irefs as [|r t IH]; intros Hw; [reflexivity|].
  inversion Hw as [|? ? Hr Ht]; subst. cbn [mapM map].
  rewrite (proj2 (Hr j)). cbn [bind]. rewrite (IH Ht). reflexivity.
Qed.

(** the relation between a tree and its immutable cell: same answers at every level *)
Definition agrees (c : cell) (im : imm) : Prop :=
  forall l, hd_at H c l = Ok (ih im l, idp im l).

(** mask facts for 3-bit masks *)
Lemma mask_apply_high m l : (m < 8)%N -> (3 <= l)%nat -> mask_apply m l = m.
Proof.
  intros Hm Hl. unfold mask_apply.
  rewrite <- N.pred_sub, <- N.ones_equiv, N.land_ones.
  apply N.mod_small.
  assert (2 ^ 3 <= 2 ^ N.of_nat l)%N by (apply N.pow_le_mono_r; lia).
  change (2 ^ 3)%N with 8%N in *. lia.
Qed.

Lemma mask_cases m : (m < 8)%N -> m = 0%N \/ m = 1%N \/ m = 2%N \/ m = 3%N \/ m = 4%N \/ m = 5%N \/ m = 6%N \/ m = 7%N.
Proof. intros. lia. Qed.

Lemma level_cases (l : nat) : l = 0%nat \/ l = 1%nat \/ l = 2%nat \/ (3 <= l)%nat.
Proof. lia. Qed.

(** one level of the spec, in terms of the children's immutable cells *)
Definition level_of (special : bool) (m : N) (data : bits) (irefs : list imm) (j cj : nat)
           (prev : option bytes) : res (bytes * N) :=
  level_repr H special m data (length irefs) j prev (map (fun r => (ih r cj, idp r cj)) irefs).

(* the spec's children fold, given agreeing children *)
Lemma kids_agree (refs : list cell) (irefs : list imm) (cj : nat) :
  Forall2 agrees refs irefs ->
  (fix go (rs : list cell) : res (list (bytes * N)) :=
     match rs with
     | [] => Ok []
     | ch :: t =>
         match hd_at H ch cj with
         | Ok x => match go t with Ok xs => Ok (x :: xs) | Err e => Err e | Panic p => Panic p end
         | Err e => Err e
         | Panic p => Panic p
         end
     end) refs = Ok (map (fun r => (ih r cj, idp r cj)) irefs).
Proof.
  induction 1 as [|ch ich t it Hc Ht IH]; [reflexivity|].
  rewrite (Hc cj), IH. reflexivity.
Qed.


(** *** one iteration of the loop of newImmutableCell *)
Definition offset_of (special : bool) (ty m : N) : nat :=
  if is_pruned special ty then mask_popcount m else 0%nat.
Definition cl (special : bool) (ty : N) (j : nat) : nat := if is_merkle special ty then S j else j.

Lemma loop_insig special ty m data irefs i rest seen hs ds :
  mask_significant m i = false ->
  build_loop H special ty m data irefs (i :: rest) seen hs ds
  = build_loop H special ty m data irefs rest seen hs ds.
Proof. intros E. cbn [build_loop]. rewrite E. reflexivity. Qed.

Lemma loop_below special ty m data irefs i rest seen hs ds :
  mask_significant m i = true -> (seen < offset_of special ty m)%nat ->
  build_loop H special ty m data irefs (i :: rest) seen hs ds
  = build_loop H special ty m data irefs rest (S seen) hs ds.
Proof.
  intros E Hlt. cbn [build_loop]. rewrite E. cbn [negb].
  fold (offset_of special ty m).
  destruct (Nat.ltb_spec seen (offset_of special ty m)); [reflexivity|lia].
Qed.

Lemma level_of_unfold special ty m data irefs i prev :
  level_of special m data irefs i (cl special ty i) prev =
  (let d1 := d1_byte (length irefs) special (mask_apply m i) in
   let head := match prev with
               | None => repr_no_refs (length irefs) special (mask_apply m i) data
               | Some h => d1 :: d2_byte (length data) :: h
               end in
   let cdepths := map (fun r => idp r (cl special ty i)) irefs in
   let maxd := fold_left N.max cdepths 0%N in
   if negb (Nat.eqb (length irefs) 0) && (1024 <=? maxd)%N then Err EDepth else
   Ok (H (head ++ flat_map be16 cdepths ++ concat (map (fun r => ih r (cl special ty i)) irefs)),
       if Nat.eqb (length irefs) 0 then 0%N else (maxd + 1)%N)).
Proof.
  unfold level_of, level_repr. rewrite !map_map. cbn [fst snd].
  destruct prev; reflexivity.
Qed.

Lemma loop_sig special ty m data irefs i rest seen hs ds prev :
  Forall imm_wf irefs ->
  mask_significant m i = true -> (offset_of special ty m <= seen)%nat ->
  (if (seen =? offset_of special ty m)%nat then prev = None
   else exists hp, nth_error hs (seen - offset_of special ty m - 1) = Some hp /\ prev = Some hp) ->
  build_loop H special ty m data irefs (i :: rest) seen hs ds
  = match level_of special m data irefs i (cl special ty i) prev with
    | Ok (h, d) => build_loop H special ty m data irefs rest (S seen) (hs ++ [h]) (ds ++ [d])
    | Err e => Err e
    | Panic p => Panic p
    end.
Proof.
  intros Hw E Hge Hprev. cbn [build_loop]. rewrite E. cbn [negb].
  fold (offset_of special ty m). fold (cl special ty i).
  destruct (Nat.ltb_spec seen (offset_of special ty m)); [lia|].
  rewrite level_of_unfold. cbv zeta.
  rewrite (mapM_depth_wf irefs _ Hw), (mapM_hash_wf irefs _ Hw).
  destruct (Nat.eqb_spec seen (offset_of special ty m)) as [Heq|Hne].
  - subst prev. cbn [bind].
    destruct (negb (length irefs =? 0) && (1024 <=? fold_left N.max (map (fun r => idp r (cl special ty i)) irefs) 0)%N);
      reflexivity.
  - destruct Hprev as (hp & Hn & ->). rewrite Hn. cbn [bind].
    destruct (negb (length irefs =? 0) && (1024 <=? fold_left N.max (map (fun r => idp r (cl special ty i)) irefs) 0)%N);
      reflexivity.
Qed.


Lemma own_levels_high special m data nrefs kids l :
  (m < 8)%N -> (3 <= l)%nat ->
  own_levels H special m data nrefs kids l = own_levels H special m data nrefs kids 3.
Proof.
  intros Hm Hl. induction l as [|l IH]; [lia|].
  destruct (Nat.eq_dec l 2) as [->|Hne]; [reflexivity|].
  cbn [own_levels].
  assert (Ht : N.testbit m (N.of_nat l) = false).
  { apply N.bits_above_log2. destruct (N.eq_dec m 0) as [->|Hz]; [cbn; lia|].
    assert (N.log2 m < 3)%N by (apply N.log2_lt_pow2; [lia|exact Hm]). lia. }
  rewrite Ht. apply IH. lia.
Qed.

Lemma bits_bytes_length n : forall l, length (bits_bytes n l) = n.
Proof. induction n as [|n IH]; intros l; cbn [bits_bytes length]; [reflexivity|]. rewrite IH. reflexivity. Qed.

Lemma skipn_two {A} k (L : list A) :
  (k + 2 <= length L)%nat -> exists a b t, skipn k L = a :: b :: t.
Proof.
  intros Hk. destruct (skipn k L) as [|a [|b t]] eqn:E.
  - assert (length (skipn k L) = 0%nat) by (rewrite E; reflexivity). rewrite skipn_length in *. lia.
  - assert (length (skipn k L) = 1%nat) by (rewrite E; reflexivity). rewrite skipn_length in *. lia.
  - eauto.
Qed.

Lemma stored_depth_ok m data k :
  (2 + 32 * mask_popcount m + 2 * k + 2 <= 128)%nat -> exists d, stored_depth m data k = Ok d.
Proof.
  intros Hk. unfold stored_depth.
  destruct (skipn_two (2 + 32 * mask_popcount m + 2 * k) (buf_bytes data)) as (a & b & t & E).
  { unfold buf_bytes. rewrite bits_bytes_length. lia. }
  rewrite E. eauto.
Qed.

Lemma Forall2_len {A B} (R : A -> B -> Prop) l l' : Forall2 R l l' -> length l = length l'.
Proof. induction 1; cbn; congruence. Qed.

Ltac eval_bits :=
  repeat match goal with
  | |- context [N.testbit ?m (N.of_nat ?k)] =>
      let v := eval vm_compute in (N.testbit m (N.of_nat k)) in
      change (N.testbit m (N.of_nat k)) with v
  end.

(* run the loop symbolically: one rewrite per level *)
Ltac run_loop Hb Hw Hoff :=
  repeat (first
    [ rewrite loop_insig in Hb by reflexivity
    | rewrite loop_below in Hb by (first [reflexivity | rewrite Hoff; cbn; lia])
    | erewrite loop_sig in Hb;
      [ | exact Hw | reflexivity | rewrite Hoff; cbn; lia
        | rewrite Hoff; cbn; try reflexivity; eexists; split; reflexivity ];
      match type of Hb with context [level_of ?a ?b ?c ?d ?e ?f ?g] =>
        let E := fresh "EL" in
        destruct (level_of a b c d e f g) as [[? ?]|?|?] eqn:E; cbn [bind app] in Hb; try discriminate Hb
      end ]);
  cbn [build_loop bind] in Hb.

Lemma finish (c : cell) (im : imm) :
  (forall l, exists h d, imm_hash im l = Ok h /\ imm_depth im l = Ok d /\ hd_at H c l = Ok (h, d)) ->
  imm_wf im /\ agrees c im.
Proof.
  intros Hall. split; intros l; destruct (Hall l) as (h & d & E1 & E2 & E3);
    unfold ih, idp; rewrite E1, E2; [split; reflexivity|exact E3].
Qed.

(** the node lemma, non-pruned cells *)
Lemma node_agrees_plain special ty m data refs irefs im :
  (m < 8)%N -> Forall imm_wf irefs -> Forall2 agrees refs irefs ->
  is_pruned special ty = false ->
  build_imm H special ty m data irefs = Ok im ->
  imm_wf im /\ agrees (Cell special ty m data refs) im.
Proof.
  intros Hm Hw Ha Hp Hb.
  assert (Hoff : offset_of special ty m = 0%nat) by (unfold offset_of; rewrite Hp; reflexivity).
  assert (Hlen : length refs = length irefs) by (eapply Forall2_len; eassumption).
  unfold build_imm in Hb.
  destruct (mask_cases m Hm) as [-> | [-> | [-> | [-> | [-> | [-> | [-> | ->]]]]]]];
    match type of Hb with context [mask_level ?k] =>
      let v := eval vm_compute in (mask_level k) in change (mask_level k) with v in Hb end;
    cbn [seq] in Hb; run_loop Hb Hw Hoff;
    injection Hb as <-; apply finish; intros l;
    destruct (level_cases l) as [-> | [-> | [-> | Hl]]];
    unfold imm_hash, imm_depth; cbn [im_special im_type im_mask im_hashes im_depths];
    rewrite Hp; try rewrite (mask_apply_high _ l) by (first [lia | assumption]);
    match goal with |- context [mask_popcount ?x] =>
      let v := eval vm_compute in (mask_popcount x) in change (mask_popcount x) with v end;
    cbn [nth_error]; do 2 eexists; (split; [reflexivity|split; [reflexivity|]]);
    cbn [hd_at]; rewrite Hp;
    try rewrite own_levels_high by (first [lia | assumption]);
    cbn [own_levels]; eval_bits; cbv iota;
    repeat (rewrite (kids_agree _ _ _ Ha); cbn [bind]);
    rewrite Hlen;
    repeat match goal with
    | E : level_of _ _ _ _ _ _ _ = Ok _ |- _ =>
        unfold level_of, cl in E; unfold cl; rewrite E; cbn [bind fst]; clear E
    end; reflexivity.
Qed.


Lemma buf_skip_two data k : (k + 2 <= 128)%nat -> exists a b t, skipn k (buf_bytes data) = a :: b :: t.
Proof. intros Hk. apply skipn_two. unfold buf_bytes. rewrite bits_bytes_length. exact Hk. Qed.

Ltac norm_nat :=
  repeat match goal with
  | |- context [skipn ?k (buf_bytes ?d)] =>
      lazymatch k with
      | context [Nat.add] => let v := eval vm_compute in k in change k with v
      | context [Nat.mul] => let v := eval vm_compute in k in change k with v
      end
  end.

(** the node lemma, pruned branch cells *)
Lemma node_agrees_pruned special ty m data refs irefs im :
  (m < 8)%N -> Forall imm_wf irefs -> Forall2 agrees refs irefs ->
  is_pruned special ty = true ->
  build_imm H special ty m data irefs = Ok im ->
  imm_wf im /\ agrees (Cell special ty m data refs) im.
Proof.
  intros Hm Hw Ha Hp Hb.
  assert (Hoff : offset_of special ty m = mask_popcount m) by (unfold offset_of; rewrite Hp; reflexivity).
  assert (Hlen : length refs = length irefs) by (eapply Forall2_len; eassumption).
  unfold build_imm in Hb.
  destruct (mask_cases m Hm) as [-> | [-> | [-> | [-> | [-> | [-> | [-> | ->]]]]]]];
    match type of Hb with context [mask_level ?k] =>
      let v := eval vm_compute in (mask_level k) in change (mask_level k) with v in Hb end;
    cbn [seq] in Hb; run_loop Hb Hw Hoff;
    injection Hb as <-; apply finish; intros l;
    destruct (level_cases l) as [-> | [-> | [-> | Hl]]];
    unfold imm_hash, imm_depth; cbn [im_special im_type im_mask im_hashes im_depths im_bits];
    rewrite Hp; try rewrite (mask_apply_high _ l) by (first [lia | assumption]);
    repeat match goal with |- context [mask_popcount ?x] =>
      let v := eval vm_compute in (mask_popcount x) in change (mask_popcount x) with v end;
    cbn [Nat.eqb negb nth_error];
    cbn [hd_at]; rewrite Hp;
    match goal with |- context [mask_level ?k] =>
      let v := eval vm_compute in (mask_level k) in change (mask_level k) with v end;
    try (destruct (Nat.ltb_spec l 3) as [?|_]; [lia|]);
    try (destruct (Nat.ltb_spec l 2) as [?|_]; [lia|]);
    try (destruct (Nat.ltb_spec l 1) as [?|_]; [lia|]);
    try (destruct (Nat.ltb_spec l 0) as [?|_]; [lia|]);
    cbn [Nat.ltb Nat.leb];
    unfold stored_depth, stored_hash;
    try rewrite (mask_apply_high _ l) by (first [lia | assumption]);
    repeat match goal with |- context [mask_popcount ?x] =>
      let v := eval vm_compute in (mask_popcount x) in change (mask_popcount x) with v end;
    norm_nat.
  all: try solve [
    repeat (rewrite (kids_agree _ _ _ Ha); cbn [bind]);
    rewrite Hlen;
    match goal with
    | E : level_of _ _ _ _ _ _ _ = Ok _ |- _ =>
        unfold level_of, cl in E; unfold cl; rewrite E; cbn [bind fst]
    end; do 2 eexists; repeat split; reflexivity ].
  all: try solve [
    match goal with |- context [match skipn ?k (buf_bytes ?d) with [] => _ | _ :: _ => _ end] =>
      let a := fresh "a" in let b := fresh "b" in let t := fresh "t" in let E := fresh "E" in
      destruct (buf_skip_two d k ltac:(lia)) as (a & b & t & E); rewrite E
    end; cbn [bind]; do 2 eexists; repeat split; reflexivity ].
Qed.


(** *** whole trees *)
Fixpoint imm_of (c : cell) : res imm :=
  match c with
  | Cell special ty m data refs =>
      do irefs <- (fix go (rs : list cell) : res (list imm) :=
                     match rs with
                     | [] => Ok []
                     | ch :: t => do x <- imm_of ch; do xs <- go t; Ok (x :: xs)
                     end) refs;
      build_imm H special ty m data irefs
  end.

Fixpoint masks_ok (c : cell) : Prop :=
  match c with
  | Cell _ _ m _ refs =>
      (m < 8)%N /\ (fix all (rs : list cell) : Prop :=
                      match rs with [] => True | ch :: t => masks_ok ch /\ all t end) refs
  end.

Lemma node_agrees special ty m data refs irefs im :
  (m < 8)%N -> Forall imm_wf irefs -> Forall2 agrees refs irefs ->
  build_imm H special ty m data irefs = Ok im ->
  imm_wf im /\ agrees (Cell special ty m data refs) im.
Proof.
  intros. destruct (is_pruned special ty) eqn:Hp.
  - eapply node_agrees_pruned; eassumption.
  - eapply node_agrees_plain; eassumption.
Qed.

Fixpoint csize (c : cell) : nat :=
  match c with
  | Cell _ _ _ _ refs =>
      S ((fix sum (rs : list cell) : nat := match rs with [] => 0 | ch :: t => csize ch + sum t end) refs)
  end.

Theorem impl_hash_is_spec : forall c im,
  masks_ok c -> imm_of c = Ok im -> imm_wf im /\ agrees c im.
Proof.
  intros c. remember (csize c) as n eqn:Hn.
  revert c Hn. induction n as [n IHn] using lt_wf_ind. intros c Hn im Hok Him.
  destruct c as [special ty m data refs]. cbn [imm_of masks_ok] in *.
  destruct Hok as (Hm & Hall).
  match type of Him with bind ?X _ = _ => destruct X as [irefs|e|p] eqn:Ego end;
    cbn [bind] in Him; try discriminate.
  assert (Hkids : Forall imm_wf irefs /\ Forall2 agrees refs irefs).
  { assert (Hsz : forall ch, In ch refs -> (csize ch < n)%nat).
    { subst n. clear. intros ch Hin. cbn [csize]. induction refs as [|x t IH]; [contradiction|].
      destruct Hin as [->|Hin]; [lia|]. specialize (IH Hin). cbn [csize] in IH. lia. }
    clear Hn Him. revert irefs Ego Hall Hsz.
    induction refs as [|ch t IHt]; intros irefs Ego Hall Hsz.
    - injection Ego as <-. split; constructor.
    - destruct (imm_of ch) as [x|e|p] eqn:Ech; cbn [bind] in Ego; try discriminate.
      match type of Ego with bind ?X _ = _ => destruct X as [xs|e|p] eqn:Et end;
        cbn [bind] in Ego; try discriminate.
      injection Ego as <-. destruct Hall as (Hch & Hrest).
      destruct (IHn (csize ch) (Hsz ch (or_introl eq_refl)) ch eq_refl x Hch Ech) as (W & A).
      destruct (IHt xs eq_refl Hrest (fun c Hc => Hsz c (or_intror Hc))) as (Ws & As).
      split; constructor; assumption. }
  destruct Hkids as (Hw & Ha).
  eapply node_agrees; eassumption.
Qed.

(** the hash of the API (level 3) equals the declarative representation hash *)
Corollary cell_hash_is_repr_hash c im :
  masks_ok c -> imm_of c = Ok im ->
  res_map fst (hd_at H c 3) = cell_hash im /\ res_map snd (hd_at H c 3) = cell_depth im.
Proof.
  intros Hok Him. destruct (impl_hash_is_spec c im Hok Him) as (W & A).
  rewrite (A 3%nat). cbn [res_map fst snd]. unfold cell_hash, cell_depth.
  destruct (W 3%nat) as (E1 & E2). rewrite E1, E2. split; reflexivity.
Qed.

End P.
