(** C05, second part: IntN (two's complement ordered) keys, when the encoder
    succeeds, the end-to-end statement from a sequence of Puts, the label form
    boundary, and the two refutation witnesses (findings). *)
From Coq Require Import List NArith Arith Lia Bool Sorted Permutation.
From Tongo Require Import Lib.Bits Lib.Res Spec.Dict Model.Hashmap
  Proofs.DictP Proofs.HashmapP Proofs.HashmapPut.
Import ListNotations.

(** ** the label form boundary *)
Theorem label_choice_boundary m lbl :
  ((length lbl < 8)%nat -> enc_label_go m lbl = hml_short lbl) /\
  ((8 <= length lbl)%nat -> enc_label_go m lbl = hml_long m lbl) /\
  (forall rest room, (length lbl <= m)%nat -> (length lbl <= room)%nat ->
     load_label m room (enc_label_go m lbl ++ rest) = Ok (lbl, rest) /\
     load_label m room (hml_short lbl ++ rest) = Ok (lbl, rest) /\
     load_label m room (hml_long m lbl ++ rest) = Ok (lbl, rest)).
Proof.
  repeat split.
  - intros H. rewrite enc_label_go_eq. unfold go_form.
    replace (length lbl <? 8)%nat with true by (symmetry; apply Nat.ltb_lt; lia). reflexivity.
  - intros H. rewrite enc_label_go_eq. unfold go_form.
    replace (length lbl <? 8)%nat with false by (symmetry; apply Nat.ltb_ge; lia). reflexivity.
  - rewrite enc_label_go_eq. apply load_label_enc; auto. apply go_form_valid.
  - apply (load_label_enc FShort); auto. exact I.
  - apply (load_label_enc FLong); auto. exact I.
Qed.

(** ** #<= m is monotone *)
Lemma lim_width_mono a b : (a <= b)%nat -> (lim_width a <= lim_width b)%nat.
Proof.
  intros H. unfold lim_width.
  assert (N.size (N.of_nat a) <= N.size (N.of_nat b))%N; [|lia].
  destruct (N.eq_dec (N.of_nat a) 0) as [E|E]; [rewrite E; cbn; lia|].
  rewrite !N.size_log2 by lia.
  apply -> N.succ_le_mono. apply N.log2_le_mono. lia.
Qed.

Lemma enc_label_go_length m lbl :
  (length (enc_label_go m lbl) <= Nat.max 16 (2 + lim_width m + length lbl))%nat.
Proof.
  unfold enc_label_go. destruct (length lbl <? 8)%nat eqn:E.
  - apply Nat.ltb_lt in E. cbn [length]. rewrite !app_length. unfold ones.
    rewrite repeat_length. cbn [length]. lia.
  - cbn [length]. rewrite app_length, bits_of_length. lia.
Qed.

Section Codec.
Variable V : Type.
Variable venc : V -> bits * list cell.
Variable vdec : bits -> list cell -> option V.
Hypothesis vcodec : forall v, vdec (fst (venc v)) (snd (venc v)) = Some v.

(** ** the encoder succeeds when label + value fit into a cell *)
Lemma cells_of_go_ok n vmax (t : pt V) : forall m,
  (forall v, length (fst (venc v)) <= vmax /\ length (snd (venc v)) <= 4)%nat ->
  (Nat.max 16 (2 + lim_width n + n) + vmax <= 1023)%nat ->
  (m <= n)%nat -> wf_pt m t ->
  exists c, cells_of venc m (annot_go V t) = Ok c.
Proof.
  intros m Hv Hfit. revert m.
  induction t as [lbl v|lbl l IHl r IHr]; intros m Hm Hwf; cbn [annot_go cells_of wf_pt] in *.
  - rewrite <- enc_label_go_eq. unfold mk_cell.
    pose proof (enc_label_go_length m lbl). pose proof (lim_width_mono m n Hm).
    destruct (Hv v) as [Hvb Hvr].
    replace (1023 <? length (enc_label_go m lbl ++ fst (venc v)))%nat with false
      by (symmetry; apply Nat.ltb_ge; rewrite app_length; lia).
    replace (4 <? length (snd (venc v)))%nat with false
      by (symmetry; apply Nat.ltb_ge; lia).
    eauto.
  - destruct Hwf as (Hlen & Hwl & Hwr).
    destruct (IHl (m - length lbl - 1)%nat ltac:(lia) Hwl) as (lc & ->).
    destruct (IHr (m - length lbl - 1)%nat ltac:(lia) Hwr) as (rc & ->).
    cbn [bind]. rewrite <- enc_label_go_eq. unfold mk_cell.
    pose proof (enc_label_go_length m lbl). pose proof (lim_width_mono m n Hm).
    replace (1023 <? length (enc_label_go m lbl))%nat with false
      by (symmetry; apply Nat.ltb_ge; lia).
    cbn. eauto.
Qed.

Theorem encode_ok n vmax (kvs : list (bits * V)) :
  (forall v, length (fst (venc v)) <= vmax /\ length (snd (venc v)) <= 4)%nat ->
  (Nat.max 16 (2 + lim_width n + n) + vmax <= 1023)%nat ->
  sorted kvs -> keys_len n kvs ->
  exists c, encode_e venc n kvs = Ok c.
Proof.
  intros Hv Hfit Hs Hl. unfold encode_e. destruct kvs as [|kv0 kvs'] eqn:E.
  - cbn. eauto.
  - rewrite <- E in *.
    destruct (encode_is_canonical V venc n kvs Hs Hl ltac:(subst; discriminate))
      as (t & Hwf & Et & Ee).
    rewrite Ee.
    destruct (cells_of_go_ok n vmax t n Hv Hfit (le_n _) Hwf) as (c & ->).
    cbn. eauto.
Qed.

(** ** IntN keys: the slice is ordered numerically (negative keys first), the
    encoder still produces the canonical tree, decoding lists the non-negative
    keys first *)
Lemma signed_split n (m : list (bits * V)) :
  ksorted bits V signed_ltb m -> keys_len (S n) m ->
  exists L R, m = addp [true] R ++ addp [false] L /\
    sorted L /\ sorted R /\ keys_len n L /\ keys_len n R.
Proof.
  unfold ksorted, sorted, keys_len.
  induction m as [|[k v] t IH]; intros Hs Hl.
  - exists [], []. repeat split; constructor.
  - apply StronglySorted_inv in Hs. destruct Hs as [Hst Hall].
    apply Forall_cons_iff in Hl. destruct Hl as [Hk Hlt]. cbn [fst] in Hk.
    destruct (IH Hst Hlt) as (L & R & Et & HsL & HsR & HlL & HlR).
    destruct k as [|b k']; [discriminate|]. cbn [length] in Hk.
    assert (Hk' : length k' = n) by lia.
    destruct b.
    + exists L, ((k', v) :: R). cbn [addp map app fst snd] in *.
      repeat split; auto; try constructor; auto.
      * f_equal. exact Et.
      * rewrite Et in Hall. rewrite Forall_forall in *. intros [y u] Hin.
        specialize (Hall (true :: y, u)).
        unfold pair_lt, key_lt, bits_lt, signed_ltb, bits_ltb in *. cbn [fst flip_first negb bits_cmp] in *.
        destruct (bits_cmp k' y); try reflexivity;
          (exfalso; assert (false = true); [|discriminate]); apply Hall;
          apply in_or_app; left; apply in_map_iff; exists (y, u); split; auto.
    + destruct R as [|[x w] R0].
      * exists ((k', v) :: L), []. cbn [addp map app fst snd] in *.
        repeat split; auto; try constructor; auto.
        -- f_equal. exact Et.
        -- rewrite Et in Hall. rewrite Forall_forall in *. intros [y u] Hin.
           specialize (Hall (false :: y, u)).
           unfold pair_lt, key_lt, bits_lt, signed_ltb, bits_ltb in *.
           cbn [fst flip_first negb bits_cmp] in *.
           destruct (bits_cmp k' y); try reflexivity;
             (exfalso; assert (false = true); [|discriminate]); apply Hall;
             apply in_map_iff; exists (y, u); split; auto.
      * exfalso. rewrite Et in Hall. apply Forall_inv in Hall.
        unfold pair_lt, signed_ltb, bits_ltb in Hall. cbn in Hall. discriminate.
Qed.

Lemma lcp_go_diff x y a b : x <> y -> lcp_go (x :: a) (y :: b) = Ok [].
Proof.
  intros H. destruct a; [reflexivity|]. rewrite lcp_go_cons.
  destruct x, y; cbn; congruence.
Qed.

Lemma split_keys_app sk (A B : list (bits * V)) la ra lb rb :
  split_keys sk A = Ok (la, ra) -> split_keys sk B = Ok (lb, rb) ->
  split_keys sk (A ++ B) = Ok (la ++ lb, ra ++ rb).
Proof.
  revert la ra; induction A as [|[k v] A IH]; intros la ra HA HB.
  - cbn in HA. inversion HA; subst. exact HB.
  - cbn [app split_keys] in *. destruct (short sk k); [discriminate|].
    destruct (skipn sk k) as [|b k']; [discriminate|].
    apply bind_ok in HA. destruct HA as ([la' ra'] & HA' & HA).
    rewrite (IH la' ra' HA' HB). cbn [bind fst snd] in *.
    destruct b; inversion HA; subst; reflexivity.
Qed.

Theorem encode_decode_signed n (m : list (bits * V)) c :
  ksorted bits V signed_ltb m -> keys_len (S n) m -> m <> [] ->
  encode venc (S n) m = Ok c ->
  exists L R, m = addp [true] R ++ addp [false] L /\
              decode vdec (S n) c = Ok (addp [false] L ++ addp [true] R).
Proof.
  intros Hs Hl Hne Hc.
  destruct (signed_split n m Hs Hl) as (L & R & Em & HsL & HsR & HlL & HlR).
  exists L, R. split; [exact Em|].
  assert (HR : R = [] \/ R <> []) by (destruct R; [left; reflexivity|right; discriminate]).
  assert (HL : L = [] \/ L <> []) by (destruct L; [left; reflexivity|right; discriminate]).
  destruct HR as [ER|HneR]; [|destruct HL as [EL|HneL]].
  - subst R. change (addp [true] (@nil (bits * V))) with (@nil (bits * V)) in *.
    cbn [app] in Em. rewrite app_nil_r, <- Em.
    apply (encode_decode_dict V venc vdec vcodec (S n) m c); auto.
    rewrite Em. apply addp_sorted. exact HsL.
  - subst L. change (addp [false] (@nil (bits * V))) with (@nil (bits * V)) in *.
    rewrite app_nil_r in Em. cbn [app]. rewrite <- Em.
    apply (encode_decode_dict V venc vdec vcodec (S n) m c); auto.
    rewrite Em. apply addp_sorted. exact HsR.
  - destruct (sorted_tree_exists V n L HsL HlL HneL) as (tL & HwL & EtL).
    destruct (sorted_tree_exists V n R HsR HlR HneR) as (tR & HwR & EtR).
    assert (Henc : encode venc (S n) m = cells_of venc (S n) (annot_go V (Fork [] tL tR))).
    { clear Hc. unfold encode. rewrite Em.
      assert (HneAL : addp [false] L <> []).
      { intros H. apply (f_equal (@length _)) in H. rewrite addp_length in H.
        destruct L; [congruence|discriminate]. }
      destruct R as [|[kr vr] R0] eqn:ER; [congruence|].
      change (addp [true] ((kr, vr) :: R0)) with ((true :: kr, vr) :: addp [true] R0).
      rewrite <- app_comm_cons. lazy iota beta.
      rewrite encode_map_multi.
      2:{ intros H. apply app_eq_nil in H. destruct H as [_ H]. contradiction. }
      rewrite app_comm_cons, last_app_ne by exact HneAL.
      rewrite (last_addp_key V [false] L _ (kr, vr)) by exact HneL.
      cbn [app]. rewrite lcp_go_diff by discriminate. cbn [bind length].
      change ((true :: kr, vr) :: addp [true] R0 ++ addp [false] L)
        with (addp [true] ((kr, vr) :: R0) ++ addp [false] L).
      rewrite <- ER.
      rewrite (split_keys_app 0 _ _ [] R L []).
      2:{ apply (split_keys_right V [] R). }
      2:{ pose proof (split_keys_fork V [] L []) as H.
          change (addp ([] ++ [true]) (@nil (bits * V))) with (@nil (bits * V)) in H.
          rewrite app_nil_r in H. exact H. }
      cbn [app bind fst snd]. rewrite app_nil_r.
      replace (S n - 0 - 1)%nat with n by lia.
      match goal with |- context [encode_map venc ?f n L] => set (fu := f) end.
      assert (Hfu : (length L < fu /\ length R < fu)%nat).
      { unfold fu. rewrite app_length, !addp_length, ER. cbn [length].
        assert (0 < length L)%nat by (destruct L; [congruence|cbn; lia]). lia. }
      destruct Hfu as [HfL HfR]. clearbody fu.
      rewrite <- ER in EtR.
      rewrite <- EtL in HfL |- *. rewrite <- EtR in HfR |- *.
      rewrite !encode_map_tree by assumption.
      cbn [annot_go cells_of length]. replace (S n - 0 - 1)%nat with n by lia.
      rewrite enc_label_go_eq. reflexivity. }
    rewrite Henc in Hc.
    pose proof (decode_any_label_form V venc vdec vcodec (S n) (annot_go V (Fork [] tL tR)) c) as D.
    rewrite erase_annot_go in D.
    rewrite D; auto.
    + cbn [tree_to_list app]. rewrite (ttl_prefix V tL), (ttl_prefix V tR), EtL, EtR. reflexivity.
    + cbn [wf_pt length]. replace (S n - 0 - 1)%nat with n by lia. repeat split; auto; lia.
    + apply annot_go_valid.
Qed.

Theorem encode_decode_signed_e n (m : list (bits * V)) c :
  ksorted bits V signed_ltb m -> keys_len (S n) m ->
  encode_e venc (S n) m = Ok c ->
  exists L R, m = addp [true] R ++ addp [false] L /\ sorted L /\ sorted R /\
              decode_e vdec (S n) c = Ok (addp [false] L ++ addp [true] R).
Proof.
  intros Hs Hl Hc. unfold encode_e in Hc. destruct m as [|kv0 m'] eqn:Em.
  - apply mk_cell_ok in Hc. subst c. exists [], []. repeat split; constructor.
  - rewrite <- Em in *.
    apply bind_ok in Hc. destruct Hc as (c' & Hc' & Hc).
    apply mk_cell_ok in Hc. subst c. cbn [decode_e].
    destruct (signed_split n m Hs Hl) as (L0 & R0 & Em0 & HsL & HsR & HlL & HlR).
    destruct (encode_decode_signed n m c' Hs Hl ltac:(subst m; discriminate) Hc')
      as (L & R & Em' & Hd).
    (* the split is unique *)
    assert (E : L = L0 /\ R = R0).
    { clear - Em0 Em'. rewrite Em0 in Em'. clear Em0. revert R Em'.
      induction R0 as [|[k v] R0 IH]; intros R Em'.
      - destruct R as [|[k v] R].
        + cbn [addp map app] in Em'. split; [|reflexivity].
          revert L Em'. induction L0 as [|[k v] L0 IHL]; intros [|[k2 v2] L] E;
            cbn [map] in E; try discriminate; [reflexivity|].
          inversion E; subst. f_equal. apply IHL. assumption.
        + exfalso. cbn [addp map app fst snd] in Em'.
          destruct L0 as [|[k0 v0] L0]; cbn [map] in Em'; discriminate.
      - destruct R as [|[k2 v2] R].
        + exfalso. cbn [addp map app fst snd] in Em'.
          destruct L as [|[k0 v0] L]; cbn [map] in Em'; discriminate.
        + cbn [addp map app fst snd] in Em'. inversion Em' as [[Ek Ev Et]].
          destruct (IH R Et) as [-> ->]. auto. }
    destruct E as [-> ->]. exists L0, R0. auto.
Qed.

(** ** from a sequence of Puts to the decoded dictionary (bit-ordered key types) *)
Theorem puts_encode_decode n (l : list (bits * V)) c :
  NoDup (map fst l) -> keys_len n l ->
  let m := puts bits_eqb bits_ltb l [] in
  encode_e venc n m = Ok c ->
  decode_e vdec n c = Ok m /\ sorted m /\ (forall k v, In (k, v) m <-> In (k, v) l).
Proof.
  intros Hnd Hl m Hc.
  pose proof (put_sorted bits V bits_eqb bits_ltb bits_key_order l) as [Hs _].
  apply ksorted_bits_sorted in Hs.
  assert (Hin : forall k v, In (k, v) m <-> In (k, v) l).
  { intros k v. apply (get_puts_in bits V bits_eqb bits_ltb bits_key_order); exact Hnd. }
  repeat split; try apply Hin; auto.
  apply (encode_decode_dict_e V venc vdec vcodec n m c); auto.
  unfold keys_len in *. rewrite Forall_forall in *. intros [k v] H.
  apply Hl. apply Hin. exact H.
Qed.

(** the same for IntN keys: decoding lists the non-negative keys first *)
Theorem puts_encode_decode_signed n (l : list (bits * V)) c :
  NoDup (map fst l) -> keys_len (S n) l ->
  let m := puts bits_eqb signed_ltb l [] in
  encode_e venc (S n) m = Ok c ->
  (forall k v, In (k, v) m <-> In (k, v) l) /\
  exists L R, m = addp [true] R ++ addp [false] L /\ sorted L /\ sorted R /\
              decode_e vdec (S n) c = Ok (addp [false] L ++ addp [true] R).
Proof.
  intros Hnd Hl m Hc.
  pose proof (put_sorted bits V bits_eqb signed_ltb signed_key_order l) as [Hs _].
  assert (Hin : forall k v, In (k, v) m <-> In (k, v) l).
  { intros k v. apply (get_puts_in bits V bits_eqb signed_ltb signed_key_order); exact Hnd. }
  split; [exact Hin|].
  apply encode_decode_signed_e; auto.
  unfold keys_len in *. rewrite Forall_forall in *. intros [k v] H.
  apply Hl. apply Hin. exact H.
Qed.

End Codec.

(** ** refutation witnesses (findings; the model is faithful to the defects) *)

(* F19: tlb.AddressWithWorkchain declares FixedSize 288 but its encoding has
   264 bits.  Workchain -1, address 0, one entry. *)
Lemma address_key_refuted :
  let k := repeat true 8 ++ repeat false 256 in
  exists c, encode_e venc_bit 288 [(k, true)] = Ok c /\
            decode_e vdec_bit 288 c = Err ENotEnoughRefs.
Proof. vm_compute. eexists. split; reflexivity. Qed.

(* A decoded IntN-keyed dictionary lists non-negative keys before negative
   ones, i.e. it is not sorted by Compare.  Put of a new key then inserts at a
   position that breaks encodeMap's first/last-key assumption.  Int8 keys
   {1, -3}, Put(-64): the re-encoded dictionary maps -63 instead of 1. *)
Lemma signed_put_after_decode_refuted :
  let k1 := bits_of 8 1 in let k3 := bits_of 8 253 in let k64 := bits_of 8 192 in
  let m := [(k1, false); (k3, true)] in
  sorted m /\ keys_len 8 m /\
  exists c c', encode_e venc_bit 8 m = Ok c /\ decode_e vdec_bit 8 c = Ok m /\
    encode_e venc_bit 8 (put bits_eqb signed_ltb k64 true m) = Ok c' /\
    decode_e vdec_bit 8 c' = Ok [(k64, true); (bits_of 8 193, false); (k3, true)].
Proof.
  cbn zeta. split; [|split].
  - repeat constructor.
  - repeat constructor.
  - vm_compute. eexists. eexists. repeat split; reflexivity.
Qed.

(** the serialised dictionary does not depend on the insertion order *)
Theorem encode_order_independent {V} (venc : V -> bits * list cell) keq klt n (l1 l2 : list (bits * V)) :
  key_order keq klt -> NoDup (map fst l1) -> Permutation l1 l2 ->
  encode_e venc n (puts keq klt l1 []) = encode_e venc n (puts keq klt l2 []).
Proof.
  intros KO Hnd Hp. rewrite (put_order_independent bits V keq klt KO l1 l2 Hnd Hp). reflexivity.
Qed.

Lemma vcodec_bit : forall v, vdec_bit (fst (venc_bit v)) (snd (venc_bit v)) = Some v.
Proof. reflexivity. Qed.

Lemma vcodec_any : forall v, vdec_any (fst (venc_any v)) (snd (venc_any v)) = Some v.
Proof. intros [b rs]. reflexivity. Qed.

(** Get / Put on a decoded dictionary of a bit-ordered key type agree with
    lookup / update of the abstract map *)
Theorem get_put_agree {V} (m : list (bits * V)) k v :
  sorted m ->
  put bits_eqb bits_ltb k v m = update k v m /\
  sorted (put bits_eqb bits_ltb k v m) /\
  (forall k', get bits_eqb k' m = lookup k' m) /\
  (forall k', lookup k' (update k v m) = if bits_eqb k k' then Some v else lookup k' m).
Proof.
  intros Hs. split; [|split; [|split]].
  - apply (put_update V). exact Hs.
  - apply ksorted_bits_sorted. apply (put_ksorted bits V bits_eqb bits_ltb bits_key_order).
    apply ksorted_bits_sorted. exact Hs.
  - intros k'. exact (get_lookup V k' m).
  - intros k'. rewrite <- (put_update V) by exact Hs. rewrite <- !(get_lookup V).
    apply (get_put bits V bits_eqb bits_ltb bits_key_order).
Qed.
