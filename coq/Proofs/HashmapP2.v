(** C05, second part: the label form boundary, when the encoder succeeds, the
    end-to-end statements from a sequence of Puts (every key type), Get / Put on
    a decoded dictionary followed by Marshal / Unmarshal (every key type). *)
From Coq Require Import List NArith Arith Lia Bool Sorted Permutation.
From Tongo Require Import Lib.Bits Lib.Res Spec.Dict Model.Hashmap
  Proofs.DictP Proofs.HashmapPut Proofs.HashmapSort Proofs.HashmapP.
Import ListNotations.

(** ** the label form boundary *)
Theorem label_choice_boundary m lbl :
  ((length lbl < 8)%nat -> enc_label_go m lbl = hml_short lbl) /\
  ((8 <= length lbl)%nat -> enc_label_go m lbl = hml_long m lbl) /\
  (forall rest room, (length lbl <= m)%nat -> (length lbl <= room)%nat ->
     load_label m room (enc_label_go m lbl ++ rest) = Ok (lbl, rest) /\
     load_label m room (hml_short lbl ++ rest) = Ok (lbl, rest) /\
     load_label m room (hml_long m lbl ++ rest) = Ok (lbl, rest)).
Proof.
  repeat split.
  - intros H. rewrite enc_label_go_eq. unfold go_form.
    replace (length lbl <? 8)%nat with true by (symmetry; apply Nat.ltb_lt; lia). reflexivity.
  - intros H. rewrite enc_label_go_eq. unfold go_form.
    replace (length lbl <? 8)%nat with false by (symmetry; apply Nat.ltb_ge; lia). reflexivity.
  - rewrite enc_label_go_eq. apply load_label_enc; auto. apply go_form_valid.
  - apply (load_label_enc FShort); auto. exact I.
  - apply (load_label_enc FLong); auto. exact I.
Qed.

(** ** #<= m is monotone *)
Lemma lim_width_mono a b : (a <= b)%nat -> (lim_width a <= lim_width b)%nat.
Proof.
  intros H. unfold lim_width.
  assert (N.size (N.of_nat a) <= N.size (N.of_nat b))%N; [|lia].
  destruct (N.eq_dec (N.of_nat a) 0) as [E|E]; [rewrite E; cbn; lia|].
  rewrite !N.size_log2 by lia.
  apply -> N.succ_le_mono. apply N.log2_le_mono. lia.
Qed.

Lemma enc_label_go_length m lbl :
  (length (enc_label_go m lbl) <= Nat.max 16 (2 + lim_width m + length lbl))%nat.
Proof.
  unfold enc_label_go. destruct (length lbl <? 8)%nat eqn:E.
  - apply Nat.ltb_lt in E. cbn [length]. rewrite !app_length. unfold ones.
    rewrite repeat_length. cbn [length]. lia.
  - cbn [length]. rewrite app_length, bits_of_length. lia.
Qed.

Section Codec.
Variable V : Type.
Variable venc : V -> bits * list cell.
Variable vdec : bits -> list cell -> option V.
Hypothesis vcodec : forall v, vdec (fst (venc v)) (snd (venc v)) = Some v.

(** ** the encoder succeeds when label + value fit into a cell *)
Lemma cells_of_go_ok n vmax (t : pt V) : forall m,
  (forall v, length (fst (venc v)) <= vmax /\ length (snd (venc v)) <= 4)%nat ->
  (Nat.max 16 (2 + lim_width n + n) + vmax <= 1023)%nat ->
  (m <= n)%nat -> wf_pt m t ->
  exists c, cells_of venc m (annot_go V t) = Ok c.
Proof.
  intros m Hv Hfit. revert m.
  induction t as [lbl v|lbl l IHl r IHr]; intros m Hm Hwf; cbn [annot_go cells_of wf_pt] in *.
  - rewrite <- enc_label_go_eq. unfold mk_cell.
    pose proof (enc_label_go_length m lbl). pose proof (lim_width_mono m n Hm).
    destruct (Hv v) as [Hvb Hvr].
    replace (1023 <? length (enc_label_go m lbl ++ fst (venc v)))%nat with false
      by (symmetry; apply Nat.ltb_ge; rewrite app_length; lia).
    replace (4 <? length (snd (venc v)))%nat with false
      by (symmetry; apply Nat.ltb_ge; lia).
    eauto.
  - destruct Hwf as (Hlen & Hwl & Hwr).
    destruct (IHl (m - length lbl - 1)%nat ltac:(lia) Hwl) as (lc & ->).
    destruct (IHr (m - length lbl - 1)%nat ltac:(lia) Hwr) as (rc & ->).
    cbn [bind]. rewrite <- enc_label_go_eq. unfold mk_cell.
    pose proof (enc_label_go_length m lbl). pose proof (lim_width_mono m n Hm).
    replace (1023 <? length (enc_label_go m lbl))%nat with false
      by (symmetry; apply Nat.ltb_ge; lia).
    cbn. eauto.
Qed.

Theorem encode_ok n vmax (kvs : list (bits * V)) :
  (forall v, length (fst (venc v)) <= vmax /\ length (snd (venc v)) <= 4)%nat ->
  (Nat.max 16 (2 + lim_width n + n) + vmax <= 1023)%nat ->
  NoDup (map fst kvs) -> keys_len n kvs ->
  exists c, encode_e venc n kvs = Ok c.
Proof.
  intros Hv Hfit Hs Hl. unfold encode_e. destruct kvs as [|kv0 kvs'] eqn:E.
  - cbn. eauto.
  - rewrite <- E in *.
    destruct (encode_is_canonical V venc n kvs Hs Hl ltac:(subst; discriminate))
      as (t & Hwf & Et & Ee).
    rewrite Ee.
    destruct (cells_of_go_ok n vmax t n Hv Hfit (le_n _) Hwf) as (c & ->).
    cbn. eauto.
Qed.

(** ** IntN keys: the slice Put maintains is ordered numerically, negative keys
    (first bit 1) first — it is NOT in bit order, which is why MarshalTLB sorts *)
Lemma signed_split n (m : list (bits * V)) :
  ksorted bits V signed_ltb m -> keys_len (S n) m ->
  exists L R, m = addp [true] R ++ addp [false] L /\
    sorted L /\ sorted R /\ keys_len n L /\ keys_len n R.
Proof.
  unfold ksorted, sorted, keys_len.
  induction m as [|[k v] t IH]; intros Hs Hl.
  - exists [], []. repeat split; constructor.
  - apply StronglySorted_inv in Hs. destruct Hs as [Hst Hall].
    apply Forall_cons_iff in Hl. destruct Hl as [Hk Hlt]. cbn [fst] in Hk.
    destruct (IH Hst Hlt) as (L & R & Et & HsL & HsR & HlL & HlR).
    destruct k as [|b k']; [discriminate|]. cbn [length] in Hk.
    assert (Hk' : length k' = n) by lia.
    destruct b.
    + exists L, ((k', v) :: R). cbn [addp map app fst snd] in *.
      repeat split; auto; try constructor; auto.
      * f_equal. exact Et.
      * rewrite Et in Hall. rewrite Forall_forall in *. intros [y u] Hin.
        specialize (Hall (true :: y, u)).
        unfold pair_lt, key_lt, bits_lt, signed_ltb, bits_ltb in *. cbn [fst flip_first negb bits_cmp] in *.
        destruct (bits_cmp k' y); try reflexivity;
          (exfalso; assert (false = true); [|discriminate]); apply Hall;
          apply in_or_app; left; apply in_map_iff; exists (y, u); split; auto.
    + destruct R as [|[x w] R0].
      * exists ((k', v) :: L), []. cbn [addp map app fst snd] in *.
        repeat split; auto; try constructor; auto.
        -- f_equal. exact Et.
        -- rewrite Et in Hall. rewrite Forall_forall in *. intros [y u] Hin.
           specialize (Hall (false :: y, u)).
           unfold pair_lt, key_lt, bits_lt, signed_ltb, bits_ltb in *.
           cbn [fst flip_first negb bits_cmp] in *.
           destruct (bits_cmp k' y); try reflexivity;
             (exfalso; assert (false = true); [|discriminate]); apply Hall;
             apply in_map_iff; exists (y, u); split; auto.
      * exfalso. rewrite Et in Hall. apply Forall_inv in Hall.
        unfold pair_lt, signed_ltb, bits_ltb in Hall. cbn in Hall. discriminate.
Qed.

(** ** from a sequence of Puts to the decoded dictionary, for every key type
    (klt = Compare of the key type, any strict total order) *)
Section AnyOrder.
Variable klt : bits -> bits -> bool.
Hypothesis KO : key_order bits_eqb klt.

Lemma bsort_puts_nil (l : list (bits * V)) :
  NoDup (map fst l) -> bsort (puts bits_eqb klt l []) = bsort l.
Proof.
  intros Hnd. apply bsort_ext; [apply (puts_nodup V klt KO); constructor|exact Hnd|].
  intros k. rewrite (proj2 (put_sorted bits V bits_eqb klt KO l)).
  symmetry. apply (get_perm bits V bits_eqb klt KO); [exact Hnd|apply Permutation_rev].
Qed.

Theorem puts_encode_decode n (l : list (bits * V)) c :
  NoDup (map fst l) -> keys_len n l ->
  encode_e venc n (puts bits_eqb klt l []) = Ok c ->
  decode_e vdec n c = Ok (bsort l) /\ sorted (bsort l) /\ Permutation l (bsort l).
Proof.
  intros Hnd Hl Hc. split; [|split; [apply bsort_sorted; exact Hnd|apply bsort_perm]].
  rewrite <- (bsort_puts_nil l Hnd).
  apply (encode_decode_dict_e V venc vdec vcodec n); [| |exact Hc].
  - apply (puts_nodup V klt KO). constructor.
  - apply (puts_keys_len V klt n); [exact Hl|constructor].
Qed.

(** ** Get / Put on a dictionary in ascending bit order (what decoding returns),
    then Marshal / Unmarshal: everything agrees with lookup / update of the
    abstract map *)
Theorem ops_agree n (m0 l : list (bits * V)) :
  sorted m0 -> keys_len n m0 -> keys_len n l ->
  let mf := puts bits_eqb klt l m0 in
  (forall k, get bits_eqb k mf = lookup k (updates l m0)) /\
  sorted (updates l m0) /\ keys_len n (updates l m0) /\
  (forall c, encode_e venc n mf = Ok c -> decode_e vdec n c = Ok (updates l m0)).
Proof.
  intros Hs Hl0 Hl mf.
  pose proof (sorted_nodup V m0 Hs) as Hnd.
  pose proof (bsort_id V m0 Hs) as Hid.
  split; [|split; [|split]].
  - intros k. unfold mf. rewrite (get_puts_lookup V klt KO l m0 k Hnd), Hid. reflexivity.
  - apply updates_sorted. exact Hs.
  - apply updates_keys_len; assumption.
  - intros c Hc. rewrite <- Hid at 1. rewrite <- (bsort_puts V klt KO l m0 Hnd).
    apply (encode_decode_dict_e V venc vdec vcodec n); [| |exact Hc].
    + apply (puts_nodup V klt KO). exact Hnd.
    + apply (puts_keys_len V klt n); assumption.
Qed.

(** the same, starting from the cells of ANY valid dictionary *)
Theorem decoded_ops_agree n (t : option (apt V)) c0 (l : list (bits * V)) :
  (forall a, t = Some a -> wf_pt n (erase a) /\ forms_valid a) ->
  cells_of_e venc n t = Ok c0 -> keys_len n l ->
  exists m0, decode_e vdec n c0 = Ok m0 /\ sorted m0 /\ keys_len n m0 /\
    let mf := puts bits_eqb klt l m0 in
    (forall k, get bits_eqb k mf = lookup k (updates l m0)) /\
    (forall c, encode_e venc n mf = Ok c -> decode_e vdec n c = Ok (updates l m0)).
Proof.
  intros Hw Hc0 Hl.
  exists (match t with Some a => tree_to_list [] (erase a) | None => [] end).
  assert (Hsl : sorted (match t with Some a => tree_to_list [] (erase a) | None => [] end) /\
                keys_len n (match t with Some a => tree_to_list [] (erase a) | None => [] end)).
  { destruct t as [a|]; [|split; constructor].
    destruct (Hw a eq_refl) as [Hwf _]. split; [apply ttl_sorted|apply ttl_keys_len; exact Hwf]. }
  destruct Hsl as [Hs Hl0].
  split; [apply (decode_e_any_label_form V venc vdec vcodec); assumption|].
  split; [exact Hs|]. split; [exact Hl0|].
  destruct (ops_agree n _ l Hs Hl0 Hl) as (Hg & _ & _ & Hd). split; assumption.
Qed.

End AnyOrder.
End Codec.

(** the serialised dictionary does not depend on the insertion order *)
Theorem encode_order_independent {V} (venc : V -> bits * list cell) keq klt n (l1 l2 : list (bits * V)) :
  key_order keq klt -> NoDup (map fst l1) -> Permutation l1 l2 ->
  encode_e venc n (puts keq klt l1 []) = encode_e venc n (puts keq klt l2 []).
Proof.
  intros KO Hnd Hp. rewrite (put_order_independent bits V keq klt KO l1 l2 Hnd Hp). reflexivity.
Qed.

Lemma vcodec_bit : forall v, vdec_bit (fst (venc_bit v)) (snd (venc_bit v)) = Some v.
Proof. reflexivity. Qed.

Lemma vcodec_any : forall v, vdec_any (fst (venc_any v)) (snd (venc_any v)) = Some v.
Proof. intros [b rs]. reflexivity. Qed.

(** Get / Put on a decoded dictionary of a bit-ordered key type agree with
    lookup / update of the abstract map *)
Theorem get_put_agree {V} (m : list (bits * V)) k v :
  sorted m ->
  put bits_eqb bits_ltb k v m = update k v m /\
  sorted (put bits_eqb bits_ltb k v m) /\
  (forall k', get bits_eqb k' m = lookup k' m) /\
  (forall k', lookup k' (update k v m) = if bits_eqb k k' then Some v else lookup k' m).
Proof.
  intros Hs. split; [|split; [|split]].
  - apply (put_update V). exact Hs.
  - apply ksorted_bits_sorted. apply (put_ksorted bits V bits_eqb bits_ltb bits_key_order).
    apply ksorted_bits_sorted. exact Hs.
  - intros k'. exact (get_lookup V k' m).
  - intros k'. rewrite <- (put_update V) by exact Hs. rewrite <- !(get_lookup V).
    apply (get_put bits V bits_eqb bits_ltb bits_key_order).
Qed.
