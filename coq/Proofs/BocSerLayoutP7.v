(** C01 — the serialiser model succeeds, part 7: [serialize_succeeds].  On a
    well-formed input array in which every cell has a hash, with 1..8 roots
    inside the array, fewer than 2^24 cells and no reference path from a root
    longer than 1024 (the documented depth limit of [importCell]), [serialize]
    returns [Ok]: no panic, no [EDepth], and the output never overflows the
    capacity [(1023 + 32*4 + 32*3) * cellCount] bits of the output bit string
    ([ESer]). *)
From Coq Require Import List NArith ZArith Arith Bool Lia Permutation.
From Tongo Require Import Lib.Bits Lib.Res Spec.Crc32c Model.BitString Model.BocParse Model.CellHash
  Model.BocSer Spec.BocLayout Proofs.BocParseP Proofs.BocLayoutP
  Proofs.BocReorderP1 Proofs.BocReorderP2 Proofs.BocReorderP3 Proofs.BocReorderP4
  Proofs.BocSerLayoutP1 Proofs.BocSerLayoutP2 Proofs.BocSerLayoutP3 Proofs.BocSerLayoutP4
  Proofs.BocSerLayoutP5 Proofs.BocSerLayoutP6.
Import ListNotations.

(** *** length of the layout *)
Lemma body_len_eq dag st nl idx hasCrc cacheBits (ri : list nat) :
  body_len (out_variant dag st nl idx hasCrc cacheBits) (out_cells dag st nl) ri
  = 6 + 3 * out_size nl + out_off dag st nl + out_size nl * length ri
    + (if idx then out_off dag st nl * length nl else 0) + length (out_data dag st nl).
Proof.
  unfold body_len. replace (has_crc _) with hasCrc by reflexivity.
  unfold out_variant at 1. rewrite layout_generic. cbv zeta.
  fold (out_variant dag st nl idx hasCrc cacheBits). rewrite cells_data_out.
  set (body := (magic_reach ++ _) ++ _).
  assert (Hb : length body = 6 + 3 * out_size nl + out_off dag st nl + out_size nl * length ri
                 + (if idx then out_off dag st nl * length nl else 0) + length (out_data dag st nl)).
  { unfold body. rewrite !app_length, !be_length.
    fold (be_list (out_size nl) ri). rewrite be_list_length.
    assert (Hi : length (if idx then s_index idx (out_off dag st nl) (out_offsets dag st nl cacheBits) else [])
                 = if idx then out_off dag st nl * length nl else 0).
    { destruct idx; [|reflexivity]. rewrite s_index_be, flat_be_length, rev_length, out_offsets_length.
      reflexivity. }
    rewrite Hi. cbn [length magic_reach]. lia. }
  destruct hasCrc; [rewrite app_length, rev_length, be_length|]; lia.
Qed.

Lemma out_data_len_size dag st nl :
  infos_ok dag (map (get_ci st) nl) ->
  length (out_data dag st nl) <= (130 + 4 * out_size nl) * length nl.
Proof.
  intros H. pose proof (out_cells_ok dag st nl (out_size nl) H) as Hok.
  rewrite <- (out_cells_length dag st nl) in Hok at 2.
  pose proof (cells_len _ _ _ _ Hok) as Hl. rewrite out_cells_length in Hl. exact Hl.
Qed.

(** the capacity of the output bit string is never exceeded with 1..8 roots *)
Lemma capacity_ok dag st nl idx hasCrc cacheBits (ri : list nat) :
  infos_ok dag (map (get_ci st) nl) -> (N.of_nat (length nl) < 2 ^ 24)%N ->
  1 <= length nl -> length ri <= 8 ->
  (s_capacity (length nl)
   <? 8 * N.of_nat (body_len (out_variant dag st nl idx hasCrc cacheBits) (out_cells dag st nl) ri))%N
  = false.
Proof.
  intros H Hn H1 Hk. apply N.ltb_ge. unfold s_capacity. rewrite body_len_eq.
  pose proof (out_size_small nl Hn) as Hs. pose proof (out_off_small dag st nl H Hn) as Ho.
  pose proof (out_data_len_size dag st nl H) as HD.
  set (s := out_size nl) in *. set (o := out_off dag st nl) in *. set (n := length nl) in *.
  set (D := length (out_data dag st nl)) in *. set (k := length ri) in *.
  assert (Hfit : (N.of_nat n < 256 ^ N.of_nat s)%N) by (apply byte_len_fits).
  assert (Hidx : (if idx then o * n else 0) <= o * n) by (destruct idx; lia).
  assert (Hgoal : 8 * (6 + 3 * s + o + s * k + o * n + D) <= 1247 * n).
  { assert (Hs3 : s = 1 \/ s = 2 \/ s = 3) by lia. destruct Hs3 as [Es|[Es|Es]]; rewrite Es in *.
    - change (256 ^ N.of_nat 1)%N with 256%N in Hfit.
      assert (Ho2 : o <= 2).
      { apply byte_len_le; [lia|]. change (256 ^ N.of_nat 2)%N with 65536%N. fold D. lia. }
      assert (o * n <= 2 * n) by (apply Nat.mul_le_mono_r; exact Ho2). lia.
    - assert (Hn256 : 256 <= n).
      { destruct (Nat.le_gt_cases 256 n) as [G|G]; [exact G|exfalso].
        assert (s <= 1); [|lia].
        apply byte_len_le; [lia|]. change (256 ^ N.of_nat 1)%N with 256%N. fold n. lia. }
      change (256 ^ N.of_nat 2)%N with 65536%N in Hfit.
      assert (Ho3 : o <= 3).
      { apply byte_len_le; [lia|]. change (256 ^ N.of_nat 3)%N with 16777216%N. fold D. lia. }
      assert (o * n <= 3 * n) by (apply Nat.mul_le_mono_r; exact Ho3). lia.
    - assert (Hn65536 : (65536 <= N.of_nat n)%N).
      { destruct (N.le_gt_cases 65536 (N.of_nat n)) as [G|G]; [exact G|exfalso].
        assert (s <= 2); [|lia].
        apply byte_len_le; [lia|]. change (256 ^ N.of_nat 2)%N with 65536%N. fold n. lia. }
      assert (o * n <= 4 * n) by (apply Nat.mul_le_mono_r; lia). lia. }
  lia.
Qed.

(** *** the import phase succeeds *)
Section Succ.
Variable dag : list node.
Variable hashes : list (res bytes).
Hypothesis Hwf : dag_wf dag.
(* every cell has a hash *)
Hypothesis Hall : forall c, c < length dag -> exists h, nth_error hashes c = Some (Ok h).
(* depth limit: no reference path from a root is longer than 1024 *)
Variable rank : nat -> nat.
Hypothesis Hrank : forall c nd r, nth_error dag c = Some nd -> In r (n_refs nd) -> rank r < rank c.

Lemma iloop_ok (ic : icT) : forall rs st m acc sum,
  (forall r, In r rs -> forall st m, exists x, ic st m r = Ok x) ->
  exists y, iloop ic rs st m acc sum = Ok y.
Proof.
  induction rs as [|r t IH]; intros st m acc sum H; cbn [iloop]; [eexists; reflexivity|].
  destruct (H r (or_introl eq_refl) st m) as [[[st1 m1] pos] E]. rewrite E. cbn [bind].
  apply IH. intros r' Hr'. apply H. right. exact Hr'.
Qed.

Lemma import_ok : forall fuel st m cell depth,
  length dag - cell < fuel -> cell < length dag -> depth + rank cell <= 1024 ->
  exists x, import_cell dag hashes fuel st m cell depth = Ok x.
Proof.
  induction fuel as [|f IH]; intros st m cell depth Hf Hc Hd; [lia|].
  rewrite import_cell_S.
  assert (Hdep : (1024 <? depth) = false) by (apply Nat.ltb_ge; lia). rewrite Hdep.
  destruct (Hall cell Hc) as [h Eh]. rewrite Eh.
  destruct (nth_error dag cell) as [nd|] eqn:End; [|apply nth_error_None in End; lia].
  cbn [bind]. destruct (find_hash h m) as [pos|]; [eexists; reflexivity|].
  destruct (iloop_ok (fun st m r => import_cell dag hashes f st m r (S depth)) (n_refs nd) st m [] 1)
    as [[[[st1 m1] refs] sum] E].
  { intros r Hr st' m'.
    pose proof (dag_wf_nth _ _ 0 cell nd Hwf End) as (_ & _ & Hfw). rewrite Forall_forall in Hfw.
    specialize (Hfw r Hr). cbv beta in Hfw. specialize (Hrank cell nd r End Hr).
    apply IH; lia. }
  rewrite E. cbn [bind]. eexists. reflexivity.
Qed.

Lemma iroots_ok : forall roots s,
  Forall (fun r => r < length dag) roots -> (forall r, In r roots -> rank r <= 1024) ->
  exists x, for_roots (iroots_step dag hashes) s roots = Ok x.
Proof.
  induction roots as [|r t IH]; intros [[st m] acc] Hin Hrk; cbn [for_roots]; [eexists; reflexivity|].
  inversion Hin as [|? ? Hr Ht]; subst. unfold iroots_step at 1.
  destruct (import_ok (S (length dag)) st m r 0 ltac:(lia) Hr) as [[[st1 m1] pos] E].
  { specialize (Hrk r (or_introl eq_refl)). lia. }
  rewrite E. cbn [bind]. apply IH; [exact Ht|]. intros r' Hr'. apply Hrk. right. exact Hr'.
Qed.

Hypothesis Hok : Forall node_ok dag.
Hypothesis Hhl : Forall (fun rh => exists h, rh = Ok h) hashes.

Lemma all_real : hashes_real hashes.
Proof.
  intros cell e Hc. rewrite Forall_forall in Hhl.
  destruct (Hhl _ (nth_error_In _ _ Hc)) as [h Eh]. discriminate.
Qed.

Theorem serialize_succeeds roots idx hasCrc cacheBits :
  (N.of_nat (length dag) < 2 ^ 24)%N ->
  Forall (fun r => r < length dag) roots -> 1 <= length roots <= 8 ->
  (forall r, In r roots -> rank r <= 1024) ->
  exists bs, serialize dag hashes roots idx hasCrc cacheBits = Ok bs.
Proof.
  intros Hcnt Hin Hnr Hrk.
  destruct (iroots_ok roots ([], [], []) Hin Hrk) as [[[st0 m] rootpos] EP].
  fold (import_phase dag hashes roots) in EP.
  pose proof (import_phase_valid dag hashes (dag_wf_fwd dag Hwf) all_real roots) as HV.
  rewrite EP in HV. destruct HV as (Hpre & Hacc & _).
  destruct (reorder_valid st0 rootpos Hpre Hacc) as (stf & nl & ER & _).
  assert (EI : import_roots dag hashes roots = Ok (stf, nl, map (newidx stf) rootpos)).
  { rewrite import_roots_eq. fold (import_phase dag hashes roots). rewrite EP. cbn [bind]. exact ER. }
  pose proof (import_roots_facts dag hashes Hwf all_real roots) as HF. rewrite EI in HF.
  destruct HF as (st0' & m' & rootpos' & Emap & Himp).
  pose proof Himp as (EP' & _). rewrite EP in EP'. injection EP' as <- <- <-.
  pose proof (imported_infos_ok dag hashes Hwf Hok roots _ _ _ _ _ Himp) as Hio.
  destruct (imported_count dag hashes roots _ _ _ _ _ Himp) as [Hn Hle].
  pose proof Himp as (_ & _ & _ & _ & _ & _ & HF2).
  pose proof (Forall2_length HF2) as Hlr.
  assert (Hn1 : 1 <= length nl).
  { destruct rootpos as [|p0 t]; [cbn [length] in Hlr; lia|].
    specialize (Hacc p0 (or_introl eq_refl)). lia. }
  assert (HnN : (N.of_nat (length nl) < 2 ^ 24)%N) by lia.
  rewrite serialize_eq, EI. cbn [bind].
  rewrite (ser_out_is_layout dag stf nl _ idx hasCrc cacheBits Hio HnN). cbv zeta.
  rewrite capacity_ok; [eexists; reflexivity|exact Hio|exact HnN|exact Hn1|].
  unfold out_roots. rewrite !map_length. lia.
Qed.

End Succ.

(** the same with the hypotheses in their plain form *)
Definition depth_ok (dag : list node) (roots : list nat) : Prop :=
  exists rank : nat -> nat,
    (forall c nd r, nth_error dag c = Some nd -> In r (n_refs nd) -> rank r < rank c) /\
    (forall r, In r roots -> rank r <= 1024).

Definition all_hashed (dag : list node) (hashes : list (res bytes)) : Prop :=
  length dag <= length hashes /\ Forall (fun rh => exists h, rh = Ok h) hashes.

Corollary serialize_succeeds_ok dag hashes roots idx hasCrc cacheBits :
  dag_wf dag -> Forall node_ok dag -> all_hashed dag hashes ->
  (N.of_nat (length dag) < 2 ^ 24)%N ->
  Forall (fun r => r < length dag) roots -> 1 <= length roots <= 8 ->
  depth_ok dag roots ->
  exists bs, serialize dag hashes roots idx hasCrc cacheBits = Ok bs.
Proof.
  intros Hwf Hok [Hlen Hhl] Hcnt Hin Hnr (rank & Hrank & Hrk).
  apply (serialize_succeeds dag hashes Hwf) with (rank := rank); try assumption.
  intros c Hc. destruct (nth_error hashes c) as [rh|] eqn:E.
  - rewrite Forall_forall in Hhl. destruct (Hhl rh (nth_error_In _ _ E)) as [h ->]. exists h. reflexivity.
  - apply nth_error_None in E. lia.
Qed.

(** end to end: serialisation succeeds, the parser accepts the bytes, and every
    parsed root unfolds to the tree of the input root *)
Corollary boc_roundtrip_total dag hashes roots idx hasCrc cacheBits :
  dag_wf dag -> Forall node_ok dag -> all_hashed dag hashes ->
  (N.of_nat (length dag) < 2 ^ 24)%N ->
  Forall (fun r => r < length dag) roots -> 1 <= length roots <= 8 ->
  depth_ok dag roots -> collision_free dag hashes roots ->
  exists bs p,
    serialize dag hashes roots idx hasCrc cacheBits = Ok bs /\ parse_boc bs = Ok p /\
    dag_wf (p_cells p) /\
    Forall2 (fun r' r => exists t, unfold_at (length dag) dag r = Some t /\
                                   unfold_at (length (p_cells p)) (p_cells p) r' = Some t)
            (p_roots p) roots.
Proof.
  intros Hwf Hok Hah Hcnt Hin Hnr Hd Hcf.
  destruct (serialize_succeeds_ok dag hashes roots idx hasCrc cacheBits Hwf Hok Hah Hcnt Hin Hnr Hd)
    as [bs E].
  assert (Hreal : hashes_real hashes).
  { destruct Hah as [_ Hhl]. intros cell e Hc. rewrite Forall_forall in Hhl.
    destruct (Hhl _ (nth_error_In _ _ Hc)) as [h Eh]. discriminate. }
  destruct (boc_roundtrip_model dag hashes roots Hwf Hok Hreal Hcnt ltac:(lia) Hcf idx hasCrc cacheBits bs E)
    as (p & st0 & m & rootpos & stf & nl & Ep & _ & _ & _ & Hw & HF).
  exists bs, p. split; [exact E|]. split; [exact Ep|]. split; [exact Hw|exact HF].
Qed.
