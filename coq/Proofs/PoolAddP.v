(** addConnection keeps the pool in configuration order whatever the arrival order of
    the connections (Model/Pool.v add_all), so "first in pool order" — what
    findFirstWorkingConnection returns — is "first in configuration order". *)
From Coq Require Import List NArith ZArith Bool Arith Lia Sorting.Sorted Sorting.Permutation.
From Tongo Require Import Model.Pool Proofs.PoolP.
Import ListNotations.

Lemma insert_id_perm x l : Permutation (x :: l) (insert_id x l).
Proof.
  induction l as [|y t IH]; cbn [insert_id]; [apply Permutation_refl|].
  destruct (Nat.leb x y); [apply Permutation_refl|].
  eapply perm_trans; [apply perm_swap|]. apply perm_skip. exact IH.
Qed.

Lemma sort_ids_perm l : Permutation l (sort_ids l).
Proof.
  induction l as [|x t IH]; cbn [sort_ids fold_right]; [apply perm_nil|].
  eapply perm_trans; [apply perm_skip; exact IH|]. apply insert_id_perm.
Qed.

Lemma insert_id_sorted x l : StronglySorted le l -> StronglySorted le (insert_id x l).
Proof.
  induction 1 as [|y t Hs IH Hall]; cbn [insert_id]; [repeat constructor|].
  destruct (Nat.leb_spec x y) as [Hle|Hgt].
  - constructor; [constructor; assumption|]. constructor; [exact Hle|].
    eapply Forall_impl; [|exact Hall]. intros z Hz. lia.
  - constructor; [exact IH|].
    eapply Permutation_Forall; [apply insert_id_perm|]. constructor; [lia|exact Hall].
Qed.

Lemma sort_ids_sorted l : StronglySorted le (sort_ids l).
Proof.
  induction l as [|x t IH]; cbn [sort_ids fold_right]; [constructor|]. apply insert_id_sorted. exact IH.
Qed.

(** after every sequence of addConnection calls the pool consists of exactly the
    connections that arrived, in ascending id order *)
Theorem add_all_sorted arrival :
  StronglySorted le (add_all arrival) /\ Permutation arrival (add_all arrival).
Proof.
  unfold add_all. rewrite <- (rev_involutive arrival). generalize (rev arrival) as r. clear arrival.
  induction r as [|x t [IHs IHp]]; cbn [rev]; [split; constructor|].
  rewrite fold_left_app. cbn [fold_left]. unfold add_connection at 1. split; [apply sort_ids_sorted|].
  eapply perm_trans; [|apply sort_ids_perm]. apply Permutation_app_tail. exact IHp.
Qed.

Lemma sorted_nodup_lt l : StronglySorted le l -> NoDup l -> StronglySorted lt l.
Proof.
  induction 1 as [|y t Hs IH Hall]; intros Hnd; [constructor|].
  inversion Hnd as [|? ? Hnin Hnd']; subst. constructor; [apply IH; exact Hnd'|].
  rewrite Forall_forall in *. intros z Hz. specialize (Hall z Hz).
  assert (z <> y) by (intros ->; contradiction). lia.
Qed.

(** with pairwise different ids: strictly ascending, i.e. the order of the configuration *)
Theorem add_all_config_order arrival :
  NoDup arrival -> StronglySorted lt (add_all arrival).
Proof.
  intros Hnd. destruct (add_all_sorted arrival) as [Hs Hp].
  apply sorted_nodup_lt; [exact Hs|]. eapply Permutation_NoDup; eassumption.
Qed.

Lemma sorted_nth_le l : StronglySorted lt l -> forall i j, i <= j -> j < length l -> nth i l 0 <= nth j l 0.
Proof.
  induction 1 as [|y t Hs IH Hall]; intros i j Hij Hj; [cbn in Hj; lia|].
  destruct j as [|j]; [assert (i = 0) by lia; subst; lia|]. cbn [length] in Hj.
  destruct i as [|i]; cbn [nth].
  - rewrite Forall_forall in Hall. assert (y < nth j t 0) by (apply Hall, nth_In; lia). lia.
  - apply IH; lia.
Qed.

(** first-working on a pool built by addConnection: whatever the arrival order, the chosen
    connection has the smallest id — is the first in configuration order — among the
    connections that are alive and at most one block behind the newest head *)
Theorem first_working_config_order arrival (obs : nat -> conn) prev i :
  NoDup arrival ->
  let ids := add_all arrival in
  let cs := map obs ids in
  update_best FirstWorking cs prev = Some i ->
  forall j d, nth_error cs j = Some d -> eligible cs d -> nth i ids 0 <= nth j ids 0.
Proof.
  intros Hnd ids cs Hu j d Hj Hd.
  pose proof (update_best_spec FirstWorking cs prev) as Hc. rewrite Hu in Hc. cbn [is_choice] in Hc.
  assert (Hjl : j < length ids).
  { assert (j < length cs) by (apply nth_error_Some; congruence). unfold cs in *. rewrite map_length in *. assumption. }
  destruct Hc as [[Hnone _]|(i' & c & [= <-] & Hn & Hp & Hmin)].
  - exfalso. apply (Hnone d); [eapply nth_error_In; exact Hj|exact Hd].
  - apply sorted_nth_le; [apply add_all_config_order; exact Hnd|exact (Hmin j d Hj Hd)|exact Hjl].
Qed.

(** the design that sorts before appending ([sort.Slice(p.conns); p.conns = append(p.conns, c)])
    leaves the connection added last out of place *)
Definition add_connection_sort_first (pool : list nat) (id : nat) : list nat := sort_ids pool ++ [id].

Lemma sort_first_refuted :
  exists arrival, NoDup arrival /\ ~ StronglySorted le (fold_left add_connection_sort_first arrival []) /\
    (* both connections alive and current: first-working picks id 1 instead of id 0 *)
    let ids := fold_left add_connection_sort_first arrival [] in
    let cs := map (fun _ => mkConn true 100 1) ids in
    option_map (fun i => nth i ids 0) (update_best FirstWorking cs None) = Some 1.
Proof.
  exists [1; 0]. split; [repeat constructor; cbn; intuition lia|]. split.
  - cbn. intros H. inversion H as [|? ? _ Hall]; subst. inversion Hall; subst. lia.
  - vm_compute. reflexivity.
Qed.

Example add_all_example : add_all [3; 2; 1; 0] = [0; 1; 2; 3] /\ add_all [2; 0; 1] = [0; 1; 2].
Proof. split; vm_compute; reflexivity. Qed.
