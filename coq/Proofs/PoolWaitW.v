(** Concrete traces of the wait-list protocol (Model/PoolWait.v): the three
    reachable deadlocks (computed by vm_compute) and their permanence. *)
From Coq Require Import List NArith Bool Arith Lia.
From Tongo Require Import Model.PoolWait Proofs.PoolWaitP.
Import ListNotations.

Section Gen.
  Variable nconns : nat.
  Variable tgt : nat -> N.
  Notation step := (step nconns tgt).
  Notation reachable := (reachable nconns tgt).

  Lemma run_reachable ls : forall s0 s s',
    reachable s0 s -> run nconns tgt s ls = Some s' -> reachable s0 s'.
  Proof.
    induction ls as [|l t IH]; intros s0 s s' Hr Hrun; cbn [run] in Hrun.
    - injection Hrun as <-. exact Hr.
    - destruct (step s l) as [s1|] eqn:Hs; [|discriminate].
      eapply IH; [|exact Hrun]. eapply reach_step; eassumption.
  Qed.

  Lemma reachable_trans s0 s s' : reachable s0 s -> reachable s s' -> reachable s0 s'.
  Proof. intros H0 H1. induction H1; [exact H0|eapply reach_step; eassumption]. Qed.

  Lemma f14_dead_forever u w rem r s s' :
    f14_dead u w rem r s -> reachable s s' -> f14_dead u w rem r s'.
  Proof. intros Hd Hr. induction Hr; [exact Hd|eapply f14_dead_stable; eassumption]. Qed.

  Lemma upd_dead_forever k h s s' :
    upd_dead nconns k h s -> reachable s s' -> upd_dead nconns k h s'.
  Proof. intros Hd Hr. induction Hr; [exact Hd|eapply upd_dead_stable; eassumption]. Qed.

  Lemma sub_dead_forever w c h u s s' :
    sub_dead w c h u s -> reachable s s' -> sub_dead w c h u s'.
  Proof. intros Hd Hr. induction Hr; [exact Hd|eapply sub_dead_stable; eassumption]. Qed.

  Lemma f14_dead_stuck u w rem r s :
    lock_inv nconns s -> f14_dead u w rem r s -> ~ holder_can_step nconns tgt s.
  Proof.
    intros (_ & Hmx & _) Hd. pose proof (f14_dead_freezes nconns tgt _ _ _ _ _ Hd) as (_ & _ & _ & _ & Hsend & Hun).
    destruct Hd as (Hp & _ & _ & Hrd). unfold holder_can_step.
    rewrite (Hmx _ _ Hp). intros [H|[H|H]]; congruence.
  Qed.

  Lemma upd_dead_stuck k h s :
    lock_inv nconns s -> upd_dead nconns k h s -> ~ holder_can_step nconns tgt s.
  Proof.
    intros (_ & _ & [_ Hrun2] & _) (Hp & Hk & Hc & _). unfold holder_can_step.
    rewrite (Hrun2 (ex_intro _ k Hp)). unfold PoolWait.step. rewrite Hp, Hc.
    assert (Hlt : Nat.ltb k nconns = true) by (apply Nat.ltb_lt; exact Hk).
    assert (Hle : Nat.leb nconns k = false) by (apply Nat.leb_gt; exact Hk).
    rewrite Hlt, Hle, andb_true_r, andb_false_r.
    destruct (is_writer s ARun); cbn [andb]; intros [H|[nb H]]; congruence.
  Qed.

  Lemma sub_dead_stuck w c h u s :
    sub_dead w c h u s -> ~ holder_can_step nconns tgt s.
  Proof.
    intros (Hpc & Hwr & Hb & Hc & _). unfold holder_can_step. rewrite Hwr.
    unfold PoolWait.step. rewrite Hpc, Hb, Hc. destruct (is_writer s (AW w)); congruence.
  Qed.
End Gen.

(** ---- F14: two notifications while a waiter leaves ----
    one connection (head 5, the best one), one waiter for seqno 10 *)
Definition f14_tgt : nat -> N := fun _ => 10%N.
Definition f14_init : state := init_state (fun _ => 5%N) (Some 0).
Definition f14_trace : list label :=
  [ LSubLock 0; LSubBody 0;                 (* WaitMasterchainSeqno(10): registered as id 1 *)
    LSetHead 0 6; LPublish 0;               (* block 6 arrives *)
    LTake; LRLock [0]; LSend; LRUnlock;     (* Run notifies: waiter channel now holds 6 *)
    LSetHead 0 7; LPublish 0;               (* block 7 arrives *)
    LLeave 0 RTimeout;                      (* the waiter's timeout fires; it has not drained its channel *)
    LTake; LRLock [0] ].                    (* Run: RLock taken, next send is into the full channel *)

Lemma f14_trace_runs :
  exists s, run 1 f14_tgt f14_init f14_trace = Some s /\ f14_dead (0, 7%N) 0 [] RTimeout s.
Proof.
  eexists. split; [vm_compute; reflexivity|].
  unfold f14_dead. sred. repeat apply conj; try reflexivity; vm_compute; discriminate.
Qed.

(** ---- updateBest against a publisher on a full update buffer ----
    one connection publishes heads 1..10 (buffer full), enters SetMasterHead(11)
    and blocks in the send holding c.mu; Run's select takes the ticker branch *)
Fixpoint publishes (c : nat) (from : N) (n : nat) : list label :=
  match n with
  | O => []
  | S n' => LSetHead c from :: LPublish c :: publishes c (from + 1)%N n'
  end.

Definition upd_init : state := init_state (fun _ => 0%N) (Some 0).
Definition upd_trace : list label := publishes 0 1 10 ++ [LSetHead 0 11; LTick].

Lemma upd_trace_runs :
  exists s, run 1 f14_tgt upd_init upd_trace = Some s /\ upd_dead 1 0 11%N s.
Proof.
  eexists. split; [vm_compute; reflexivity|].
  unfold upd_dead. sred. repeat apply conj; try reflexivity. lia.
Qed.

(** ---- subscribe against a publisher on a full update buffer ----
    Run has received one update and is about to RLock; the buffer fills again,
    the best connection blocks in its 12th send; a waiter enters subscribe *)
Definition sub_trace : list label :=
  [LSetHead 0 1; LPublish 0; LTake] ++ publishes 0 2 10 ++ [LSetHead 0 12; LSubLock 0].

Lemma sub_trace_runs :
  exists s, run 1 (fun _ => 100%N) upd_init sub_trace = Some s /\ sub_dead 0 0 12%N (0, 1%N) s.
Proof.
  eexists. split; [vm_compute; reflexivity|].
  unfold sub_dead. sred. repeat apply conj; reflexivity.
Qed.

(** ---- the refutations ---- *)

(** a reachable state from which, whatever any agent does afterwards, the holder of
    the pool lock never has an enabled step and waiter 0, whose timeout has fired,
    never returns *)
Theorem pool_never_blocks_refuted :
  exists nconns tgt heads b s,
    reachable nconns tgt (init_state heads b) s /\
    forall s', reachable nconns tgt s s' ->
      ~ holder_can_step nconns tgt s' /\ wpc s' 0 = WUnsub RTimeout.
Proof.
  exists 1, f14_tgt, (fun _ => 5%N), (Some 0).
  destruct f14_trace_runs as (s & Hrun & Hd). exists s.
  assert (Hr : reachable 1 f14_tgt (init_state (fun _ => 5%N) (Some 0)) s).
  { eapply run_reachable; [apply reach_init|exact Hrun]. }
  split; [exact Hr|]. intros s' Hr'.
  pose proof (f14_dead_forever _ _ _ _ _ _ _ _ Hd Hr') as Hd'.
  split; [|exact (proj1 (proj2 (proj2 Hd')))].
  eapply f14_dead_stuck; [|exact Hd'].
  eapply lock_inv_reachable. eapply reachable_trans; eassumption.
Qed.

Theorem pool_never_blocks_refuted_updatebest :
  exists nconns tgt heads b s,
    reachable nconns tgt (init_state heads b) s /\
    forall s', reachable nconns tgt s s' ->
      ~ holder_can_step nconns tgt s' /\ rpc s' = RUpd 0.
Proof.
  exists 1, f14_tgt, (fun _ => 0%N), (Some 0).
  destruct upd_trace_runs as (s & Hrun & Hd). exists s.
  assert (Hr : reachable 1 f14_tgt (init_state (fun _ => 0%N) (Some 0)) s).
  { eapply run_reachable; [apply reach_init|exact Hrun]. }
  split; [exact Hr|]. intros s' Hr'.
  pose proof (upd_dead_forever _ _ _ _ _ _ Hd Hr') as Hd'.
  split; [|exact (proj1 Hd')].
  eapply upd_dead_stuck; [|exact Hd'].
  eapply lock_inv_reachable. eapply reachable_trans; eassumption.
Qed.

Theorem pool_never_blocks_refuted_subscribe :
  exists nconns tgt heads b s,
    reachable nconns tgt (init_state heads b) s /\
    forall s', reachable nconns tgt s s' ->
      ~ holder_can_step nconns tgt s' /\ wpc s' 0 = WSubL /\ rpc s' = RWantR (0, 1%N).
Proof.
  exists 1, (fun _ => 100%N), (fun _ => 0%N), (Some 0).
  destruct sub_trace_runs as (s & Hrun & Hd). exists s.
  assert (Hr : reachable 1 (fun _ => 100%N) (init_state (fun _ => 0%N) (Some 0)) s).
  { eapply run_reachable; [apply reach_init|exact Hrun]. }
  split; [exact Hr|]. intros s' Hr'.
  pose proof (sub_dead_forever _ _ _ _ _ _ _ _ Hd Hr') as Hd'.
  split; [eapply sub_dead_stuck; exact Hd'|].
  destruct Hd' as (H1 & _ & _ & _ & _ & H6). auto.
Qed.

(** ---- observations (not counted as defects) ---- *)

(** a switch of the best connection does not wake waiters: the new best
    connection already reports a head beyond the target, nothing is in flight,
    the waiter stays in its loop until that connection publishes again *)
Example switch_does_not_wake :
  exists s, reachable 2 (fun _ => 10%N) (init_state (fun c => if Nat.eqb c 1 then 20%N else 5%N) (Some 0)) s /\
    best s = Some 1 /\ (10 <= head s 1)%N /\ wpc s 0 = WWait /\ wch s 0 = None /\
    updq s = [] /\ rpc s = RIdle.
Proof.
  destruct (run 2 (fun _ => 10%N) (init_state (fun c => if Nat.eqb c 1 then 20%N else 5%N) (Some 0))
              [LSubLock 0; LSubBody 0; LTick; LUpdRead; LUpdRead; LUpdDone (Some 1)]) as [s|] eqn:Hrun;
    [|vm_compute in Hrun; discriminate].
  exists s. split; [eapply run_reachable; [apply reach_init|exact Hrun]|].
  vm_compute in Hrun. injection Hrun as <-. sred.
  repeat apply conj; try reflexivity. vm_compute. discriminate.
Qed.

(** subscribe on a pool without a best connection panics (nil interface call) *)
Example subscribe_without_best_panics :
  exists s, run 0 f14_tgt (init_state (fun _ => 0%N) None) [LSubLock 0; LSubBody 0] = Some s /\
            wpc s 0 = WPanicked.
Proof. eexists. split; [vm_compute; reflexivity|reflexivity]. Qed.
