(** Concrete traces of the repaired wait-list protocol (Model/PoolWait.v): the
    schedules that used to deadlock now run to completion, the keep-the-newer
    notification at work, and observations (not defects). *)
From Coq Require Import List NArith ZArith Bool Arith Lia.
From Tongo Require Import Model.Pool Model.PoolWait Proofs.PoolWaitP.
Import ListNotations.

Definition w_tgt : nat -> N := fun _ => 10%N.

(** ---- the F14 schedule (two head updates while a waiter leaves) on the repaired
    code: Run replaces the stale head in the full channel, releases the read lock,
    the timed-out caller unsubscribes and returns, the pool is idle ---- *)
Definition f14_trace : list label :=
  [ LSubWant 0; LSubLock 0; LSubBody 0;                 (* WaitMasterchainSeqno(10): registered as id 1 *)
    LSetHead 0 6; LPublish 0;               (* block 6 arrives *)
    LTake; LRLock [0]; LSend; LRUnlock;     (* Run notifies: waiter channel now holds 6 *)
    LSetHead 0 7; LPublish 0;               (* block 7 arrives *)
    LLeave 0 RTimeout;                      (* the timeout fires; the channel is not drained *)
    LTake; LRLock [0];                      (* Run: RLock taken, next send is into the full channel *)
    LSend; LRUnlock;                        (* ... which now holds 7; RUnlock *)
    LUnsubWant 0; LUnsub 0 ].                             (* the caller returns "timeout" *)

Example f14_trace_completes :
  exists s, run BestPing false false 1 w_tgt (init_state (fun _ => 5%N) (Some 0)) f14_trace = Some s /\
    wpc s 0 = WDone RTimeout /\ wch s 0 = Some (0, 7%N) /\ wl s = [] /\
    readers s = 0 /\ writer s = None /\ rpc s = RIdle.
Proof. eexists. split; [vm_compute; reflexivity|]. repeat apply conj; reflexivity. Qed.

Fixpoint publishes (c : nat) (from : N) (n : nat) : list label :=
  match n with
  | O => []
  | S n' => LSetHead c from :: LPublish 0 :: publishes c (from + 1)%N n'
  end.

(** ---- the F14b schedules on the repaired code: with the buffer full and an 11th
    SetMasterHead waiting for room (holding no lock), updateBest and subscribe run
    to completion, Run takes an update and the waiting send completes ---- *)
Example upd_trace_completes :
  exists s, run BestPing false false 1 w_tgt (init_state (fun _ => 0%N) (Some 0))
              (publishes 0 1 10 ++ [LSetHead 0 11; LTick; LUpdLock; LUpdDone [(true, 1%Z)] []; LTake; LPublish 0]) = Some s /\
    length (updq s) = 10 /\ pend s = [] /\ best s = Some 0 /\ writer s = None /\ rpc s = RWantR (0, 1%N).
Proof. eexists. split; [vm_compute; reflexivity|]. repeat apply conj; reflexivity. Qed.

Example sub_trace_completes :
  exists s, run BestPing false false 1 (fun _ => 100%N) (init_state (fun _ => 0%N) (Some 0))
              ([LSetHead 0 1; LPublish 0; LTake] ++ publishes 0 2 10 ++
               [LSetHead 0 12; LSubWant 0; LSubLock 0; LSubBody 0; LRLock [0]; LSend; LRUnlock; LTake; LPublish 0]) = Some s /\
    wpc s 0 = WWait /\ wch s 0 = Some (0, 1%N) /\ pend s = [] /\ writer s = None /\ readers s = 0.
Proof. eexists. split; [vm_compute; reflexivity|]. repeat apply conj; reflexivity. Qed.

(** ---- keep the newer head, not the later one: the best connection switches from
    0 to 1 while head 10 of connection 0 is still in the channel; head 9 of the new
    best connection must not replace it (a waiter for seqno 10 still succeeds) ---- *)
Example switch_keeps_sufficient_head :
  exists s,
    run BestPing false false 2 w_tgt (init_state (fun _ => 1%N) (Some 0))
      [LSubWant 0; LSubLock 0; LSubBody 0;
       LSetHead 0 10; LPublish 0; LTake; LRLock [0]; LSend; LRUnlock;      (* 10 from connection 0 *)
       LTick; LUpdLock; LUpdDone [(true, 5%Z); (false, 1%Z)] [];                       (* still 0 *)
       LSetHead 1 9; LPublish 0;
       LTick; LUpdLock; LUpdDone [(false, 5%Z); (true, 1%Z)] [];                       (* best := 1 *)
       LTake; LRLock [0]; LSend; LRUnlock;                                (* 9 from connection 1 *)
       LRecv 0; LUnsubWant 0; LUnsub 0] = Some s /\
    best s = Some 1 /\ wgot s 0 = Some (0, 10%N) /\ wpc s 0 = WDone ROk.
Proof. eexists. split; [vm_compute; reflexivity|]. repeat apply conj; reflexivity. Qed.

(** a complete successful wait: subscribe(10) at head 5, head 12 arrives, Run
    notifies, the waiter receives 12 and returns nil; the registry is empty again *)
Example wait_example :
  exists s,
    run BestPing false false 1 w_tgt (init_state (fun _ => 5%N) (Some 0))
      [LSubWant 0; LSubLock 0; LSubBody 0; LSetHead 0 12; LPublish 0; LTake; LRLock [0]; LSend; LRUnlock;
       LRecv 0; LUnsubWant 0; LUnsub 0] = Some s /\
    wpc s 0 = WDone ROk /\ wgot s 0 = Some (0, 12%N) /\ wl s = [] /\ readers s = 0 /\ writer s = None.
Proof. eexists. split; [vm_compute; reflexivity|]. repeat apply conj; reflexivity. Qed.

(** ---- observations (not counted as defects) ---- *)

(** a switch of the best connection does not wake waiters: the new best
    connection already reports a head beyond the target, nothing is in flight,
    the waiter stays in its loop until that connection publishes again (the
    property speaks of heads the best connection *reports*, i.e. publishes) *)
Example switch_does_not_wake :
  exists s, reachable BestPing false false 2 w_tgt (init_state (fun c => if Nat.eqb c 1 then 20%N else 5%N) (Some 0)) s /\
    best s = Some 1 /\ (10 <= head s 1)%N /\ wpc s 0 = WWait /\ wch s 0 = None /\
    updq s = [] /\ pend s = [] /\ rpc s = RIdle.
Proof.
  destruct (run BestPing false false 2 w_tgt (init_state (fun c => if Nat.eqb c 1 then 20%N else 5%N) (Some 0))
              [LSubWant 0; LSubLock 0; LSubBody 0; LTick; LUpdLock; LUpdDone [(false, 1%Z); (true, 1%Z)] []]) as [s|] eqn:Hrun;
    [|vm_compute in Hrun; discriminate].
  exists s. split; [eapply run_reachable; [apply reach_init|exact Hrun]|].
  vm_compute in Hrun. injection Hrun as <-. sred.
  repeat apply conj; try reflexivity. vm_compute. discriminate.
Qed.

(** subscribe on a pool without any connection panics (nil interface call); the
    property quantifies over pools of 1..4 connections, where it cannot happen
    (Proofs/PoolWaitP.v subscribe_never_panics) *)
Example subscribe_without_best_panics :
  exists s, run BestPing false false 0 w_tgt (init_state (fun _ => 0%N) None) [LSubWant 0; LSubLock 0; LSubBody 0] = Some s /\
            wpc s 0 = WPanicked /\ writer s = None.
Proof. eexists. split; [vm_compute; reflexivity|split; reflexivity]. Qed.
