(** The sort in Hashmap.MarshalTLB ([bsort], Model/Hashmap.v): a permutation of
    its input, ascending in bit order when the keys are distinct, the identity
    on ascending lists, and therefore a function of the mapping alone: two
    slices with distinct keys that hold the same pairs in any two orders sort
    to the same list.  Also: what Put does to the sorted view of a slice (for
    every key type), which is what makes Put on a decoded dictionary safe. *)
From Coq Require Import List NArith Arith Lia Bool Sorted Permutation.
From Tongo Require Import Lib.Bits Lib.Res Spec.Dict Model.Hashmap Proofs.DictP Proofs.HashmapPut.
Import ListNotations.

Section Sort.
Variable V : Type.
Notation amap := (list (bits * V)).
Notation bget := (get (V := V) bits_eqb).

(** ** permutation *)
Lemma binsert_perm x (l : amap) : Permutation (x :: l) (binsert x l).
Proof.
  induction l as [|y t IH]; cbn [binsert]; [apply Permutation_refl|].
  destruct (bits_ltb (fst y) (fst x)); [|apply Permutation_refl].
  eapply Permutation_trans; [apply perm_swap|]. apply perm_skip. exact IH.
Qed.

Lemma bsort_perm (l : amap) : Permutation l (bsort l).
Proof.
  induction l as [|x t IH]; cbn [bsort]; [constructor|].
  eapply Permutation_trans; [apply perm_skip; exact IH|apply binsert_perm].
Qed.

Lemma bsort_length (l : amap) : length (bsort l) = length l.
Proof. symmetry. apply Permutation_length. apply bsort_perm. Qed.

Lemma bsort_nil_inv (l : amap) : bsort l = [] -> l = [].
Proof.
  intros H. apply Permutation_nil. rewrite <- H. apply Permutation_sym, bsort_perm.
Qed.

Lemma keys_len_perm n (l1 l2 : amap) : Permutation l1 l2 -> keys_len n l1 -> keys_len n l2.
Proof.
  unfold keys_len. intros Hp H. rewrite Forall_forall in *. intros x Hx.
  apply H. eapply Permutation_in; [apply Permutation_sym; exact Hp|exact Hx].
Qed.

Lemma nodup_keys_perm (l1 l2 : amap) :
  Permutation l1 l2 -> NoDup (map fst l1) -> NoDup (map fst l2).
Proof. intros Hp H. eapply Permutation_NoDup; [apply Permutation_map; exact Hp|exact H]. Qed.

(** ** sortedness *)
Lemma sorted_nodup (l : amap) : sorted l -> NoDup (map fst l).
Proof.
  unfold sorted. induction 1 as [|a t Hs IH Hall]; cbn [map]; constructor; [|exact IH].
  intros Hin. apply in_map_iff in Hin. destruct Hin as (y & Ey & Hy).
  rewrite Forall_forall in Hall. specialize (Hall y Hy). unfold key_lt in Hall.
  rewrite Ey in Hall. exact (bits_lt_irrefl _ Hall).
Qed.

Lemma binsert_sorted x (l : amap) :
  sorted l -> ~ In (fst x) (map fst l) -> sorted (binsert x l).
Proof.
  unfold sorted. induction l as [|y t IH]; intros Hs Hn; cbn [binsert].
  - constructor; constructor.
  - apply StronglySorted_inv in Hs. destruct Hs as [Hst Hall].
    destruct (bits_ltb (fst y) (fst x)) eqn:E.
    + constructor.
      * apply IH; [exact Hst|]. intros H. apply Hn. right. exact H.
      * apply Forall_forall. intros z Hz.
        apply (Permutation_in _ (Permutation_sym (binsert_perm x t))) in Hz.
        destruct Hz as [<-|Hz].
        -- apply bits_ltb_lt. exact E.
        -- rewrite Forall_forall in Hall. apply Hall. exact Hz.
    + assert (Hxy : bits_lt (fst x) (fst y)).
      { destruct (bits_lt_total (fst x) (fst y)) as [H|[H|H]]; [exact H| |].
        - exfalso. apply Hn. left. symmetry. exact H.
        - apply bits_ltb_lt in H. congruence. }
      constructor; [constructor; assumption|].
      constructor; [exact Hxy|].
      eapply Forall_impl; [|exact Hall]. intros z Hz. unfold key_lt in *.
      eapply bits_lt_trans; eauto.
Qed.

Theorem bsort_sorted (l : amap) : NoDup (map fst l) -> sorted (bsort l).
Proof.
  induction l as [|x t IH]; intros Hnd; cbn [bsort]; [constructor|].
  cbn [map] in Hnd. apply NoDup_cons_iff in Hnd. destruct Hnd as [Hnot Hnd].
  apply binsert_sorted; [apply IH; exact Hnd|].
  intros Hin. apply Hnot.
  eapply Permutation_in; [apply Permutation_sym, Permutation_map, bsort_perm|exact Hin].
Qed.

(** ** an ascending list is left alone *)
Lemma binsert_min x (l : amap) : Forall (key_lt x) l -> binsert x l = x :: l.
Proof.
  destruct l as [|y t]; [reflexivity|]. intros H. apply Forall_inv in H. cbn [binsert].
  destruct (bits_ltb (fst y) (fst x)) eqn:E; [|reflexivity].
  apply bits_ltb_lt in E. exfalso. exact (bits_lt_asym _ _ H E).
Qed.

Theorem bsort_id (l : amap) : sorted l -> bsort l = l.
Proof.
  unfold sorted. induction 1 as [|a t Hs IH Hall]; cbn [bsort]; [reflexivity|].
  rewrite IH. apply binsert_min. exact Hall.
Qed.

(** ** the sorted list is a function of the mapping *)
Lemma sorted_ext (m1 m2 : amap) :
  sorted m1 -> sorted m2 -> (forall k, bget k m1 = bget k m2) -> m1 = m2.
Proof.
  intros H1 H2. apply (ksorted_ext bits V bits_eqb bits_ltb bits_key_order);
    apply ksorted_bits_sorted; assumption.
Qed.

Lemma bget_bsort k (l : amap) : NoDup (map fst l) -> bget k (bsort l) = bget k l.
Proof.
  intros Hnd. symmetry.
  apply (get_perm bits V bits_eqb bits_ltb bits_key_order); [exact Hnd|apply bsort_perm].
Qed.

Theorem bsort_ext (a b : amap) :
  NoDup (map fst a) -> NoDup (map fst b) -> (forall k, bget k a = bget k b) -> bsort a = bsort b.
Proof.
  intros Ha Hb H. apply sorted_ext; try (apply bsort_sorted; assumption).
  intros k. rewrite !bget_bsort by assumption. apply H.
Qed.

Theorem bsort_perm_eq (l1 l2 : amap) :
  NoDup (map fst l1) -> Permutation l1 l2 -> bsort l1 = bsort l2.
Proof.
  intros Hnd Hp. apply bsort_ext; [exact Hnd|eapply nodup_keys_perm; eauto|].
  intros k. apply (get_perm bits V bits_eqb bits_ltb bits_key_order); assumption.
Qed.

Theorem sorted_perm_eq (l1 l2 : amap) : sorted l1 -> sorted l2 -> Permutation l1 l2 -> l1 = l2.
Proof.
  intros H1 H2 Hp. rewrite <- (bsort_id l1 H1), <- (bsort_id l2 H2).
  apply bsort_perm_eq; [apply sorted_nodup; exact H1|exact Hp].
Qed.

(** ** update of the abstract map *)
Lemma update_sorted k v (m : amap) : sorted m -> sorted (update k v m).
Proof.
  intros Hs. rewrite <- (put_update V) by exact Hs.
  apply ksorted_bits_sorted. apply (put_ksorted bits V bits_eqb bits_ltb bits_key_order).
  apply ksorted_bits_sorted. exact Hs.
Qed.

Lemma update_in k v (m : amap) x : In x (update k v m) -> x = (k, v) \/ In x m.
Proof.
  induction m as [|[k0 v0] t IH]; cbn [update].
  - intros [H|[]]; auto.
  - destruct (bits_cmp k k0).
    + intros [H|H]; auto. right; right; exact H.
    + intros [H|H]; auto.
    + intros [H|H]; [right; left; exact H|]. destruct (IH H); auto. right; right; assumption.
Qed.

Lemma update_keys_len n k v (m : amap) :
  length k = n -> keys_len n m -> keys_len n (update k v m).
Proof.
  unfold keys_len. intros Hk H. rewrite Forall_forall in *. intros x Hx.
  apply update_in in Hx. destruct Hx as [->|Hx]; [exact Hk|apply H; exact Hx].
Qed.

Lemma lookup_update k v (m : amap) k' : sorted m ->
  lookup k' (update k v m) = if bits_eqb k k' then Some v else lookup k' m.
Proof.
  intros Hs. rewrite <- (put_update V) by exact Hs. rewrite <- !(get_lookup V).
  apply (get_put bits V bits_eqb bits_ltb bits_key_order).
Qed.

(** ** Put, seen through the sort, is update — for every Compare *)
Section AnyOrder.
Variable klt : bits -> bits -> bool.
Hypothesis KO : key_order bits_eqb klt.

Lemma insert_perm k v (m : amap) : Permutation ((k, v) :: m) (insert_at klt k v m).
Proof.
  induction m as [|[k0 v0] t IH]; cbn [insert_at]; [apply Permutation_refl|].
  destruct (klt k k0); [apply Permutation_refl|].
  eapply Permutation_trans; [apply perm_swap|]. apply perm_skip. exact IH.
Qed.

Lemma put_nodup k v (m : amap) :
  NoDup (map fst m) -> NoDup (map fst (put bits_eqb klt k v m)).
Proof.
  intros Hnd. unfold put. destruct (replace_val bits_eqb k v m) as [m'|] eqn:E.
  - rewrite (replace_keys bits V bits_eqb k v m m' E). exact Hnd.
  - eapply nodup_keys_perm; [apply insert_perm|]. cbn [map fst]. constructor; [|exact Hnd].
    intros Hin. apply in_map_iff in Hin. destruct Hin as (y & Ey & Hy).
    apply (replace_none bits V bits_eqb) in E.
    exact (get_none_in bits V bits_eqb klt KO k m y E Hy Ey).
Qed.

Lemma put_keys_len n k v (m : amap) :
  length k = n -> keys_len n m -> keys_len n (put bits_eqb klt k v m).
Proof.
  intros Hk Hl. unfold put. destruct (replace_val bits_eqb k v m) as [m'|] eqn:E.
  - unfold keys_len in *. rewrite Forall_forall in *. intros x Hx.
    assert (Hin : In (fst x) (map fst m)).
    { rewrite <- (replace_keys bits V bits_eqb k v m m' E). apply in_map. exact Hx. }
    apply in_map_iff in Hin. destruct Hin as (y & Ey & Hy). rewrite <- Ey. apply Hl. exact Hy.
  - eapply keys_len_perm; [apply insert_perm|]. constructor; assumption.
Qed.

Theorem bsort_put k v (m : amap) :
  NoDup (map fst m) -> bsort (put bits_eqb klt k v m) = update k v (bsort m).
Proof.
  intros Hnd.
  pose proof (bsort_sorted m Hnd) as Hs.
  apply sorted_ext; [apply bsort_sorted, put_nodup; exact Hnd|apply update_sorted; exact Hs|].
  intros k'. rewrite bget_bsort by (apply put_nodup; exact Hnd).
  rewrite (get_put bits V bits_eqb klt KO).
  rewrite (get_lookup V k' (update k v (bsort m))), lookup_update by exact Hs.
  rewrite <- (get_lookup V), bget_bsort by exact Hnd. reflexivity.
Qed.

(** a sequence of Puts *)
Definition updates (l m : amap) : amap :=
  fold_left (fun m kv => update (fst kv) (snd kv) m) l m.

Lemma puts_nodup (l m : amap) :
  NoDup (map fst m) -> NoDup (map fst (puts bits_eqb klt l m)).
Proof.
  revert m; induction l as [|[k v] l IH]; intros m H; [exact H|].
  cbn [puts fold_left fst snd]. apply IH. apply put_nodup. exact H.
Qed.

Lemma puts_keys_len n (l m : amap) :
  keys_len n l -> keys_len n m -> keys_len n (puts bits_eqb klt l m).
Proof.
  revert m; induction l as [|[k v] l IH]; intros m Hl Hm; [exact Hm|].
  apply Forall_cons_iff in Hl. destruct Hl as [Hk Hl]. cbn [fst] in Hk.
  cbn [puts fold_left fst snd]. apply IH; [exact Hl|]. apply put_keys_len; assumption.
Qed.

Theorem bsort_puts (l m : amap) :
  NoDup (map fst m) -> bsort (puts bits_eqb klt l m) = updates l (bsort m).
Proof.
  revert m; induction l as [|[k v] l IH]; intros m H; [reflexivity|].
  cbn [puts updates fold_left fst snd].
  change (fold_left (fun m kv => put bits_eqb klt (fst kv) (snd kv) m) l (put bits_eqb klt k v m))
    with (puts bits_eqb klt l (put bits_eqb klt k v m)).
  rewrite IH by (apply put_nodup; exact H). rewrite bsort_put by exact H. reflexivity.
Qed.

Lemma updates_sorted (l m : amap) : sorted m -> sorted (updates l m).
Proof.
  revert m; induction l as [|[k v] l IH]; intros m H; [exact H|].
  cbn [updates fold_left fst snd]. apply IH. apply update_sorted. exact H.
Qed.

Lemma updates_keys_len n (l m : amap) :
  keys_len n l -> keys_len n m -> keys_len n (updates l m).
Proof.
  revert m; induction l as [|[k v] l IH]; intros m Hl Hm; [exact Hm|].
  apply Forall_cons_iff in Hl. destruct Hl as [Hk Hl]. cbn [fst] in Hk.
  cbn [updates fold_left fst snd]. apply IH; [exact Hl|]. apply update_keys_len; assumption.
Qed.

(** Get on the slice after any Puts = lookup in the updated abstract map *)
Theorem get_puts_lookup (l m : amap) k :
  NoDup (map fst m) ->
  bget k (puts bits_eqb klt l m) = lookup k (updates l (bsort m)).
Proof.
  intros H. rewrite <- (bget_bsort k) by (apply puts_nodup; exact H).
  rewrite bsort_puts by exact H. apply (get_lookup V).
Qed.

End AnyOrder.
End Sort.

Arguments updates {V}.
