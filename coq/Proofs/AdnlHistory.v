(** History / rejected designs of the Connection layer (C11).  Both designs
    below were seeded as source changes in round 3 and are refuted against the
    model of Model/AdnlT.v (flags of reader_run / conn_run):

    single_timer:      Connection.reader uses one time.NewTimer(reconnectTimeout)
                       created before its loop and never Reset, instead of a
                       time.After per iteration.
    pong_prefix:       the reader treats every payload of 12 bytes OR MORE that
                       starts with the tcp.pong magic as a pong (round 4).
    chan_per_session:  c.resp is made by setupEncryptedConnection (every
                       handshake) instead of once by NewConnection, while the
                       application keeps the channel it got from Responses(). *)
From Coq Require Import List NArith Bool.
From Tongo Require Import Spec.AdnlSpec Model.AdnlT.
Import ListNotations.
Local Open Scope N_scope.

Definition pkt (i : N) : list N := [81; i; 0; 0; 0].

(* one packet every 500 ms for 13 s: never idle *)
Definition steady : list arrival := map (fun i => APacket 500 (pkt (N.of_nat i))) (seq 0 26).

Theorem single_timer_refuted :
  Forall (fun a => match a with APacket g _ => g < reconnect_timeout_ms | AClosed _ => False end) steady /\
  reader_run false 0 steady = (data_packets steady, SRunning) /\
  snd (reader_run true 0 steady) = STimeout /\
  length (fst (reader_run true 0 steady)) = 19%nat.
Proof.
  split; [|vm_compute; repeat split].
  unfold steady. apply Forall_forall. intros a I. apply in_map_iff in I.
  destruct I as [i [<- _]]. reflexivity.
Qed.

(* session 1 delivers a, the transport closes, session 2 delivers b *)
Definition two_sessions : list (list arrival) :=
  [[APacket 100 (pkt 1); AClosed 100]; [APacket 100 (pkt 2)]].

Theorem chan_per_session_refuted :
  app_received (conn_run false false 0 two_sessions) = [pkt 1; pkt 2] /\
  app_received (conn_run false true 0 two_sessions) = [pkt 1].
Proof. vm_compute. split; reflexivity. Qed.

(* "len >= 12" instead of "len == 12" in the pong test *)
Definition is_control_ge (p : list N) : bool :=
  ((magic_type p =? magic_tcp_pong) && (12 <=? len p)) || (magic_type p =? magic_tcp_auth_nonce).

Definition pong_like : list N := [3; 251; 105; 220; 28; 35; 42; 49; 56; 63; 70; 77; 84].   (* 13 bytes *)

Theorem pong_prefix_refuted :
  magic_type pong_like = magic_tcp_pong /\ len pong_like = 13 /\
  reader_run false 0 [APacket 100 pong_like] = ([pong_like], SRunning) /\
  is_control_ge pong_like = true.
Proof. vm_compute. repeat split. Qed.
