(** History / rejected designs of the Connection layer (C11).  Both designs
    below were seeded as source changes in round 3 and are refuted against the
    model of Model/AdnlT.v (flags of reader_run / conn_run):

    single_timer:      Connection.reader uses one time.NewTimer(reconnectTimeout)
                       created before its loop and never Reset, instead of a
                       time.After per iteration.
    pong_prefix:       the reader treats every payload of 12 bytes OR MORE that
                       starts with the tcp.pong magic as a pong (round 4).
    single_read:       the handshake confirmation is read with ONE conn.Read into a
                       68-byte buffer instead of io.ReadFull / ParsePacket (round 5).
    orphan_timer:      a reader whose packet channel was closed does not return but
                       keeps its silence timer and reconnects 10 s later (round 5).
    cached_keys:       newKeys keeps the ephemeral key pair / secret of the previous
                       peer and hands it out again for a different server (round 6).
    chan_per_session:  c.resp is made by setupEncryptedConnection (every
                       handshake) instead of once by NewConnection, while the
                       application keeps the channel it got from Responses(). *)
From Coq Require Import List NArith Bool Arith.
From Tongo Require Import Lib.Bits Spec.AdnlSpec Model.AdnlT.
Import ListNotations.
Local Open Scope N_scope.

Definition pkt (i : N) : list N := [81; i; 0; 0; 0].

(* one packet every 500 ms for 13 s: never idle *)
Definition steady : list arrival := map (fun i => APacket 500 (pkt (N.of_nat i))) (seq 0 26).

Theorem single_timer_refuted :
  Forall (fun a => match a with APacket g _ => g < reconnect_timeout_ms | AClosed _ => False end) steady /\
  reader_run false 0 steady = (data_packets steady, SRunning) /\
  snd (reader_run true 0 steady) = STimeout /\
  length (fst (reader_run true 0 steady)) = 19%nat.
Proof.
  split; [|vm_compute; repeat split].
  unfold steady. apply Forall_forall. intros a I. apply in_map_iff in I.
  destruct I as [i [<- _]]. reflexivity.
Qed.

(* session 1 delivers a, the transport closes, session 2 delivers b *)
Definition two_sessions : list (list arrival) :=
  [[APacket 100 (pkt 1); AClosed 100]; [APacket 100 (pkt 2)]].

Theorem chan_per_session_refuted :
  app_received (conn_run false false 0 two_sessions) = [pkt 1; pkt 2] /\
  app_received (conn_run false true 0 two_sessions) = [pkt 1].
Proof. vm_compute. split; reflexivity. Qed.

(* "len >= 12" instead of "len == 12" in the pong test *)
Definition is_control_ge (p : list N) : bool :=
  ((magic_type p =? magic_tcp_pong) && (12 <=? len p)) || (magic_type p =? magic_tcp_auth_nonce).

Definition pong_like : list N := [3; 251; 105; 220; 28; 35; 42; 49; 56; 63; 70; 77; 84].   (* 13 bytes *)

Theorem pong_prefix_refuted :
  magic_type pong_like = magic_tcp_pong /\ len pong_like = 13 /\
  reader_run false 0 [APacket 100 pong_like] = ([pong_like], SRunning) /\
  is_control_ge pong_like = true.
Proof. vm_compute. repeat split. Qed.

(* ---------- handshake confirmation read with one Read ---------- *)

Definition hH (x : list N) : list N := repeat ((len x + fold_left N.add x 7) mod 256) 32.
Definition hnext (s : N) : N * N := (s mod 256, s + 1).

(* one Read: the first segment only, the rest of the 68-byte buffer stays zero *)
Definition confirm_single_read (r : reader) (s : N) : pres N :=
  match r with
  | seg :: _ => parse_packet hH N hnext [firstn 68 (seg ++ repeat 0 68)] s
  | [] => PErr N PEof []
  end.

Definition confirmation : list N := fst (xor_stream N hnext 9 (frame hH (repeat 3 32) [])).

Theorem single_read_refuted :
  length confirmation = 68%nat /\
  (* ParsePacket on the connection: every split is fine *)
  (forall k, (k <= 68)%nat ->
     match parse_packet hH N hnext [firstn k confirmation; skipn k confirmation] 9 with
     | POk _ _ p _ _ => p = [] | PErr _ _ _ => False end) /\
  (* one Read: a split after the length field fails, the unsplit delivery works *)
  (match confirm_single_read [firstn 4 confirmation; skipn 4 confirmation] 9 with
   | PErr _ _ _ => True | POk _ _ _ _ _ => False end) /\
  (match confirm_single_read [confirmation] 9 with
   | POk _ _ p _ _ => p = [] | PErr _ _ _ => False end).
Proof.
  split; [vm_compute; reflexivity|]. split; [|split; vm_compute; auto].
  intros k Hk.
  assert (In k (seq 0 69)) as I by (apply in_seq; split; [apply Nat.le_0_l|apply le_n_S; exact Hk]).
  revert k I Hk.
  assert (G : forallb (fun k => match parse_packet hH N hnext [firstn k confirmation; skipn k confirmation] 9 with
                                | POk _ _ p _ _ => match p with [] => true | _ => false end
                                | PErr _ _ _ => false end) (seq 0 69) = true) by (vm_compute; reflexivity).
  intros k I _. rewrite forallb_forall in G. specialize (G k I).
  destruct (parse_packet hH N hnext [firstn k confirmation; skipn k confirmation] 9) as [n p r s|e r];
    [destruct p; [reflexivity|discriminate]|discriminate].
Qed.

(* ---------- a closed reader that keeps its timer ---------- *)

(* a Connection's life as (duration in ms, how the session ended); number of
   handshakes performed.  Real design: one handshake per session.  Orphan
   design: the reader of a session that ended with a closed channel reconnects
   10 s after the close, tearing down a successor that is still alive then. *)
Definition handshakes (orphan_timer : bool) (sessions : list (N * session_end)) : nat :=
  let fix go (prev_closed : bool) (l : list (N * session_end)) : nat :=
    match l with
    | [] => 0%nat
    | (dur, e) :: t =>
        (1 + (if orphan_timer && prev_closed && (reconnect_timeout_ms <=? dur)%N then 1 else 0)
         + go (match e with SClosed => true | _ => false end) t)%nat
    end in
  go false sessions.

Theorem orphan_timer_refuted :
  let life := [(500, SClosed); (12000, SRunning)] in
  handshakes false life = 2%nat /\ handshakes true life = 3%nat.
Proof. vm_compute. split; reflexivity. Qed.

(* ---------- the key pair of the previous peer used for another server ---------- *)

(* toy key agreement: pub = identity, dh a b = bytewise sum (commutative) *)
Fixpoint vadd (a b : list N) : list N :=
  match a, b with x :: a', y :: b' => (x + y) mod 256 :: vadd a' b' | _, _ => [] end.
Definition hinit (k iv : list N) : N := fold_left N.add (k ++ iv) 1.
(* a position-sensitive toy hash *)
Definition hH2 (x : list N) : list N :=
  let h := fold_left (fun a b => (a * 31 + b + 1) mod 65521) x 7 in
  repeat (h mod 256) 16 ++ repeat (h / 256) 16.

Definition keyA : list N := repeat 11 32.
Definition keyB : list N := repeat 29 32.
Definition ckey : list N := repeat 5 32.
Definition hparams : list N := map N.of_nat (seq 0 160).

Theorem cached_keys_refuted :
  (* a handshake for B with the secret derived for B: accepted *)
  (match server_accept hH2 N hnext hinit vadd keyB keyB
           (handshake_bytes hH2 N hnext hinit keyB hparams ckey (vadd ckey keyB)) with
   | Some sv => sv_params N sv = hparams | None => False end) /\
  (* B's key id with the secret derived for A: B cannot decrypt the parameters *)
  server_accept hH2 N hnext hinit vadd keyB keyB
    (handshake_bytes hH2 N hnext hinit keyB hparams ckey (vadd ckey keyA)) = None.
Proof. vm_compute. split; reflexivity. Qed.
