(** The descriptor walker of Model/TlbHand.v: for every closed descriptor whose
    nesting fits the fuel, on every cell tree: no panic, no fuel error, and
    cost (steps + modelled allocation) <= usz(descriptor) x size x height of the
    tree; what is left of the cell is a suffix of what was there. *)
From Coq Require Import List NArith ZArith Arith Lia Bool.
From Tongo Require Import Lib.Bits Lib.Res Spec.Dict Model.Hashmap Model.TlbCore Model.TlbTotal
     Proofs.TlbTotalP Model.TlbHand Proofs.TlbHandP Proofs.TlbHandR Proofs.TlbHandR2 Proofs.TlbHandR3 Proofs.TlbHandR5.
Import ListNotations.
Local Open Scope N_scope.

Fixpoint usz (fuel : nat) (t : yty) : N :=
  match fuel with
  | O => 1
  | S f =>
      1 + match t with
          | YMaybe t' | YEitherRef t' | YRef t' | YMaybeRef t' => usz f t'
          | YEither l r => usz f l + usz f r
          | YStruct fs => fold_right (fun t1 a => usz f t1 + a) 0 fs
          | YSum alts => fold_right (fun a1 a => usz f (snd a1) + a) 0 alts
          | YSnake | YBytes => 66
          | YHashmap n vsz v => hm_k n vsz (usz f v) 0
          | YHashmapAug n vsz v e => hm_k n vsz (usz f v) (usz f e)
          | YVmStack => 914
          | YVmValue | YVmTuple => 1
          | YText => 67
          | YBinTree vsz v => 9 + vsz + usz f v
          | YHashed t' => 1 + usz f t'
          | YRefRaw t' => usz f t'
          | YNoLib t' => usz f t'
          | YPeek _ _ _ t0 t1 => usz f t0 + usz f t1
          | YRefRawOpt t' => usz f t'
          | YOpenStruct fs => fold_right (fun t1 a => usz f t1 + a) 0 fs
          | _ => 0
          end
  end.

(* closed (no YNamed) and nested no deeper than the fuel *)
Fixpoint yfits (fuel : nat) (t : yty) : bool :=
  match fuel with
  | O => false
  | S f =>
      match t with
      | YMaybe t' | YEitherRef t' | YRef t' | YMaybeRef t' => yfits f t'
      | YEither l r => yfits f l && yfits f r
      | YStruct fs => forallb (yfits f) fs
      | YSum alts => forallb (fun a => yfits f (snd a)) alts
      | YHashmap _ _ v => yfits f v
      | YHashmapAug _ _ v e => yfits f v && yfits f e
      | YBinTree _ v => yfits f v
      | YHashed t' | YRefRaw t' | YNoLib t' => yfits f t'
      | YPeek _ _ _ t0 t1 => yfits f t0 && yfits f t1
      | YRefRawOpt t' => yfits f t'
      | YOpenStruct fs => forallb (yfits f) fs
      | YNamed _ => false
      | _ => true
      end
  end.

Lemma cell_of_slice c : cell_of (slice_of c) = c.
Proof. destruct c; reflexivity. Qed.

Lemma xunary_len k : forall l r, xunary k l = Ok r -> (length r <= length l)%nat.
Proof.
  induction k as [ | k IH]; intros l r; cbn; [discriminate|].
  destruct l as [ | [ | ] t]; try discriminate.
  - intros E. specialize (IH t r E). cbn. lia.
  - intros E; inversion E; subst. cbn. lia.
Qed.

Lemma rd_len n l x : rd n l = Ok x -> (length (snd x) <= length l)%nat.
Proof.
  unfold rd. destruct (short n l); [discriminate|]. intros E; inversion E; subst; cbn.
  rewrite skipn_length. lia.
Qed.

Lemma any_parse_len l x : any_parse l = Ok x -> (length (snd x) <= length l)%nat.
Proof.
  unfold any_parse. destruct (rd 1 l) as [a | | ] eqn:E1; cbn [bind]; try discriminate.
  pose proof (rd_len _ _ _ E1).
  destruct (nth 0 (fst a) false).
  - destruct (rd 5 (snd a)) as [d | | ] eqn:E2; cbn [bind]; try discriminate.
    pose proof (rd_len _ _ _ E2). destruct (_ <? _); [discriminate|].
    destruct (rd _ (snd d)) as [p | | ] eqn:E3; cbn [bind]; try discriminate.
    pose proof (rd_len _ _ _ E3). intros E; inversion E; subst; cbn. lia.
  - intros E; inversion E; subst; cbn. lia.
Qed.

Ltac len_crunch :=
  repeat match goal with
         | |- context [bind (rd ?n ?l) _] =>
             let E := fresh "E" in
             destruct (rd n l) eqn:E; cbn [bind]; [pose proof (rd_len _ _ _ E) | discriminate | discriminate]
         | |- context [bind (any_parse ?l) _] =>
             let E := fresh "E" in
             destruct (any_parse l) eqn:E; cbn [bind]; [pose proof (any_parse_len _ _ E) | discriminate | discriminate]
         end;
  let E := fresh "E" in intros E; inversion E; subst; cbn [fst snd]; lia.

Lemma addr_parse_len l x : addr_parse l = Ok x -> (length (snd x) <= length l)%nat.
Proof.
  unfold addr_parse. destruct (rd 2 l) as [t | | ] eqn:E0; cbn [bind]; try discriminate.
  pose proof (rd_len _ _ _ E0) as H0.
  destruct (fst t) as [ | [ | ] [ | [ | ] [ | ? ? ]]]; len_crunch.
Qed.

Lemma ysub_bits k b' r s : (length b' <= length (yb s))%nat -> yr s = r -> ysub (mkys k b' r) s.
Proof. intros Hl Hr. split; cbn; [exact Hl | exists []; rewrite Hr; reflexivity]. Qed.

Lemma ysub_grams s s' : grams s = Ok s' -> ysub s' s.
Proof.
  unfold grams. destruct (ytake_bits 4 s) as [x | | ] eqn:E1; cbn [bind]; try discriminate.
  destruct (_ <? _); [discriminate|].
  destruct (ytake_bits _ (snd x)) as [y | | ] eqn:E2; cbn [bind]; try discriminate.
  intros E; inversion E; subst.
  eapply ysub_trans; [apply (ysub_take_bits _ _ _ E2) | apply (ysub_take_bits _ _ _ E1)].
Qed.
Lemma ysub_fixed_text s s' : fixed_text s = Ok s' -> ysub s' s.
Proof.
  unfold fixed_text. destruct (ytake_bits 8 s) as [x | | ] eqn:E1; cbn [bind]; try discriminate.
  destruct (ytake_bits _ (snd x)) as [y | | ] eqn:E2; cbn [bind]; try discriminate.
  intros E; inversion E; subst.
  eapply ysub_trans; [apply (ysub_take_bits _ _ _ E2) | apply (ysub_take_bits _ _ _ E1)].
Qed.

Section Main.
Variable env : list yty.
Variable hk : xtree -> bool.
Variable H : N.
Hypothesis HH : 1 <= H.

Definition dpost (u : N) (s : ys) (st : ct) (r : yres ys) : Prop :=
  ypost (fun s' => ysub s' s) (wt u H (cell_of s)) st r.

Lemma dpost_weaken u u' s st r : dpost u s st r -> u <= u' -> dpost u' s st r.
Proof.
  intros Hp Hu. eapply ypost_weaken; [exact Hp | | auto].
  unfold wt. apply N.mul_le_mono_r. apply N.mul_le_mono_r. exact Hu.
Qed.

(* a result established on a later slice of the same cell *)
Lemma dpost_sub u s0 s st r :
  ysub s0 s -> ypost (fun s' => ysub s' s0) (wt u H (cell_of s0)) st r -> dpost u s st r.
Proof.
  intros Hs Hp. eapply ypost_weaken; [exact Hp | apply wt_sub; exact Hs|].
  intros a Ha. eapply ysub_trans; [exact Ha | exact Hs].
Qed.

Lemma dpost_leaf s st (r : res ys) :
  good r -> (forall a, r = Ok a -> ysub a s) -> dpost 0 s st (ylift r st).
Proof. intros Hg Hs. apply ypost_lift; assumption. Qed.

Theorem ydec_cost : forall fuel t, yfits fuel t = true ->
  forall s st, thg (cell_of s) <= H -> dpost (usz fuel t) s st (ydec env hk no_resolver fuel t s st).
Proof.
  induction fuel as [ | f IH]; intros t Hfit s st Hs; [discriminate|].
  cbn [ydec]. lazy zeta. unfold no_resolver.
  (* the tick and the library check (no resolver: a library cell is an error) *)
  assert (Hhead : forall u r, dpost u s (tickc st) r ->
            dpost (1 + u) s st (if is_lib (yk s) && negb (match t with YRawCell | YAny | YOpenStruct _ | YRefRaw _ | YRefRawOpt _ => true | _ => false end)
                                then (if (match t with YNoLib _ => true | _ => false end) then yerr ETlb (tickc st)
                                      else if negb (hk (cell_of s)) then yerr ETlb (tickc st) else yerr ETlb (tickc st))
                                else r)).
  { intros u r Hr. unfold dpost. rewrite wt_add.
    pose proof (wt_ge 1 H (cell_of s) HH) as H1.
    eapply ypost_weaken with (b := wt u H (cell_of s) + 1) (P := fun s' => ysub s' s);
      [apply ypost_tick | lia | auto].
    apply ypost_if; [apply ypost_if; [|apply ypost_if]; apply ypost_err; discriminate | exact Hr]. }
  assert (Hbits : forall w st0, dpost 0 s st0 (doy (x, st1) <- ylift (ytake_bits w s) st0; yret (snd x) st1)).
  { intros w st0. unfold dpost.
    eapply ypost_weaken.
    - eapply ypost_bind with (b1 := 0) (b2 := 0) (P := fun x => ysub (snd x) s) (Q := fun s' => ysub s' s).
      + apply ypost_lift; [apply good_ytake_bits | intros a E; apply (ysub_take_bits _ _ _ E)].
      + intros a st' Ha. apply (ypost_ret (fun s' => ysub s' s)). exact Ha.
    - lia.
    - auto. }
  (* decoding the cell behind a reference of the slice s0 *)
  assert (Hinto : forall t' chk s0 (cr : xtree * ys) st0,
            yfits f t' = true -> ysub s0 s -> ytake_ref s0 = Ok cr ->
            dpost (usz f t') s st0
              (match sub_slice (fst cr) chk with
               | Some s2 => doy (_, st1) <- ydec env hk no_resolver f t' s2 st0; yret (snd cr) st1
               | None => yret (snd cr) st0
               end)).
  { intros t' chk s0 cr st0 Hf Hs0 Hcr.
    destruct (ysub_take_ref _ _ Hcr) as [Hsub Hrefs].
    assert (Hres : ysub (snd cr) s) by (eapply ysub_trans; [exact Hsub | exact Hs0]).
    unfold sub_slice. destruct (chk && _).
    - apply ypost_ret. exact Hres.
    - assert (Hc : thg (fst cr) <= H).
      { pose proof (ysub_thg _ _ Hs0) as Ht0. unfold cell_of in Ht0 at 1. rewrite Hrefs, thg_cons in Ht0. lia. }
      assert (Hw : wt (usz f t') H (fst cr) <= wt (usz f t') H (cell_of s)).
      { etransitivity; [|apply (wt_sub _ H _ _ Hs0)].
        unfold cell_of at 1. rewrite Hrefs, wt_cons. lia. }
      eapply ypost_weaken.
      + eapply ypost_bind with (b2 := 0) (Q := fun s' => ysub s' s).
        * specialize (IH t' Hf (slice_of (fst cr)) st0). rewrite cell_of_slice in IH. apply (IH Hc).
        * intros _ st1 _. apply (ypost_ret (fun s' => ysub s' s)). exact Hres.
      + rewrite cell_of_slice. lia.
      + auto. }
  (* one bit, then ... *)
  assert (Hbit : forall u (k : bits * ys -> ct -> yres ys),
            (forall x st0, ysub (snd x) s -> dpost u s st0 (k x st0)) ->
            dpost u s (tickc st) (doy (x, st1) <- ylift (ytake_bits 1 s) (tickc st); k x st1)).
  { intros u k Hk. unfold dpost.
    eapply ypost_weaken.
    - eapply ypost_bind with (b1 := 0) (P := fun x => ysub (snd x) s) (Q := fun s' => ysub s' s).
      + apply ypost_lift; [apply good_ytake_bits | intros a E; apply (ysub_take_bits _ _ _ E)].
      + intros a st' Ha. apply (Hk a st' Ha).
    - lia.
    - auto. }
  assert (Hsubcall : forall t' s0 st0, yfits f t' = true -> ysub s0 s -> dpost (usz f t') s st0 (ydec env hk no_resolver f t' s0 st0)).
  { intros t' s0 st0 Hf Hs0. apply (dpost_sub _ s0 s _ _ Hs0).
    apply (IH t' Hf s0 st0). etransitivity; [apply (ysub_thg _ _ Hs0) | exact Hs]. }
  assert (Hthen_ref : forall t' chk (x : bits * ys) st0, yfits f t' = true -> ysub (snd x) s ->
            dpost (usz f t') s st0 (doy (cr, st1) <- ylift (ytake_ref (snd x)) st0;
                                   match sub_slice (fst cr) chk with
                                   | Some s2 => doy (_, st2) <- ydec env hk no_resolver f t' s2 st1; yret (snd cr) st2
                                   | None => yret (snd cr) st1
                                   end)).
  { intros t' chk x st0 Hf Hx. unfold dpost.
    eapply ypost_weaken.
    - eapply ypost_bind with (b1 := 0) (P := fun cr => ytake_ref (snd x) = Ok cr) (Q := fun s' => ysub s' s).
      + apply ypost_lift; [apply good_ytake_ref | auto].
      + intros cr st1 Hcr. apply (Hinto t' chk (snd x) cr st1 Hf Hx Hcr).
    - lia.
    - auto. }
  cbn [usz yfits] in *.
  destruct t; apply Hhead; unfold ybody; lazy zeta; try (apply Hbits).
  - (* YInt *) apply ypost_if; [apply ypost_err; discriminate | apply Hbits].
  - (* YVarUInt *)
    unfold dpost. eapply ypost_weaken.
    + eapply ypost_bind with (b1 := 0) (b2 := 0) (P := fun x => ysub (snd x) s) (Q := fun s' => ysub s' s).
      * apply ypost_lift; [apply good_ytake_bits | intros a E; apply (ysub_take_bits _ _ _ E)].
      * intros x st1 Hx.
        eapply ypost_bind with (b1 := 0) (b2 := 0) (P := fun y => ysub (snd y) (snd x)) (Q := fun s' => ysub s' s).
        -- apply ypost_lift; [apply good_ytake_bits | intros a E; apply (ysub_take_bits _ _ _ E)].
        -- intros y st2 Hy. apply (ypost_ret (fun s' => ysub s' s)). eapply ysub_trans; eassumption.
    + lia.
    + auto.
  - (* YUnary *)
    unfold dpost. eapply ypost_weaken.
    + eapply ypost_bind with (b1 := 0) (b2 := 0) (P := fun r => (length r <= length (yb s))%nat) (Q := fun s' => ysub s' s).
      * apply ypost_lift; [apply good_xunary | intros a E; apply (xunary_len _ _ _ E)].
      * intros r st1 Hr. apply (ypost_ret (fun s' => ysub s' s)). apply ysub_bits; [exact Hr | reflexivity].
    + lia.
    + auto.
  - (* YMagic *)
    apply ypost_if.
    + apply ypost_if; [apply ypost_ret; apply ysub_refl | apply ypost_err; discriminate].
    + unfold dpost. eapply ypost_weaken.
      * eapply ypost_bind with (b1 := 0) (b2 := 0) (P := fun x => ysub (snd x) s) (Q := fun s' => ysub s' s).
        -- apply ypost_lift; [apply good_ytake_bits | intros a E; apply (ysub_take_bits _ _ _ E)].
        -- intros x st1 Hx. apply ypost_if; [apply (ypost_ret (fun s' => ysub s' s)); exact Hx | apply ypost_err; discriminate].
      * lia.
      * auto.
  - (* YMaybe *)
    apply Hbit. intros x st0 Hx. apply ypost_if; [apply Hsubcall; assumption | apply ypost_ret; exact Hx].
  - (* YEither *)
    apply andb_prop in Hfit. destruct Hfit as [Hf1 Hf2].
    apply Hbit. intros x st0 Hx. apply ypost_if.
    + eapply dpost_weaken; [apply Hsubcall; assumption | lia].
    + eapply dpost_weaken; [apply Hsubcall; assumption | lia].
  - (* YEitherRef *)
    apply Hbit. intros x st0 Hx. apply ypost_if; [apply Hthen_ref; assumption | apply Hsubcall; assumption].
  - (* YRef *)
    apply (Hthen_ref t false (@nil bool, s) (tickc st) Hfit (ysub_refl s)) || apply (Hthen_ref t true (@nil bool, s) (tickc st) Hfit (ysub_refl s)).
  - (* YMaybeRef *)
    apply Hbit. intros x st0 Hx. apply ypost_if; [apply Hthen_ref; assumption | apply ypost_ret; exact Hx].
  - (* YStruct *)
    assert (Hgo : forall fs0, forallb (yfits f) fs0 = true -> forall s0 st0, ysub s0 s ->
              dpost (fold_right (fun t1 a => usz f t1 + a) 0 fs0) s st0
                ((fix go (fs : list yty) (s : ys) (st : ct) : yres ys :=
                    match fs with
                    | [] => yret s st
                    | t1 :: ft => doy (s1, st) <- ydec env hk no_resolver f t1 s st; go ft s1 st
                    end) fs0 s0 st0)).
    { induction fs0 as [ | t1 ft IHf]; intros Hff s0 st0 Hs0.
      - apply ypost_ret. exact Hs0.
      - cbn [forallb] in Hff. apply andb_prop in Hff. destruct Hff as [Hf1 Hft].
        cbn [fold_right]. unfold dpost. rewrite wt_add.
        eapply ypost_bind with (P := fun s1 => ysub s1 s).
        + apply (Hsubcall t1 s0 st0 Hf1 Hs0).
        + intros s1 st1 Hs1. apply (IHf Hft s1 st1 Hs1). }
    apply (Hgo fs Hfit s (tickc st) (ysub_refl s)).
  - (* YSum *)
    induction alts as [ | [[len val] t'] rest IHa].
    + apply ypost_err. discriminate.
    + cbn [forallb snd] in Hfit. apply andb_prop in Hfit. destruct Hfit as [Hf1 Hfr].
      cbn [fold_right snd].
      apply ypost_if; [eapply dpost_weaken; [apply (IHa Hfr) | lia]|].
      apply ypost_if; [|eapply dpost_weaken; [apply (IHa Hfr) | lia]].
      eapply dpost_weaken; [apply Hsubcall; [exact Hf1|] | lia].
      apply ysub_bits; [cbn; rewrite skipn_length; lia | reflexivity].
  - (* YAny *)
    apply ypost_ret. split; cbn; [lia | exists (yr s); rewrite app_nil_r; reflexivity].
  - (* YCellRef *)
    unfold dpost. eapply ypost_weaken.
    + eapply ypost_bind with (b1 := 0) (b2 := 0) (P := fun x => ysub (snd x) s) (Q := fun s' => ysub s' s).
      * apply ypost_lift; [apply good_ytake_ref | intros a E; apply (ysub_take_ref _ _ E)].
      * intros x st1 Hx. apply (ypost_ret (fun s' => ysub s' s)). exact Hx.
    + lia.
    + auto.
  - (* YAddr *)
    unfold dpost. eapply ypost_weaken.
    + eapply ypost_bind with (b1 := 0) (b2 := 0) (P := fun x => (length (snd x) <= length (yb s))%nat) (Q := fun s' => ysub s' s).
      * apply ypost_lift; [apply good_addr_parse | intros a E; apply (addr_parse_len _ _ E)].
      * intros x st1 Hx. apply (ypost_ret (fun s' => ysub s' s)). apply ysub_bits; [exact Hx | reflexivity].
    + lia.
    + auto.
  - (* YNamed *) discriminate.
  - (* YGrams *) apply dpost_leaf; [apply good_grams | apply ysub_grams].
  - (* YSnake *)
    unfold dpost, wt.
    eapply ypost_weaken.
    + eapply ypost_bind with (b2 := 0) (Q := fun s' => ysub s' s).
      * apply (snake_cost (cell_of s)).
      * intros r st1 [_ Hr]. apply (ypost_ret (fun s' => ysub s' s)).
        destruct s; exact Hr.
    + assert (66 * tsz (cell_of s) * thg (cell_of s) <= 66 * tsz (cell_of s) * H) by (apply N.mul_le_mono_l; exact Hs). lia.
    + auto.
  - (* YBytes *)
    unfold dpost, wt.
    eapply ypost_weaken.
    + eapply ypost_bind with (b2 := 0) (Q := fun s' => ysub s' s).
      * apply (snake_cost (cell_of s)).
      * intros r st1 [_ Hr]. apply ypost_if; [|apply ypost_err; discriminate].
        apply (ypost_ret (fun s' => ysub s' s)). destruct s; exact Hr.
    + assert (66 * tsz (cell_of s) * thg (cell_of s) <= 66 * tsz (cell_of s) * H) by (apply N.mul_le_mono_l; exact Hs). lia.
    + auto.
  - (* YFixedText *) apply dpost_leaf; [apply good_fixed_text | apply ysub_fixed_text].
  - (* YHashmap *)
    unfold dpost, hm_decode.
    eapply ypost_weaken.
    + apply (hm_tree_cost (ydec env hk no_resolver f t) None n vsz H (usz f t) 0 HH).
      * intros s0 st0 Hs0. apply (IH t Hfit s0 st0 Hs0).
      * intros e He. discriminate.
      * exact Hs.
    + lia.
    + intros a Ha. destruct s; exact Ha.
  - (* YHashmapAug *)
    apply andb_prop in Hfit. destruct Hfit as [Hf1 Hf2].
    unfold dpost, hm_decode.
    eapply ypost_weaken.
    + apply (hm_tree_cost (ydec env hk no_resolver f t1) (Some (ydec env hk no_resolver f t2)) n vsz H (usz f t1) (usz f t2) HH).
      * intros s0 st0 Hs0. apply (IH t1 Hf1 s0 st0 Hs0).
      * intros e He. inversion He; subst. intros s0 st0 Hs0. apply (IH t2 Hf2 s0 st0 Hs0).
      * exact Hs.
    + lia.
    + intros a Ha. destruct s; exact Ha.
  - (* YVmStack *)
    unfold vm_stack, dpost.
    eapply ypost_weaken.
    + eapply ypost_bind with (b1 := 0) (P := fun x => ysub (snd x) s) (Q := fun s' => ysub s' s)
                             (b2 := vm_list_bound (cell_of s)).
      * apply ypost_lift; [apply good_ytake_bits | intros a E; apply (ysub_take_bits _ _ _ E)].
      * intros x st1 Hx. apply ypost_if; [apply (ypost_ret (fun s' => ysub s' s)); exact Hx|].
        eapply ypost_weaken.
        -- eapply ypost_bind with (b2 := 0) (Q := fun s' => ysub s' s).
           ++ apply (vm_list_cost (cell_of (snd x))).
           ++ intros r st2 [_ Hr]. apply (ypost_ret (fun s' => ysub s' s)).
              eapply ysub_trans; [|exact Hx]. destruct (snd x); exact Hr.
        -- unfold vm_list_bound.
           pose proof (ysub_tsz _ _ Hx) as Ht. pose proof (ysub_thg _ _ Hx) as Hg.
           assert (thg (cell_of (snd x)) * thg (cell_of (snd x)) <= thg (cell_of s) * thg (cell_of s))
             by (apply N.mul_le_mono; exact Hg).
           lia.
        -- auto.
    + unfold vm_list_bound, wt.
      set (t := tsz (cell_of s)) in *. set (h := thg (cell_of s)) in *.
      pose proof (thg_le_tsz (cell_of s)) as Hle. fold t h in Hle.
      assert (H1 : h * h <= t * H) by (apply N.mul_le_mono; assumption).
      assert (H2 : t <= t * H) by (rewrite <- (N.mul_1_r t) at 1; apply N.mul_le_mono_l; exact HH).
      rewrite <- N.mul_assoc. lia.
    + auto.
  - (* YVmValue *)
    unfold vm_value, dpost, wt.
    eapply ypost_weaken.
    + apply (vmw_cost (cell_of s) None).
    + set (t := tsz (cell_of s)).
      assert (H2 : t <= t * H) by (rewrite <- (N.mul_1_r t) at 1; apply N.mul_le_mono_l; exact HH). lia.
    + intros a Ha. destruct s; exact Ha.
  - (* YVmTuple *)
    unfold vm_tuple, dpost.
    eapply ypost_weaken.
    + eapply ypost_bind with (b1 := 0) (P := fun x => ysub (snd x) s) (Q := fun s' => ysub s' s)
                             (b2 := tsz (cell_of s)).
      * apply ypost_lift; [apply good_ytake_bits | intros a E; apply (ysub_take_bits _ _ _ E)].
      * intros x st1 Hx. eapply ypost_weaken.
        -- apply (vmw_cost (cell_of (snd x))).
        -- apply (ysub_tsz _ _ Hx).
        -- intros a Ha. eapply ysub_trans; [|exact Hx]. destruct (snd x); exact Ha.
    + unfold wt. set (t := tsz (cell_of s)).
      assert (H2 : t <= t * H) by (rewrite <- (N.mul_1_r t) at 1; apply N.mul_le_mono_l; exact HH). lia.
    + auto.
  - (* YCellSlice *) apply dpost_leaf; [apply good_vm_cellslice | apply ysub_vm_cellslice].
  - (* YFail *) apply ypost_err. discriminate.
  - (* YRawCell *) apply ypost_ret. apply ysub_refl.
  - (* YText *)
    unfold dpost, wt.
    eapply ypost_weaken.
    + eapply ypost_bind with (b2 := tsz (cell_of s)) (Q := fun s' => ysub s' s).
      * apply (snake_cost (cell_of s)).
      * intros r st1 [Hn Hr]. apply ypost_if; [|apply ypost_err; discriminate].
        assert (Hd : fst r / 8 <= tsz (cell_of s)) by (apply div8_le; exact Hn).
        eapply ypost_weaken with (b := 0 + fst r / 8) (P := fun s' => ysub s' s); [apply ypost_chg | lia | auto].
        apply ypost_if; [|apply ypost_err; discriminate].
        apply (ypost_ret (fun s' => ysub s' s)). destruct s; exact Hr.
    + set (t := tsz (cell_of s)) in *.
      assert (66 * t * thg (cell_of s) <= 66 * t * H) by (apply N.mul_le_mono_l; exact Hs).
      assert (t <= t * H) by (rewrite <- (N.mul_1_r t) at 1; apply N.mul_le_mono_l; exact HH).
      lia.
    + auto.
  - (* YBinTree *)
    unfold dpost.
    destruct s as [k b refs]. unfold cell_of in *. cbn [yk yb yr] in *.
    set (c := XT k b refs) in *.
    assert (Ht1 : tsz c <= tsz c * H) by (rewrite <- (N.mul_1_r (tsz c)) at 1; apply N.mul_le_mono_l; exact HH).
    assert (Hc1 : 1 <= tsz c) by apply tsz_pos.
    assert (Hb9 : 9 * tsz c * thg c <= 9 * tsz c * H) by (apply N.mul_le_mono_l; exact Hs).
    assert (Hbv : vsz * tsz c <= vsz * tsz c * H).
    { rewrite <- (N.mul_1_r (vsz * tsz c)) at 1. apply N.mul_le_mono_l. exact HH. }
    assert (Hbound : 9 * tsz c * thg c + (vsz * tsz c + usz f t * tsz c * H) <= wt (9 + vsz + usz f t) H c).
    { unfold wt. rewrite !N.mul_add_distr_r. lia. }
    destruct b as [ | [ | ] b'].
    + (* no bit to read *)
      subst c. cbn [bt_tree]. lazy zeta. cbn [ybind yerr].
      split; cbn [fst snd]; [rewrite cost_tickc|discriminate].
      pose proof (wt_ge (9 + vsz + usz f t) H (XT k [] refs) HH). lia.
    + (* a fork *)
      eapply ypost_weaken with (P := fun s' => ysub s' (mkys k (true :: b') refs)); [|exact Hbound|intros a Ha; exact Ha].
      eapply ypost_bind with (P := bt_ok c) (Q := fun s' => ysub s' (mkys k (true :: b') refs)).
      * apply (bt_tree_cost c).
      * intros leaves st1 [HF [Hsz Hlen]].
        assert (HFH : Forall (fun x => thg (cell_of x) <= H) leaves).
        { eapply Forall_impl; [|exact HF]. intros x Hx. cbv beta in Hx. lia. }
        eapply ypost_weaken with (b := (usz f t * tsz c * H) + vsz * N.of_nat (length leaves))
                                 (P := fun s' => ysub s' (mkys k (true :: b') refs));
          [apply ypost_chg | | auto].
        -- eapply ypost_weaken.
           ++ eapply ypost_bind with (b2 := 0) (Q := fun s' => ysub s' (mkys k (true :: b') refs)).
              ** apply (bt_leaves_cost (ydec env hk no_resolver f t) H (usz f t)).
                 --- intros s0 st0 Hs0. apply (IH t Hfit s0 st0 Hs0).
                 --- exact HFH.
              ** intros last st2 _.
                 apply (ypost_ret (fun s' => ysub s' (mkys k (true :: b') refs))).
                 split; cbn; [lia|]. exists (firstn 2 refs). symmetry. apply firstn_skipn.
           ++ assert (usz f t * lsz leaves * H <= usz f t * tsz c * H).
              { apply N.mul_le_mono_r. apply N.mul_le_mono_l. exact Hsz. }
              lia.
           ++ auto.
        -- assert (vsz * N.of_nat (length leaves) <= vsz * tsz c) by (apply N.mul_le_mono_l; exact Hlen). lia.
    + (* the cell itself is the only leaf *)
      subst c. cbn [bt_tree]. lazy zeta. cbn [ybind yret length bt_leaves].
      set (c := XT k (false :: b') refs) in *.
      set (x := mkys k b' refs).
      assert (Hx : ysub x (mkys k (false :: b') refs)) by (split; cbn; [lia | exists []; reflexivity]).
      assert (Hxh : thg (cell_of x) <= H) by (unfold x, cell_of; cbn [yk yb yr]; rewrite (thg_kb k b' k (false :: b')); exact Hs).
      eapply ypost_weaken with (b := ((wt (usz f t) H (cell_of x)) + vsz * 1) + 1)
                               (P := fun s' => ysub s' (mkys k (false :: b') refs)).
      * apply ypost_tick. apply ypost_chg.
        eapply ypost_weaken with (P := fun s' => ysub s' x).
        -- eapply ypost_bind with (b2 := 0) (P := fun s' => ysub s' x) (Q := fun s' => ysub s' x).
           ++ eapply ypost_bind with (b2 := 0) (P := fun s' => ysub s' x) (Q := fun s' => ysub s' x).
              ** apply (IH t Hfit x _ Hxh).
              ** intros s1 st2 Hs1. apply (ypost_ret (fun s' => ysub s' x)). exact Hs1.
           ++ intros s1 st2 Hs1. apply (ypost_ret (fun s' => ysub s' x)). exact Hs1.
        -- lia.
        -- intros a Ha. eapply ysub_trans; [exact Ha | exact Hx].
      * pose proof (wt_sub (usz f t) H x (mkys k (false :: b') refs) Hx) as Hw.
        unfold cell_of in Hw at 2. cbn [yk yb yr] in Hw. fold c in Hw.
        assert (A1 : vsz * 1 <= vsz * tsz c) by (apply N.mul_le_mono_l; exact Hc1).
        assert (A2 : 9 * 1 * 1 <= 9 * tsz c * H) by (apply N.mul_le_mono; [apply N.mul_le_mono_l|]; assumption).
        unfold wt in *. rewrite !N.mul_add_distr_r. lia.
      * intros a Ha. exact Ha.
  - (* YHashed *)
    unfold dpost. rewrite wt_add.
    assert (Ht1 : tsz (cell_of s) <= wt 1 H (cell_of s)).
    { unfold wt. rewrite N.mul_1_l. rewrite <- (N.mul_1_r (tsz (cell_of s))) at 1. apply N.mul_le_mono_l. exact HH. }
    eapply ypost_weaken with (b := wt (usz f t) H (cell_of s) + tsz (cell_of s)) (P := fun s' => ysub s' s);
      [apply ypost_chg | lia | auto].
    apply ypost_if; [apply (IH t Hfit s _ Hs) | apply ypost_err; discriminate].
  - (* YRefRaw *)
    apply (Hthen_ref t false (@nil bool, s) (tickc st) Hfit (ysub_refl s)).
  - (* YNoLib *)
    apply (Hsubcall t s (tickc st) Hfit (ysub_refl s)).
  - (* YPeek *)
    apply andb_prop in Hfit. destruct Hfit as [Hf0 Hf1].
    apply ypost_if; [apply ypost_err; discriminate|].
    apply ypost_if.
    + eapply dpost_weaken; [apply (Hsubcall t2 s (tickc st) Hf1 (ysub_refl s)) | lia].
    + eapply dpost_weaken; [apply (Hsubcall t1 s (tickc st) Hf0 (ysub_refl s)) | lia].
  - (* YRefRawOpt *)
    destruct (yr s) as [ | c0 r0] eqn:Er; [apply ypost_ret; apply ysub_refl|].
    apply (Hthen_ref t false (@nil bool, s) (tickc st) Hfit (ysub_refl s)).
  - (* YOpenStruct *)
    assert (Hgo : forall fs0, forallb (yfits f) fs0 = true -> forall s0 st0, ysub s0 s ->
              dpost (fold_right (fun t1 a => usz f t1 + a) 0 fs0) s st0
                ((fix go (fs : list yty) (s : ys) (st : ct) : yres ys :=
                    match fs with
                    | [] => yret s st
                    | t1 :: ft => doy (s1, st) <- ydec env hk no_resolver f t1 s st; go ft s1 st
                    end) fs0 s0 st0)).
    { induction fs0 as [ | t1 ft IHf]; intros Hff s0 st0 Hs0.
      - apply ypost_ret. exact Hs0.
      - cbn [forallb] in Hff. apply andb_prop in Hff. destruct Hff as [Hf1 Hft].
        cbn [fold_right]. unfold dpost. rewrite wt_add.
        eapply ypost_bind with (P := fun s1 => ysub s1 s).
        + apply (Hsubcall t1 s0 st0 Hf1 Hs0).
        + intros s1 st1 Hs1. apply (IHf Hft s1 st1 Hs1). }
    apply (Hgo fs Hfit s (tickc st) (ysub_refl s)).
Qed.
End Main.
