(** Main induction for Model/TlTotal.v: under the decidable schema condition
    [sok], tl.Unmarshal of any described Go type satisfies its static triple
    (never panics, never runs out of fuel, allocation + steps linear). *)
From Coq Require Import String List NArith PArith Arith Lia Bool.
From Tongo Require Import Lib.Bits Lib.Res Spec.TlWire Model.Tl Model.TlTotal Proofs.TlTotalP.
Import ListNotations.
Local Open Scope N_scope.

Lemma suml_app l1 l2 : suml (l1 ++ l2) = suml l1 + suml l2.
Proof. unfold suml. induction l1; cbn; lia. Qed.

Lemma maxl_in x l : In x l -> x <= maxl l.
Proof.
  unfold maxl. induction l as [ | y l IH]; cbn; intros H; [contradiction|].
  destruct H as [-> | H]; [lia | specialize (IH H); lia].
Qed.

Lemma fold_min_le_init y l : fold_right N.min y l <= y.
Proof. induction l; cbn; lia. Qed.

Lemma minl_in x l : In x l -> minl l <= x.
Proof.
  destruct l as [ | y l]; [contradiction|]. cbn [minl].
  induction l as [ | z l IH]; intros H; cbn [fold_right].
  - destruct H as [-> | []]. lia.
  - destruct H as [-> | [-> | H]].
    + pose proof (fold_min_le_init x l). lia.
    + lia.
    + assert (H' : In x (y :: l)) by (right; exact H). specialize (IH H'). lia.
Qed.

Lemma find_ucase_in id cs c ss :
  find_ucase id cs = Some (c, ss) -> exists i, In (i, c, ss) cs.
Proof.
  induction cs as [ | [[i c'] ss'] cs IH]; cbn; [discriminate|].
  destruct (i =? id).
  - intros E; inversion E; subst. exists i. now left.
  - intros E. destruct (IH E) as [j Hj]. exists j. now right.
Qed.

Section Level.
  Variable B : bindings.
  Variable sl : N.
  Variable D : gty -> T value.
  Variables (Fok : gty -> bool) (Fw Fk Fe : gty -> N).
  Hypothesis HD : forall ft, Fok ft = true -> tri sl (D ft) (Fw ft) 0 (Fk ft) (Fe ft).

  Let Fq := fun x => Fk x + Fe x.

  Lemma tri_uaccess sty pre a r :
    acc_ok Fok sty pre a = true ->
    tri sl (run_uaccessT B D sty pre a r)
        (acc_q B Fw false sty pre a) 0 (acc_q B Fk true sty pre a) (acc_q B Fq true sty pre a).
  Proof.
    unfold acc_ok, run_uaccessT, acc_q.
    destruct (acc_ty sty pre a) as [[[f ft] byptr] | ]; intros Hok.
    - cbn [andb].
      eapply tri_weaken.
      + eapply tri_bind; [apply tri_charge|]. intros _.
        eapply tri_bind; [apply (HD ft Hok)|]. intros v. apply (tri_ret sl _ 0).
      + lia.
      + lia.
      + unfold Fq. lia.
    - eapply tri_weaken; [apply (tri_fail sl EModel 0 0 0 EModel_nf) | lia | lia | lia].
  Qed.

  Lemma tri_uaccesses sty pre l : forall r,
    forallb (acc_ok Fok sty pre) l = true ->
    tri sl (run_uaccessesT B D sty pre l r)
        0 0 (suml (map (acc_q B Fk true sty pre) l)) (suml (map (acc_q B Fq true sty pre) l)).
  Proof.
    induction l as [ | a l IH]; intros r Hok; cbn [run_uaccessesT map suml fold_right].
    - apply tri_ret.
    - cbn [forallb] in Hok. apply andb_prop in Hok. destruct Hok as [Ha Hl].
      eapply tri_weaken.
      + eapply tri_bind; [apply (tri_uaccess sty pre a r Ha)|]. intros r'. apply (IH r' Hl).
      + lia.
      + fold (suml (map (acc_q B Fk true sty pre) l)). lia.
      + fold (suml (map (acc_q B Fq true sty pre) l)).
        fold (suml (map (acc_q B Fk true sty pre) l)).
        assert (Hle : acc_q B Fk true sty pre a <= acc_q B Fq true sty pre a).
        { unfold acc_q, Fq. destruct (acc_ty sty pre a) as [[[f ft] bp] | ]; lia. }
        lia.
  Qed.

  Lemma acc_q_le sty pre a : acc_q B Fk true sty pre a <= acc_q B Fq true sty pre a.
  Proof. unfold acc_q, Fq. destruct (acc_ty sty pre a) as [[[f ft] bp] | ]; lia. Qed.

  Lemma tri_ustmt sty pre s r :
    stmt_ok Fok sty pre s = true ->
    tri sl (run_ustmtT B D sty pre s r)
        (stmt_q B Fw false false sty pre s) 0
        (stmt_q B Fk true true sty pre s) (stmt_q B Fq true true sty pre s).
  Proof.
    destruct s as [a | m n body | id | id | nm | what]; cbn [stmt_ok run_ustmtT stmt_q]; intros Hok.
    - apply tri_uaccess; exact Hok.
    - destruct (N.testbit (mode_of r m) n).
      + apply tri_uaccesses; exact Hok.
      + eapply tri_weaken; [apply (tri_ret sl r 0) | lia | lia | lia].
    - eapply tri_weaken; [apply (tri_fail sl EModel 0 0 0 EModel_nf) | lia | lia | lia].
    - eapply tri_weaken.
      + eapply tri_bind with (w2 := 0) (g2 := 0) (k2 := 0) (e2 := 0); [apply (HD GU32 Hok)|].
        intros v. destruct v as [x | | | | ].
        * destruct (x =? id).
          -- apply tri_ret.
          -- apply (tri_fail sl EInvalid 0 0 0 EInvalid_nf).
        * apply (tri_fail sl EModel 0 0 0 EModel_nf).
        * apply (tri_fail sl EModel 0 0 0 EModel_nf).
        * apply (tri_fail sl EModel 0 0 0 EModel_nf).
        * apply (tri_fail sl EModel 0 0 0 EModel_nf).
      + lia.
      + lia.
      + unfold Fq. lia.
    - eapply tri_weaken.
      + eapply tri_bind with (w2 := 0) (g2 := 0) (k2 := 0) (e2 := 0); [apply (HD (GNamed nm) Hok)|].
        intros v. destruct v as [ | | | | c fs].
        * apply (tri_fail sl EModel 0 0 0 EModel_nf).
        * apply (tri_fail sl EModel 0 0 0 EModel_nf).
        * apply (tri_fail sl EModel 0 0 0 EModel_nf).
        * apply (tri_fail sl EModel 0 0 0 EModel_nf).
        * apply tri_ret.
      + lia.
      + lia.
      + unfold Fq. lia.
    - eapply tri_weaken; [apply (tri_fail sl EModel 0 0 0 EModel_nf) | lia | lia | lia].
  Qed.

  Lemma stmt_q_le sty pre s : stmt_q B Fk true true sty pre s <= stmt_q B Fq true true sty pre s.
  Proof.
    destruct s as [a | m n body | id | id | nm | what]; cbn [stmt_q]; unfold Fq; try lia.
    - apply acc_q_le.
    - induction body as [ | a l IH]; cbn [map suml fold_right]; [lia|].
      pose proof (acc_q_le sty pre a) as Ha. unfold Fq in Ha.
      fold (suml (map (acc_q B Fk true sty pre) l)).
      fold (suml (map (acc_q B (fun x => Fk x + Fe x) true sty pre) l)). lia.
  Qed.

  Lemma stmts_q_le sty pre ss : stmts_q B Fk true true sty pre ss <= stmts_q B Fq true true sty pre ss.
  Proof.
    unfold stmts_q. induction ss as [ | s ss IHs]; cbn [map suml fold_right]; [lia|].
    pose proof (stmt_q_le sty pre s). unfold suml in *. lia.
  Qed.

  Lemma tri_ustmts sty pre ss : forall r,
    forallb (stmt_ok Fok sty pre) ss = true ->
    tri sl (run_ustmtsT B D sty pre ss r)
        (stmts_q B Fw false false sty pre ss) 0
        (stmts_q B Fk true true sty pre ss) (stmts_q B Fq true true sty pre ss).
  Proof.
    unfold stmts_q.
    induction ss as [ | s ss IH]; intros r Hok; cbn [run_ustmtsT map suml fold_right].
    - apply tri_ret.
    - cbn [forallb] in Hok. apply andb_prop in Hok. destruct Hok as [Hs Hl].
      eapply tri_weaken.
      + eapply tri_bind; [apply (tri_ustmt sty pre s r Hs)|]. intros r'. apply (IH r' Hl).
      + unfold suml. lia.
      + unfold suml. lia.
      + pose proof (stmt_q_le sty pre s). unfold suml in *. lia.
  Qed.

  Lemma tri_dec_struct fs : forall r,
    forallb (fun f => Fok (snd f)) fs = true ->
    tri sl (dec_structT D fs r)
        (suml (map (fun f => Fw (snd f)) fs)) 0
        (suml (map (fun f => Fk (snd f)) fs)) (suml (map (fun f => Fk (snd f) + Fe (snd f)) fs)).
  Proof.
    induction fs as [ | [f ft] fs IH]; intros r Hok; cbn [dec_structT map suml fold_right snd].
    - apply tri_ret.
    - cbn [forallb snd] in Hok. apply andb_prop in Hok. destruct Hok as [Hf Hl].
      eapply tri_weaken.
      + eapply tri_bind; [apply (HD ft Hf)|]. intros v. apply (IH _ Hl).
      + unfold suml. lia.
      + unfold suml. lia.
      + unfold suml. lia.
  Qed.
End Level.

Lemma slope_S rate k : slope rate (S k) = slope rate k + rate.
Proof. unfold slope. rewrite Nat2N.inj_succ. lia. Qed.

Lemma slope_base rate k : 5 <= slope rate k.
Proof. unfold slope, base_slope. lia. Qed.

Theorem gdecT_tri B rate : forall fuel t,
  sok B rate fuel t = true ->
  tri (slope rate fuel) (gdecT B fuel t) (ww B fuel t) 0 (kk B fuel t) (ee B fuel t).
Proof.
  induction fuel as [ | k IH]; intros t Hok; [discriminate|].
  assert (IH' : forall ft, sok B rate k ft = true ->
                tri (slope rate (S k)) (gdecT B k ft) (ww B k ft) 0 (kk B k ft) (ee B k ft)).
  { intros ft H. eapply tri_slope; [|apply IH; exact H]. rewrite slope_S. lia. }
  pose proof (slope_base rate (S k)) as H5.
  cbn [gdecT]. unfold own.
  assert (Hhead : forall X (m : T X) w kx ex,
            tri (slope rate (S k)) m w 0 kx ex ->
            tri (slope rate (S k)) (dot _ <- tick; dot _ <- charge (gsize B t); m)
                w 0 (1 + gsize B t + kx) (1 + gsize B t + ex)).
  { intros X m w kx ex Hm. eapply tri_weaken.
    - eapply tri_bind; [apply tri_tick|]. intros _.
      eapply tri_bind; [apply tri_charge|]. intros _. exact Hm.
    - lia.
    - lia.
    - lia. }
  destruct t as [ | | | | | | e | e | n | fs | | o]; cbn [ww kk ee sok] in *; unfold own, bytes_err.
  - (* GU32 *)
    apply Hhead. eapply tri_weaken.
    + eapply tri_bind; [apply (tri_mk _ 4 1); rewrite max_alloc_val; lia|]. intros _.
      eapply tri_bind; [apply tri_rd_full|]. intros b. apply (tri_ret _ _ 0).
    + lia.
    + lia.
    + lia.
  - (* GU64 *)
    apply Hhead. eapply tri_weaken.
    + eapply tri_bind; [apply (tri_mk _ 8 1); rewrite max_alloc_val; lia|]. intros _.
      eapply tri_bind; [apply tri_rd_full|]. intros b. apply (tri_ret _ _ 0).
    + lia.
    + lia.
    + lia.
  - (* GBool *)
    apply Hhead. eapply tri_weaken.
    + eapply tri_bind; [apply (tri_mk _ 4 1); rewrite max_alloc_val; lia|]. intros _.
      eapply tri_bind with (w2 := 0) (g2 := 0) (k2 := 0) (e2 := 0); [apply tri_rd_full|]. intros b.
      destruct (le_num b =? 2574415285); [apply tri_ret|].
      destruct (le_num b =? 3162085175); [apply tri_ret|].
      apply (tri_fail _ EInvalid 0 0 0 EInvalid_nf).
    + lia.
    + lia.
    + lia.
  - (* GBytes *)
    apply Hhead. eapply tri_weaken.
    + eapply tri_bind; [apply tri_read_byte_slice; exact H5|]. intros b. apply (tri_ret _ _ 0).
    + lia.
    + lia.
    + lia.
  - (* GString *)
    apply Hhead. eapply tri_weaken.
    + eapply tri_bind; [apply tri_read_byte_slice; exact H5|]. intros b. apply (tri_ret _ _ 0).
    + lia.
    + lia.
    + lia.
  - (* GInt256 *)
    apply Hhead. eapply tri_weaken.
    + eapply tri_bind; [apply tri_rd_full|]. intros b. apply (tri_ret _ _ 0).
    + lia.
    + lia.
    + lia.
  - (* GSlice *)
    apply andb_prop in Hok. destruct Hok as [Hok Hm]. apply andb_prop in Hok. destruct Hok as [He Hr].
    apply N.leb_le in Hm. apply N.leb_le in Hr.
    apply Hhead. rewrite slope_S.
    eapply tri_weaken.
    + eapply tri_decode_vector; [apply IH; exact He | exact Hr | exact Hm].
    + lia.
    + lia.
    + lia.
  - (* GPtr *)
    apply Hhead. apply (tri_fail _ EOther 0 0 0 EOther_nf).
  - (* GNamed *)
    apply Hhead.
    destruct (find_binding B n) as [b | ]; [|apply (tri_fail _ EModel 0 0 0 EModel_nf)].
    unfold run_unmarshalT.
    destruct (b_unmarshal b) as [ss | cs].
    + eapply tri_weaken.
      * eapply tri_bind; [apply (tri_ustmts B _ _ _ _ _ _ IH' (b_type b) [] ss [] Hok)|].
        intros r. apply (tri_ret _ _ 0).
      * lia.
      * lia.
      * pose proof (stmts_q_le B (kk B k) (ee B k) (b_type b) [] ss). lia.
    + eapply tri_weaken.
      * eapply tri_bind with
          (w2 := minl (map (fun c => stmts_q B (ww B k) false false (b_type b) [snd (fst c)] (snd c)) cs))
          (g2 := 0)
          (k2 := maxl (map (fun c => stmts_q B (kk B k) true true (b_type b) [snd (fst c)] (snd c)) cs))
          (e2 := maxl (map (fun c => stmts_q B (fun x => kk B k x + ee B k x) true true (b_type b) [snd (fst c)] (snd c)) cs));
          [apply tri_rd_full|].
        intros tb. destruct (find_ucase (le_num tb) cs) as [[c ss] | ] eqn:Ef.
        -- destruct (find_ucase_in _ _ _ _ Ef) as [i Hin].
           assert (Hss : forallb (stmt_ok (sok B rate k) (b_type b) [c]) ss = true).
           { rewrite forallb_forall in Hok. apply (Hok (i, c, ss) Hin). }
           eapply tri_weaken.
           ++ eapply tri_bind; [apply (tri_ustmts B _ _ _ _ _ _ IH' (b_type b) [c] ss [] Hss)|].
              intros r. apply (tri_ret _ _ 0).
           ++ rewrite N.add_0_r. apply minl_in.
              apply (in_map (fun c => stmts_q B (ww B k) false false (b_type b) [snd (fst c)] (snd c)) cs (i, c, ss) Hin).
           ++ rewrite !N.add_0_r.
              apply (maxl_in _ _ (in_map (fun c => stmts_q B (kk B k) true true (b_type b) [snd (fst c)] (snd c)) cs (i, c, ss) Hin)).
           ++ pose proof (maxl_in _ _ (in_map (fun c => stmts_q B (fun x => kk B k x + ee B k x) true true (b_type b) [snd (fst c)] (snd c)) cs (i, c, ss) Hin)) as Hmx.
              cbn [fst snd] in Hmx.
              pose proof (stmts_q_le B (kk B k) (ee B k) (b_type b) [c] ss). lia.
        -- eapply tri_weaken; [eapply (tri_fail _ EInvalid); exact EInvalid_nf | apply N.le_refl | apply N.le_refl | lia].
      * lia.
      * lia.
      * assert (Hke : maxl (map (fun c => stmts_q B (kk B k) true true (b_type b) [snd (fst c)] (snd c)) cs) <=
                      maxl (map (fun c => stmts_q B (fun x => kk B k x + ee B k x) true true (b_type b) [snd (fst c)] (snd c)) cs)).
        { clear. induction cs as [ | c cs IHc]; cbn [map maxl fold_right]; [lia|].
          fold (maxl (map (fun c => stmts_q B (kk B k) true true (b_type b) [snd (fst c)] (snd c)) cs)).
          fold (maxl (map (fun c => stmts_q B (fun x => kk B k x + ee B k x) true true (b_type b) [snd (fst c)] (snd c)) cs)).
          pose proof (stmts_q_le B (kk B k) (ee B k) (b_type b) [snd (fst c)] (snd c)).
          lia. }
        lia.
  - (* GStruct *)
    apply Hhead. eapply tri_weaken.
    + eapply tri_bind; [apply (tri_dec_struct _ _ _ _ _ _ IH' fs [] Hok)|]. intros r. apply (tri_ret _ _ 0).
    + lia.
    + lia.
    + assert (Hle : suml (map (fun f : string * gty => kk B k (snd f)) fs) <=
                    suml (map (fun f : string * gty => kk B k (snd f) + ee B k (snd f)) fs)).
      { clear. unfold suml. induction fs as [ | f fs IHf]; cbn [map fold_right]; lia. }
      lia.
  - (* GSumTag *)
    apply Hhead. apply (tri_fail _ EModel 0 0 0 EModel_nf).
  - (* GOther *)
    apply Hhead. apply (tri_fail _ EModel 0 0 0 EModel_nf).
Qed.
