(** C02, level masks: the TON rule that ties the level mask of a cell to its
    content ("level masks consistent with children, as a validating node would
    require"), the level it determines, and the proof that the library's proof
    builder (Model/Merkle.v: pruneCells / CreateProof) produces cells that obey
    it — so Level() and the higher-level hashes of cells "produced by the
    library's proof builder" are the TON values (CellHashP.impl_hash_is_spec
    needs only masks < 8, which consistency with masks <= 1 implies).

      pruned branch : the mask is the one stored in its second data byte
      Merkle cell   : (OR of the children's masks) >> 1
      other cells   : OR of the children's masks (0 without children) *)
From Coq Require Import List NArith Arith Lia Bool.
From Tongo Require Import Lib.Bits Lib.Res Model.BocParse Model.CellHash Spec.ReprHash Model.Merkle
  Proofs.CellHashP.
Import ListNotations.

Definition stored_mask (data : bits) : N := N_of_bits (firstn 8 (skipn 8 data)).

Definition or_masks (ms : list N) : N := fold_right N.lor 0%N ms.

(* the mask the rule gives a cell, from its type, data and children's masks *)
Definition rule_mask (special : bool) (ty : N) (data : bits) (kids : list N) : N :=
  if is_pruned special ty then stored_mask data
  else if is_merkle special ty then N.shiftr (or_masks kids) 1
  else or_masks kids.

Fixpoint masks_consistent (c : cell) : Prop :=
  match c with
  | Cell special ty m data refs =>
      m = rule_mask special ty data (map cell_mask refs) /\
      (is_pruned special ty = true -> refs = []) /\
      (fix all (rs : list cell) : Prop :=
         match rs with [] => True | x :: t => masks_consistent x /\ all t end) refs
  end.

(* the mask as a function of the content alone (the mask fields are ignored) *)
Fixpoint ton_mask (c : cell) : N :=
  match c with
  | Cell special ty _ data refs =>
      rule_mask special ty data
        ((fix go (rs : list cell) : list N :=
            match rs with [] => [] | x :: t => ton_mask x :: go t end) refs)
  end.

(* Cell.Level() of the TON definition *)
Definition ton_level (c : cell) : nat := mask_level (ton_mask c).

(** in a consistent tree every mask field is the content-determined mask, so
    Level() = bit length of the mask is the TON level *)
Theorem consistent_mask_is_ton_mask : forall c, masks_consistent c -> cell_mask c = ton_mask c.
Proof.
  fix IH 1. intros [special ty m data refs] (Hm & _ & Hall). cbn [cell_mask ton_mask].
  rewrite Hm. f_equal. clear Hm.
  induction refs as [|x t IHt]; [reflexivity|].
  destruct Hall as (Hx & Ht). cbn [map]. rewrite (IH x Hx), (IHt Ht). reflexivity.
Qed.

Corollary consistent_level_is_ton_level c :
  masks_consistent c -> mask_level (cell_mask c) = ton_level c.
Proof. intros Hc. unfold ton_level. rewrite (consistent_mask_is_ton_mask c Hc). reflexivity. Qed.

(* every mask field is 0 or 1: trees of ordinary and library cells, and the
   bodies of proofs this builder made (narrowing an earlier proof) *)
Fixpoint masks_le1 (c : cell) : Prop :=
  match c with
  | Cell _ _ m _ refs =>
      (m < 2)%N /\
      (fix all (rs : list cell) : Prop :=
         match rs with [] => True | x :: t => masks_le1 x /\ all t end) refs
  end.

Lemma masks_le1_ok : forall c, masks_le1 c -> masks_ok c.
Proof.
  fix IH 1. intros [special ty m data refs] (Hm & Hall). cbn [masks_ok]. split; [lia|].
  induction refs as [|x t IHt]; [exact I|]. destruct Hall as (Hx & Ht).
  split; [apply IH; exact Hx|apply IHt; exact Ht].
Qed.

Definition sub_mask (a b : N) : Prop := N.lor a b = b.

Lemma lor_lt2 a b : (a < 2)%N -> (b < 2)%N -> (N.lor a b < 2)%N.
Proof.
  intros Ha Hb. assert (A : a = 0%N \/ a = 1%N) by lia. assert (B : b = 0%N \/ b = 1%N) by lia.
  destruct A as [-> | ->], B as [-> | ->]; cbn; lia.
Qed.

Lemma sub_le1 a : (a < 2)%N -> sub_mask a 1.
Proof. intros Ha. assert (A : a = 0%N \/ a = 1%N) by lia. destruct A as [-> | ->]; reflexivity. Qed.

Lemma fold_left_lor (l : list cell) : forall m,
  fold_left (fun acc ch => N.lor acc (cell_mask ch)) l m = N.lor m (or_masks (map cell_mask l)).
Proof.
  induction l as [|x t IH]; intros m; cbn [fold_left map or_masks fold_right].
  - rewrite N.lor_0_r. reflexivity.
  - rewrite IH. fold (or_masks (map cell_mask t)). rewrite N.lor_assoc. reflexivity.
Qed.

Lemma or_masks_sub (a b : list cell) :
  Forall2 (fun x y => sub_mask (cell_mask x) (cell_mask y)) a b ->
  sub_mask (or_masks (map cell_mask a)) (or_masks (map cell_mask b)).
Proof.
  induction 1 as [|x y a' b' Hxy Hab IH]; [reflexivity|].
  cbn [map or_masks fold_right]. fold (or_masks (map cell_mask a')). fold (or_masks (map cell_mask b')).
  unfold sub_mask in *.
  rewrite N.lor_assoc, <- (N.lor_assoc (cell_mask x)), (N.lor_comm (or_masks (map cell_mask a'))),
    (N.lor_assoc (cell_mask x)), Hxy, <- N.lor_assoc, IH. reflexivity.
Qed.

Lemma or_masks_lt2 (l : list cell) :
  Forall (fun x => cell_mask x < 2)%N l -> (or_masks (map cell_mask l) < 2)%N.
Proof.
  induction 1 as [|x t Hx Ht IH]; [cbn; lia|].
  cbn [map or_masks fold_right]. apply lor_lt2; assumption.
Qed.

Lemma stored_mask_pruned_cell h d : stored_mask (cell_bits (pruned_cell h d)) = 1%N.
Proof. reflexivity. Qed.

Section B.
Variable H : bytes -> bytes.

(** pruneCells keeps the rule: the pruned-branch cell it makes stores mask 1,
    every rebuilt ancestor gets exactly the OR of its rebuilt children's masks
    (not only of the children that are pruned branches themselves), and masks
    only grow. *)
Theorem prune_masks_consistent : forall c pruned path c',
  masks_consistent c -> masks_le1 c -> prune H pruned path c = Ok c' ->
  masks_consistent c' /\ masks_le1 c' /\ sub_mask (cell_mask c) (cell_mask c').
Proof.
  fix IH 1. intros c pruned path c' Hmc Hle Hpr.
  destruct c as [special ty m data refs]. cbn [masks_consistent masks_le1] in Hmc, Hle.
  destruct Hmc as (Hm & Hpb & Hall). destruct Hle as (Hm1 & Hle).
  cbn [prune] in Hpr. destruct (is_merkle special ty) eqn:Emk; [discriminate|].
  destruct (pruned path).
  - destruct (hd_at H (Cell special ty m data refs) 0) as [[h d]|e|p]; cbn [bind] in Hpr; try discriminate.
    injection Hpr as <-. cbn [fst snd]. split; [|split].
    + unfold pruned_cell. cbn [masks_consistent]. split; [|split; [reflexivity|exact I]].
      unfold rule_mask. replace (is_pruned true T_PRUNED) with true by reflexivity.
      symmetry. exact (stored_mask_pruned_cell h d).
    + unfold pruned_cell. cbn [masks_le1]. split; [lia|exact I].
    + unfold pruned_cell. cbn [cell_mask]. apply sub_le1. exact Hm1.
  - match type of Hpr with bind ?X _ = _ => destruct X as [refs'|?|?] eqn:Ego end; cbn [bind] in Hpr; try discriminate.
    injection Hpr as <-.
    assert (Hk : forall i rs',
      (fix go (i : nat) (rs : list cell) {struct rs} : res (list cell) :=
         match rs with
         | [] => Ok []
         | ch :: t => do x <- prune H pruned (path ++ [i]) ch; do xs <- go (S i) t; Ok (x :: xs)
         end) i refs = Ok rs' ->
      (fix all (rs : list cell) : Prop :=
         match rs with [] => True | x :: t => masks_consistent x /\ all t end) rs' /\
      (fix all (rs : list cell) : Prop :=
         match rs with [] => True | x :: t => masks_le1 x /\ all t end) rs' /\
      Forall2 (fun x y => sub_mask (cell_mask x) (cell_mask y)) refs rs' /\
      Forall (fun x => cell_mask x < 2)%N rs').
    { clear Ego Hm Hpb. induction refs as [|ch t IHt]; intros i rs' Hgo.
      - injection Hgo as <-. repeat split; constructor.
      - destruct Hall as (Hch & Ht). destruct Hle as (Lch & Lt).
        destruct (prune H pruned (path ++ [i]) ch) as [x|?|?] eqn:Ex; cbn [bind] in Hgo; try discriminate.
        match type of Hgo with bind ?X _ = _ => destruct X as [xs|?|?] eqn:Exs end; cbn [bind] in Hgo; try discriminate.
        injection Hgo as <-.
        destruct (IH ch pruned (path ++ [i]) x Hch Lch Ex) as (A1 & A2 & A3).
        destruct (IHt Ht Lt (S i) xs Exs) as (B1 & B2 & B3 & B4).
        split; [split; assumption|]. split; [split; assumption|]. split; [constructor; assumption|].
        constructor; [|exact B4]. destruct x as [? ? mx ? ?]. cbn [masks_le1] in A2. cbn [cell_mask]. apply A2. }
    destruct (Hk 0%nat refs' Ego) as (C1 & C2 & C3 & C4).
    rewrite fold_left_lor. cbn [masks_consistent masks_le1 cell_mask].
    destruct (is_pruned special ty) eqn:Epr.
    + (* a pruned branch of the source that is kept: a leaf, copied *)
      specialize (Hpb eq_refl). subst refs. injection Ego as <-.
      cbn [map or_masks fold_right]. rewrite N.lor_0_r.
      split; [split; [exact Hm|split; [reflexivity|exact I]]|]. split; [split; [exact Hm1|exact I]|].
      unfold sub_mask. apply N.lor_diag.
    + assert (Es : sub_mask m (or_masks (map cell_mask refs'))).
      { rewrite Hm. unfold rule_mask. rewrite Epr, Emk. apply or_masks_sub. exact C3. }
      rewrite Es. split; [split; [|split; [intros X; discriminate X|exact C1]]|].
      * unfold rule_mask. rewrite Epr, Emk. reflexivity.
      * split; [split; [apply or_masks_lt2; exact C4|exact C2]|exact Es].
Qed.

(** CreateProof: the Merkle-proof cell (mask 0 = body mask >> 1) over the
    pruned body obeys the rule as well, and all its masks are below 8 *)
Theorem create_proof_masks_consistent root pruned p :
  masks_consistent root -> masks_le1 root -> create_proof H pruned root = Ok p ->
  masks_consistent p /\ masks_ok p /\ ton_level p = 0%nat.
Proof.
  intros Hmc Hle Hp. unfold create_proof in Hp.
  destruct (prune H pruned [] root) as [body|?|?] eqn:Eb; cbn [bind] in Hp; try discriminate.
  destruct (hd_at H root 0) as [[h d]|?|?]; cbn [bind] in Hp; try discriminate.
  injection Hp as <-. change (fst (h, d)) with h. change (snd (h, d)) with d.
  destruct (prune_masks_consistent root pruned [] body Hmc Hle Eb) as (A1 & A2 & _).
  assert (Hb : (cell_mask body < 2)%N) by (destruct body; cbn [masks_le1] in A2; cbn [cell_mask]; apply A2).
  assert (Hc : masks_consistent
            (Cell true T_MPROOF 0 (bits_of 8 3 ++ bytes_to_bits h ++ bits_of 16 d) [body])).
  { cbn [masks_consistent]. split; [|split; [intros X; discriminate X|split; [exact A1|exact I]]].
    unfold rule_mask. replace (is_pruned true T_MPROOF) with false by reflexivity.
    replace (is_merkle true T_MPROOF) with true by reflexivity.
    cbn [map or_masks fold_right]. rewrite N.lor_0_r.
    assert (B : cell_mask body = 0%N \/ cell_mask body = 1%N) by lia. destruct B as [-> | ->]; reflexivity. }
  split; [exact Hc|]. split.
  - cbn [masks_ok]. split; [lia|]. split; [apply masks_le1_ok; exact A2|exact I].
  - change (ton_level (Cell true T_MPROOF 0 (bits_of 8 3 ++ bytes_to_bits h ++ bits_of 16 d) [body]) = 0%nat).
    rewrite <- (consistent_level_is_ton_level _ Hc). reflexivity.
Qed.

(** ProveKeyInHashmap ends in CreateProof *)
Corollary prove_key_masks_consistent root key vbits p :
  masks_consistent root -> masks_le1 root -> prove_key H root key vbits = Ok p ->
  masks_consistent p /\ masks_ok p.
Proof.
  intros Hmc Hle Hp. unfold prove_key in Hp.
  destruct (prove_walk _ _ _ _ _ _ _ _) as [[[[pr leaf] rest] prefix]|?|?]; cbn [bind] in Hp; try discriminate.
  destruct (short vbits rest); [discriminate|].
  destruct (short (length key) prefix); [discriminate|].
  destruct (negb _); [discriminate|].
  destruct (create_proof_masks_consistent root _ p Hmc Hle Hp) as (A & B & _). split; assumption.
Qed.

End B.

(** the proof builder that raises the level only of the DIRECT parent of a
    pruned branch (seeded mutation C02-r2m2) breaks the rule: witness *)
Definition direct_parent_only (m : N) (kids : list cell) : N :=
  fold_left (fun acc ch => match ch with
                           | Cell special ty mk _ _ => if is_pruned special ty then N.lor acc mk else acc
                           end) kids m.

Example direct_parent_only_refuted :
  let pb := pruned_cell (repeat 0%N 32) 0 in
  let inner := Cell false 0 (direct_parent_only 0 [pb]) [true] [pb] in
  let outer := Cell false 0 (direct_parent_only 0 [inner]) [false] [inner] in
  masks_consistent inner /\ ~ masks_consistent outer /\ cell_mask outer = 0%N /\ ton_mask outer = 1%N.
Proof.
  cbn zeta. split; [|split; [|split]].
  - cbn [masks_consistent]. split; [reflexivity|]. split; [intros X; discriminate X|].
    split; [|exact I]. unfold pruned_cell. cbn [masks_consistent]. split; [reflexivity|]. split; [reflexivity|exact I].
  - intros (Hm & _). vm_compute in Hm. discriminate Hm.
  - reflexivity.
  - reflexivity.
Qed.
