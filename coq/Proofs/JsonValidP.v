(** C20 proofs, part 2: the JSON scanner accepts what the library prints; the
    string unquoter and the fmt scanners read back what was printed. *)
From Coq Require Import List NArith ZArith Bool Lia Arith.
From Tongo Require Import Lib.Bits Lib.Res Model.JsonText Proofs.JsonTextP.
Import ListNotations.
Local Open Scope N_scope.

Definition sc_top (st : jst) : scanner := mksc st [] 0 false.

Lemma json_plain_facts c : json_plain c = true -> 32 <= c < 127 /\ c <> 34 /\ c <> 92.
Proof.
  unfold json_plain. intros H.
  repeat (apply andb_prop in H; destruct H as [H ?]).
  repeat match goal with
         | h : negb _ = true |- _ => apply negb_true_iff in h; apply N.eqb_neq in h
         | h : (_ <=? _) = true |- _ => apply N.leb_le in h
         | h : (_ <? _) = true |- _ => apply N.ltb_lt in h
         end.
  lia.
Qed.

Lemma all_b_forallb f l : all_b f l -> forallb f l = true.
Proof. intros H. apply forallb_forall. apply Forall_forall. exact H. Qed.

(** * strings *)
Lemma fold_in_string s : all_b json_plain s ->
  fold_left sc_step s (sc_top JInString) = sc_top JInString.
Proof.
  induction 1 as [|c s Hc _ IH]; [reflexivity|].
  cbn [fold_left]. destruct (json_plain_facts c Hc) as (Hr & H34 & H92).
  replace (sc_step (sc_top JInString) c) with (sc_top JInString); [exact IH|].
  unfold sc_step, sc_top. cbn [sc_st].
  destruct (N.eqb_spec c 34); [contradiction|]. destruct (N.eqb_spec c 92); [contradiction|].
  destruct (N.ltb_spec c 32); [lia|]. reflexivity.
Qed.

Lemma json_valid_quote s : all_b json_plain s -> json_valid (quote s) = true.
Proof.
  intros H. unfold json_valid, quote. cbn [fold_left].
  change (sc_step sc_init ch_quote) with (sc_top JInString).
  rewrite fold_left_app. rewrite (fold_in_string s H). reflexivity.
Qed.

Lemma json_space_facts c : json_space c = false -> c <> 32 /\ c <> 9 /\ c <> 13 /\ c <> 10.
Proof.
  unfold json_space. intros H.
  repeat (apply orb_false_iff in H; destruct H as [H ?]).
  repeat match goal with h : (_ =? _) = false |- _ => apply N.eqb_neq in h end. tauto.
Qed.

Lemma json_item_id x : x <> [] -> hd_not json_space x -> hd_not json_space (rev x) -> json_item x = x.
Proof. apply trim_id. Qed.

Lemma json_item_quote s : json_item (quote s) = quote s.
Proof.
  apply json_item_id; unfold quote.
  - discriminate.
  - reflexivity.
  - change (ch_quote :: s ++ [ch_quote]) with ((ch_quote :: s) ++ [ch_quote]).
    apply hd_not_rev_snoc. reflexivity.
Qed.

(** * numbers *)
Lemma digit_cases d : 49 <= d <= 57 ->
  d = 49 \/ d = 50 \/ d = 51 \/ d = 52 \/ d = 53 \/ d = 54 \/ d = 55 \/ d = 56 \/ d = 57.
Proof. lia. Qed.

Lemma step_first_digit d : 49 <= d <= 57 ->
  sc_step sc_init d = sc_top J1 /\ sc_step (sc_top JNeg) d = sc_top J1.
Proof.
  intros H. destruct (digit_cases d H) as [-> | [-> | [-> | [-> | [-> | [-> | [-> | [-> | ->]]]]]]]];
    split; reflexivity.
Qed.

Lemma fold_digits ds : all_b is_digit ds -> fold_left sc_step ds (sc_top J1) = sc_top J1.
Proof.
  induction 1 as [|c ds Hc _ IH]; [reflexivity|].
  cbn [fold_left]. replace (sc_step (sc_top J1) c) with (sc_top J1); [exact IH|].
  unfold sc_step, sc_top. cbn [sc_st]. rewrite Hc. reflexivity.
Qed.

Lemma valid_after_J1 (doc : str) :
  fold_left sc_step doc sc_init = sc_top J1 -> json_valid doc = true.
Proof. intros H. unfold json_valid. rewrite H. reflexivity. Qed.

Lemma json_valid_print_N n : json_valid (print_N n) = true.
Proof.
  destruct (N.eq_dec n 0) as [->|Hn]; [reflexivity|].
  destruct (print_N_head n ltac:(lia)) as (d & rest & E & Hd & Hrest).
  apply valid_after_J1. rewrite E. cbn [fold_left].
  destruct (step_first_digit d Hd) as [-> _]. apply fold_digits. exact Hrest.
Qed.

Lemma json_valid_print_Z z : json_valid (print_Z z) = true.
Proof.
  destruct z as [|p|p]; cbn [print_Z]; try apply json_valid_print_N.
  destruct (print_N_head (N.pos p) ltac:(lia)) as (d & rest & E & Hd & Hrest).
  apply valid_after_J1. rewrite E. cbn [fold_left].
  change (sc_step sc_init ch_minus) with (sc_top JNeg).
  destruct (step_first_digit d Hd) as [_ ->]. apply fold_digits. exact Hrest.
Qed.

Lemma digit_not_space d : is_digit d = true -> json_space d = false.
Proof.
  intros H. apply is_digit_range in H. unfold json_space.
  repeat (apply orb_false_iff; split); apply N.eqb_neq; lia.
Qed.

Lemma last_of_print_N n : exists l d, print_N n = l ++ [d] /\ is_digit d = true.
Proof.
  pose proof (print_N_digits n) as Hd. pose proof (print_N_nonempty n) as Hne.
  destruct (exists_last Hne) as (l & d & E). exists l, d. split; [exact E|].
  rewrite E in Hd. apply Forall_app in Hd. destruct Hd as [_ Hd]. inversion Hd; assumption.
Qed.

Lemma json_item_print_N n : json_item (print_N n) = print_N n.
Proof.
  apply json_item_id.
  - apply print_N_nonempty.
  - destruct (print_N_hd_digit n) as (d & rest & E & Hd). rewrite E. cbn [hd_not].
    apply digit_not_space. exact Hd.
  - destruct (last_of_print_N n) as (l & d & E & Hd). rewrite E.
    apply hd_not_rev_snoc. apply digit_not_space. exact Hd.
Qed.

Lemma json_item_print_Z z : json_item (print_Z z) = print_Z z.
Proof.
  destruct z as [|p|p]; cbn [print_Z]; try apply json_item_print_N.
  apply json_item_id.
  - discriminate.
  - reflexivity.
  - destruct (last_of_print_N (N.pos p)) as (l & d & E & Hd). rewrite E.
    change (ch_minus :: l ++ [d]) with ((ch_minus :: l) ++ [d]).
    apply hd_not_rev_snoc. apply digit_not_space. exact Hd.
Qed.

(** * json.Unmarshal into a Go string reads back a quoted plain text *)
Lemma unescape_plain s : all_b json_plain s -> unescape (s ++ [34]) = Some s.
Proof.
  induction 1 as [|c s Hc _ IH]; [reflexivity|].
  destruct (json_plain_facts c Hc) as (Hr & H34 & H92).
  cbn [app unescape].
  destruct (N.eqb_spec c 34); [contradiction|]. destruct (N.eqb_spec c 92); [contradiction|].
  destruct (N.ltb_spec c 32); [lia|]. rewrite IH. reflexivity.
Qed.

Lemma json_unmarshal_string_quote s : all_b json_plain s ->
  json_unmarshal_string (quote s) = Ok s.
Proof.
  intros H. unfold json_unmarshal_string. rewrite (json_valid_quote s H), json_item_quote.
  unfold quote, ch_quote.
  assert (Ha : ascii (s ++ [34])).
  { apply Forall_app. split; [apply json_plain_ascii; exact H|]. constructor; [lia|constructor]. }
  rewrite (utf8_fix_ascii _ Ha). rewrite (unescape_plain s H). reflexivity.
Qed.

Lemma json_marshal_string_plain s : all_b json_plain s -> json_marshal_string s = Ok (quote s).
Proof. intros H. unfold json_marshal_string. rewrite (all_b_forallb _ _ H). reflexivity. Qed.

(** * plain character classes *)
Lemma hex_lower_plain c : is_hex_lower c = true -> json_plain c = true.
Proof.
  unfold is_hex_lower, is_digit. intros H.
  assert (Hr : 48 <= c <= 57 \/ 97 <= c <= 102).
  { apply orb_prop in H. destruct H as [H|H]; apply andb_prop in H; destruct H as [H1 H2];
      apply N.leb_le in H1, H2; lia. }
  unfold json_plain.
  repeat (apply andb_true_intro; split);
    try (apply negb_true_iff; apply N.eqb_neq; lia);
    try (apply N.leb_le; lia); try (apply N.ltb_lt; lia).
Qed.

Lemma digit_plain c : is_digit c = true -> json_plain c = true.
Proof. intros H. apply hex_lower_plain. unfold is_hex_lower. rewrite H. reflexivity. Qed.

Lemma all_b_impl (f g : N -> bool) l : (forall c, f c = true -> g c = true) -> all_b f l -> all_b g l.
Proof. intros H. apply Forall_impl. exact H. Qed.

Lemma print_N_plain n : all_b json_plain (print_N n).
Proof. apply (all_b_impl is_digit); [exact digit_plain|apply print_N_digits]. Qed.

Lemma print_Z_plain z : all_b json_plain (print_Z z).
Proof.
  destruct z as [|p|p]; cbn [print_Z]; try apply print_N_plain.
  constructor; [reflexivity|apply print_N_plain].
Qed.

Lemma print_hex_plain bs : bytes_ok bs -> all_b json_plain (print_hex bs).
Proof. intros H. apply (all_b_impl is_hex_lower); [exact hex_lower_plain|apply print_hex_chars; exact H]. Qed.

(** * fmt scanning *)
Lemma digit_not_fmt_space d : is_digit d = true -> (d =? 10) = false /\ fmt_space d = false.
Proof.
  intros H. apply is_digit_range in H. split; [apply N.eqb_neq; lia|].
  unfold fmt_space, in_rng.
  repeat (apply orb_false_iff; split);
    try (apply N.eqb_neq; lia); apply andb_false_iff;
    try (left; apply N.leb_gt; lia); right; apply N.leb_gt; lia.
Qed.

Lemma span_digits_app ds rest : all_b is_digit ds -> hd_not is_digit rest ->
  span_digits (ds ++ rest) = (ds, rest).
Proof.
  induction 1 as [|c ds Hc _ IH]; intros Hr.
  - cbn [app]. destruct rest as [|r rest]; [reflexivity|]. cbn [hd_not] in Hr.
    cbn [span_digits]. rewrite Hr. reflexivity.
  - cbn [app span_digits]. rewrite Hc. rewrite (IH Hr). reflexivity.
Qed.

Lemma scan_uint32_print a rest : a < 2 ^ 32 -> hd_not is_digit rest ->
  scan_uint32 (print_N a ++ rest) = Ok (a, rest).
Proof.
  intros Ha Hr. unfold scan_uint32.
  destruct (print_N_hd_digit a) as (d & tl & E & Hd).
  assert (Hs : skip_space (print_N a ++ rest) = Ok (print_N a ++ rest)).
  { rewrite E. cbn [app skip_space]. destruct (digit_not_fmt_space d Hd) as [-> ->]. reflexivity. }
  rewrite Hs. cbn [bind].
  rewrite (span_digits_app _ _ (print_N_digits a) Hr).
  rewrite E. rewrite <- E. rewrite print_N_value.
  destruct (N.ltb_spec a (2 ^ 32)); [reflexivity|lia].
Qed.

Lemma sscanf_d_d_print a b : a < 2 ^ 32 -> b < 2 ^ 32 ->
  sscanf_d_d (print_N a ++ 44 :: print_N b) = Ok (a, b).
Proof.
  intros Ha Hb. unfold sscanf_d_d.
  assert (Hasc : ascii (print_N a ++ 44 :: print_N b)).
  { apply Forall_app. split; [apply json_plain_ascii, print_N_plain|].
    constructor; [lia|apply json_plain_ascii, print_N_plain]. }
  rewrite (runes_ascii _ Hasc).
  rewrite (scan_uint32_print a (44 :: print_N b) Ha) by reflexivity.
  cbn [bind].
  pose proof (scan_uint32_print b [] Hb I) as H. rewrite app_nil_r in H. rewrite H. reflexivity.
Qed.

Lemma scan_hex_pairs_print bs : bytes_ok bs ->
  scan_hex_pairs (print_hex bs ++ [34]) = Ok (bs, [34]).
Proof.
  induction 1 as [|b bs Hb _ IH]; [reflexivity|].
  unfold print_hex in *. cbn [flat_map hex_byte app scan_hex_pairs].
  pose proof (check_below 256 hex_pair_check hex_pair_all b Hb) as Hc.
  unfold hex_pair_check in Hc.
  destruct (hex_val (hex_lower (b / 16))) as [x|]; [|discriminate].
  destruct (hex_val (hex_lower (b mod 16))) as [y|]; [|discriminate].
  rewrite IH. cbn [bind]. apply N.eqb_eq in Hc. rewrite Hc. reflexivity.
Qed.

Lemma hex_lower_not_fmt_space c : is_hex_lower c = true -> (c =? 10) = false /\ fmt_space c = false.
Proof.
  intros H.
  assert (Hr : 48 <= c <= 57 \/ 97 <= c <= 102).
  { unfold is_hex_lower, is_digit in H. apply orb_prop in H.
    destruct H as [H|H]; apply andb_prop in H; destruct H as [H1 H2]; apply N.leb_le in H1, H2; lia. }
  split; [apply N.eqb_neq; lia|].
  unfold fmt_space, in_rng.
  repeat (apply orb_false_iff; split);
    try (apply N.eqb_neq; lia); apply andb_false_iff;
    try (left; apply N.leb_gt; lia); right; apply N.leb_gt; lia.
Qed.

Lemma fscanf_quoted_hex_print bs : bytes_ok bs -> bs <> [] ->
  fscanf_quoted_hex (quote (print_hex bs)) = (bs, true).
Proof.
  intros Hb Hne. unfold fscanf_quoted_hex, quote, ch_quote.
  assert (Hasc : ascii (34 :: print_hex bs ++ [34])).
  { constructor; [lia|]. apply Forall_app. split; [apply json_plain_ascii, print_hex_plain; exact Hb|].
    constructor; [lia|constructor]. }
  rewrite (runes_ascii _ Hasc).
  pose proof (print_hex_chars bs Hb) as Hch.
  destruct bs as [|b bs']; [congruence|].
  remember (b :: bs') as bs eqn:Ebs.
  assert (Hs : skip_space (print_hex bs ++ [34]) = Ok (print_hex bs ++ [34])).
  { rewrite Ebs in *. unfold print_hex in *. cbn [flat_map hex_byte app] in *.
    inversion Hch as [|c l Hc _]. cbn [skip_space].
    destruct (hex_lower_not_fmt_space _ Hc) as [-> ->]. reflexivity. }
  rewrite Hs. rewrite (scan_hex_pairs_print bs Hb).
  rewrite Ebs at 1. unfold print_hex. cbn [flat_map hex_byte app]. rewrite Ebs. reflexivity.
Qed.
