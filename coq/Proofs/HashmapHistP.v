(** Histories on one dictionary object (Model/HashmapHist.v): Marshal does not
    change the object, repeated Marshal of an unchanged object gives the same
    cells, and after any history every encoding decodes to the current mapping
    (= the initial mapping updated by the Puts of the history), for every key
    type. *)
From Coq Require Import List NArith Arith Lia Bool Sorted Permutation.
From Tongo Require Import Lib.Bits Lib.Res Spec.Dict Model.Hashmap Model.HashmapHist
  Proofs.DictP Proofs.HashmapPut Proofs.HashmapSort Proofs.HashmapP.
Import ListNotations.

Section HistP.
Variable V : Type.
Variable venc : V -> bits * list cell.
Variable vdec : bits -> list cell -> option V.
Hypothesis vcodec : forall v, vdec (fst (venc v)) (snd (venc v)) = Some v.
Variable klt : bits -> bits -> bool.
Hypothesis KO : key_order bits_eqb klt.
Variable e : bool.
Variable n : nat.

Notation hstep := (hstep venc klt e n).
Notation hrun := (hrun venc klt e n).
Notation hmarshal := (hmarshal venc e n).
Notation amap := (list (bits * V)).

(** ** Marshal (and Items, Get) leave the object as it was *)
Lemma hstep_read_only (m : amap) op : is_put op = false -> fst (hstep m op) = m.
Proof. destruct op; cbn; intros H; try reflexivity; discriminate. Qed.

Definition obs_of (m : amap) (o : hobs V) : Prop :=
  match o with
  | OCell r => r = hmarshal m
  | OItems x => x = m
  | OGet _ => True
  | ODone => False
  end.

(** a history without Put: the object is unchanged, every Items answer is the
    initial slice pair and every encoding is THE encoding of the initial object *)
Theorem hrun_no_put (ops : list (hop V)) : forall m : amap,
  forallb (fun op => negb (is_put op)) ops = true ->
  fst (hrun m ops) = m /\ Forall (obs_of m) (snd (hrun m ops)).
Proof.
  induction ops as [|op t IH]; intros m H; [split; [reflexivity|constructor]|].
  cbn [forallb] in H. apply andb_prop in H. destruct H as [Hop Ht].
  apply negb_true_iff in Hop.
  cbn [HashmapHist.hrun].
  destruct (hstep m op) as [m1 o] eqn:E1.
  assert (Em : m1 = m) by (rewrite <- (hstep_read_only m op Hop), E1; reflexivity).
  subst m1. destruct (IH m Ht) as [IH1 IH2].
  destruct (hrun m t) as [m2 os]. cbn [fst snd] in *. split; [exact IH1|].
  constructor; [|exact IH2].
  destruct op; cbn in E1; inversion E1; subst; cbn; try reflexivity; try exact I. discriminate.
Qed.

(** ** invariant of the object: distinct keys of the right width *)
Definition hinv (m : amap) : Prop := NoDup (map fst m) /\ keys_len n m.
Definition op_ok (op : hop V) : Prop := match op with HPut k _ => length k = n | _ => True end.

Lemma hstep_inv (m : amap) op : hinv m -> op_ok op -> hinv (fst (hstep m op)).
Proof.
  intros [Hnd Hl] Hop. destruct op; cbn [HashmapHist.hstep fst]; try (split; assumption).
  split; [apply (put_nodup V klt KO); exact Hnd|apply (put_keys_len V klt n); assumption].
Qed.

Definition puts_of (ops : list (hop V)) : amap :=
  flat_map (fun op => match op with HPut k v => [(k, v)] | _ => [] end) ops.

Lemma hrun_state (ops : list (hop V)) : forall m : amap,
  fst (hrun m ops) = puts bits_eqb klt (puts_of ops) m.
Proof.
  induction ops as [|op t IH]; intros m; [reflexivity|].
  cbn [HashmapHist.hrun]. destruct (hstep m op) as [m1 o] eqn:E1.
  specialize (IH m1). destruct (hrun m1 t) as [m2 os]. cbn [fst] in *. rewrite IH.
  destruct op; cbn in E1; inversion E1; subst; reflexivity.
Qed.

Lemma puts_of_ok (ops : list (hop V)) : Forall op_ok ops -> keys_len n (puts_of ops).
Proof.
  induction 1 as [|op t Hop Ht IH]; [constructor|].
  unfold puts_of. cbn [flat_map]. destruct op; cbn [app]; try exact IH.
  constructor; [exact Hop|exact IH].
Qed.

Lemma hrun_inv (ops : list (hop V)) (m : amap) :
  hinv m -> Forall op_ok ops -> hinv (fst (hrun m ops)).
Proof.
  intros [Hnd Hl] Hops. rewrite hrun_state. split.
  - apply (puts_nodup V klt KO). exact Hnd.
  - apply (puts_keys_len V klt n); [apply puts_of_ok; exact Hops|exact Hl].
Qed.

(** ** every encoding decodes to the current mapping *)
Lemma hmarshal_decodes (m : amap) c :
  hinv m -> hmarshal m = Ok c ->
  (if e then decode_e vdec n c = Ok (bsort m)
   else m <> [] -> decode vdec n c = Ok (bsort m)).
Proof.
  intros [Hnd Hl] Hc. unfold HashmapHist.hmarshal in Hc. destruct e.
  - apply (encode_decode_dict_e V venc vdec vcodec n m c); assumption.
  - intros Hne. apply (encode_decode_dict V venc vdec vcodec n m c); assumption.
Qed.

(** after ANY history (Puts of any keys, interleaved with any number of
    Marshal / Items / Get): Marshal leaves the object unchanged and its output
    decodes to the initial mapping updated by the Puts of the history *)
Theorem history_marshal_sound (ops : list (hop V)) (m : amap) c :
  hinv m -> Forall op_ok ops ->
  let mi := fst (hrun m ops) in
  fst (hstep mi HMarshal) = mi /\
  snd (hstep mi HMarshal) = OCell (hmarshal mi) /\
  bsort mi = updates (puts_of ops) (bsort m) /\
  (forall k, get bits_eqb k mi = lookup k (updates (puts_of ops) (bsort m))) /\
  (hmarshal mi = Ok c ->
   if e then decode_e vdec n c = Ok (updates (puts_of ops) (bsort m))
   else mi <> [] -> decode vdec n c = Ok (updates (puts_of ops) (bsort m))).
Proof.
  intros Hinv Hops mi.
  pose proof (hrun_inv ops m Hinv Hops) as Hi. fold mi in Hi.
  assert (Eb : bsort mi = updates (puts_of ops) (bsort m)).
  { unfold mi. rewrite hrun_state. apply (bsort_puts V klt KO). exact (proj1 Hinv). }
  split; [reflexivity|]. split; [reflexivity|]. split; [exact Eb|]. split.
  - intros k. unfold mi. rewrite hrun_state.
    apply (get_puts_lookup V klt KO). exact (proj1 Hinv).
  - intros Hc. rewrite <- Eb. apply hmarshal_decodes; assumption.
Qed.

(** ** decoding into a used object: the old contents are not an input *)
Theorem hdecode_overwrites (m1 m2 : amap) c :
  hdecode vdec e n m1 c = hdecode vdec e n m2 c.
Proof. reflexivity. Qed.

(** decoding a valid HashmapE (any label forms) into ANY object leaves exactly
    the dictionary's mapping, an object satisfying the history invariant *)
Theorem hdecode_valid (m : amap) (t : option (apt V)) c :
  e = true ->
  (forall a, t = Some a -> wf_pt n (erase a) /\ forms_valid a) ->
  cells_of_e venc n t = Ok c ->
  let m' := match t with Some a => tree_to_list [] (erase a) | None => [] end in
  hdecode vdec e n m c = (m', true) /\ hinv m' /\ sorted m'.
Proof.
  intros -> Hw Hc m'. unfold hdecode.
  rewrite (decode_e_any_label_form V venc vdec vcodec n t c Hw Hc). fold m'.
  assert (Hs : sorted m' /\ keys_len n m').
  { unfold m'. destruct t as [a|]; [|split; constructor].
    destruct (Hw a eq_refl) as [Hwf _]. split; [apply ttl_sorted|apply ttl_keys_len; exact Hwf]. }
  destruct Hs as [Hs Hl]. split; [reflexivity|]. split; [|exact Hs].
  split; [apply sorted_nodup; exact Hs|exact Hl].
Qed.

End HistP.
