(** Wait-list ids (Model/PoolWait.v): subscribe returns 0 to a caller that is already
    satisfied ("not registered") and waitListID+1 >= 1 to a registered waiter, and every
    caller runs the deferred unsubscribe with the id it was given.  So: a registered
    waiter's id is never 0, ids of registered waiters are pairwise different, the
    unsubscribe of a satisfied caller removes nobody, an unsubscribe removes exactly
    the caller's own registration, and a registered waiter stays registered until its
    own unsubscribe — hence receives every head Run notifies meanwhile. *)
From Coq Require Import List NArith ZArith Bool Arith Lia.
From Tongo Require Import Model.Pool Model.PoolWait Proofs.PoolWaitP Proofs.PoolWaitMsgP.
Import ListNotations.

Section Ids.
  Variable strat : strategy.
  Variable nconns : nat.
  Variable tgt : nat -> N.
  Notation step := (step strat false false nconns tgt).
  Notation reachable := (reachable strat false false nconns tgt).

  (** between the return of subscribe and the end of the deferred unsubscribe *)
  Definition subscribed (pc : wait_pc) : bool :=
    match pc with WWait | WUnsub _ | WUnsubW _ => true | _ => false end.
  Definition before_sub (pc : wait_pc) : bool :=
    match pc with WNew | WSubW | WSubL => true | _ => false end.

  Definition ids_inv (s : state) : Prop :=
    (forall e, In e (wl s) -> fst e <> 0%N /\ wid s (snd e) = fst e /\ subscribed (wpc s (snd e)) = true) /\
    (forall w, (wid s w <= next_id s)%N) /\
    (forall w, before_sub (wpc s w) = true -> wid s w = 0%N) /\
    (forall w w', wid s w <> 0%N -> wid s w = wid s w' -> w = w') /\
    (forall w, subscribed (wpc s w) = true -> wid s w <> 0%N -> In (wid s w, w) (wl s)).

  Lemma ids_inv_init heads b : ids_inv (init_state heads b).
  Proof.
    unfold ids_inv, init_state. sred. repeat apply conj; try (intros; contradiction); try discriminate.
    all: try (intros w; lia); try reflexivity; try (intros w w' H; contradiction).
  Qed.

  Lemma filter_keeps {A} (f : A -> bool) l : (forall x, In x l -> f x = true) -> filter f l = l.
  Proof.
    induction l as [|x t IH]; intros H; cbn [filter]; [reflexivity|].
    rewrite (H x (or_introl eq_refl)), IH; [reflexivity|]. intros y Hy. apply H. right. exact Hy.
  Qed.

  Lemma ids_inv_step s l s' : ids_inv s -> step s l = Some s' -> ids_inv s'.
  Proof.
    intros (He & Hle & Hb & Hu & Hreg) Hs. unfold ids_inv.
    step_inv Hs; guards; sred; try exact (conj He (conj Hle (conj Hb (conj Hu Hreg)))).
    (* the steps of waiter w *)
    all: try match goal with Hpc : wpc ?s0 ?w0 = _ |- _ =>
           assert (Hnotin : forall e, In e (wl s0) -> snd e <> w0)
             by (intros e Hin Heq; destruct (He e Hin) as (_ & _ & Hsub);
                 rewrite Heq, Hpc in Hsub; discriminate Hsub) end.
    all: (split; [|split; [|split; [|split]]]).
    all: intros.
    all: repeat match goal with
         | H : In _ (_ ++ [_]) |- _ => apply in_app_or in H as [H|[<-|[]]]
         | H : In _ (filter _ _) |- _ => apply filter_In in H as [H ?]
         end.
    all: sred.
    all: try match goal with H : In ?e (wl _) |- _ => pose proof (Hnotin e H) end.
    all: try match goal with H : In ?e (wl _) |- _ => destruct (He e H) as (? & ? & ?) end.
    all: fu; sred; cbn [subscribed before_sub] in *.
    all: try discriminate; try contradiction; try congruence.
    all: try solve [repeat apply conj; auto; lia].
    all: try solve [pose proof (Hle w); lia].
    all: try solve [match goal with |- (wid _ ?x <= _)%N => pose proof (Hle x); lia end].
    all: try solve [apply Hb; assumption].
    all: try solve [eapply Hu; eauto].
    all: try solve [apply in_or_app; left; apply Hreg; assumption].
    all: try solve [apply in_or_app; right; left; reflexivity].
    all: try solve [exfalso; match goal with H : wid _ ?x = (next_id _ + 1)%N |- _ => pose proof (Hle x); lia
                                        | H : (next_id _ + 1)%N = wid _ ?x |- _ => pose proof (Hle x); lia end].
    all: try solve [repeat apply conj; auto; destruct (_ <=? _)%N; reflexivity].
    all: try solve [apply Hb; match goal with H : wpc _ _ = _ |- _ => rewrite H end; reflexivity].
    all: try solve [apply Hreg; [match goal with H : wpc _ _ = _ |- _ => rewrite H end; reflexivity|assumption]].
    all: try solve [repeat split; auto].
    - (* an entry with the caller's own id does not survive its unsubscribe *)
      exfalso.
      match goal with Hf : negb (fst ?e =? wid ?s0 (snd ?e))%N = true, Hi : wid ?s0 (snd ?e) = fst ?e |- _ =>
        rewrite Hi, N.eqb_refl in Hf; discriminate Hf end.
    - (* the registrations of the others survive: their ids differ *)
      apply filter_In. split; [apply Hreg; assumption|]. sred.
      apply negb_true_iff, N.eqb_neq. intros Heq.
      match goal with Hne : _ <> _ |- _ => apply Hne end. eapply Hu; eassumption.
  Qed.

  Theorem ids_inv_reachable heads b s : reachable (init_state heads b) s -> ids_inv s.
  Proof.
    induction 1 as [|s l s' _ IH Hs]; [apply ids_inv_init|exact (ids_inv_step _ _ _ IH Hs)].
  Qed.

  (** the id of a registered waiter is never 0, the value subscribe returns to a
      caller that is satisfied at once; and it is that waiter's own id *)
  Theorem registered_id_nonzero heads b s id w :
    reachable (init_state heads b) s -> In (id, w) (wl s) -> id <> 0%N /\ wid s w = id.
  Proof.
    intros Hr Hin. destruct (ids_inv_reachable _ _ _ Hr) as (He & _).
    destruct (He _ Hin) as (H1 & H2 & _). auto.
  Qed.

  (** what subscribe hands out: either id 0, nothing registered and the head already
      in the caller's channel, or a fresh non-zero id under which the caller is registered *)
  Theorem subscribe_ids heads b s w s' :
    reachable (init_state heads b) s -> step s (LSubBody w) = Some s' ->
    (wid s' w = 0%N /\ wl s' = wl s /\ wch s' w <> None) \/
    (wid s' w <> 0%N /\ wl s' = wl s ++ [(wid s' w, w)] /\ forall e, In e (wl s) -> fst e <> wid s' w) \/
    wpc s' w = WPanicked.
  Proof.
    intros Hr Hs. destruct (ids_inv_reachable _ _ _ Hr) as (He & Hle & _).
    step_inv Hs; guards; sred.
    - left. rewrite !fupd_same. repeat apply conj; [reflexivity|reflexivity|discriminate].
    - right. left. rewrite !fupd_same. repeat apply conj; [lia|reflexivity|].
      intros e Hin Heq. destruct (He e Hin) as (_ & Hown & _). pose proof (Hle (snd e)). lia.
    - right. right. apply fupd_same.
  Qed.

  (** the deferred unsubscribe of a caller that was satisfied at once (id 0) removes nobody *)
  Theorem unsub_satisfied_removes_nobody heads b s w s' :
    reachable (init_state heads b) s -> wid s w = 0%N -> step s (LUnsub w) = Some s' -> wl s' = wl s.
  Proof.
    intros Hr Hid Hs. destruct (ids_inv_reachable _ _ _ Hr) as (He & _).
    step_inv Hs; guards; sred. apply filter_keeps. intros e Hin.
    destruct (He e Hin) as (Hnz & _). rewrite Hid. apply negb_true_iff, N.eqb_neq. exact Hnz.
  Qed.

  (** an unsubscribe removes the caller's own registration and nothing else *)
  Theorem unsub_removes_only_own heads b s w s' :
    reachable (init_state heads b) s -> step s (LUnsub w) = Some s' ->
    forall e, In e (wl s) -> (In e (wl s') <-> snd e <> w).
  Proof.
    intros Hr Hs e Hin. destruct (ids_inv_reachable _ _ _ Hr) as (He & _ & _ & Hu & _).
    destruct (He e Hin) as (Hnz & Hown & _).
    step_inv Hs; guards; sred. rewrite filter_In. split.
    - intros [_ Hf] Heq. rewrite <- Heq, Hown, N.eqb_refl in Hf. discriminate.
    - intros Hne. split; [exact Hin|]. apply negb_true_iff, N.eqb_neq. intros Heq.
      apply Hne. eapply Hu; [rewrite Hown; exact Hnz|congruence].
  Qed.

  (** a registered waiter stays registered until its own unsubscribe ... *)
  Theorem waiter_stays_registered heads b s w :
    reachable (init_state heads b) s -> subscribed (wpc s w) = true -> wid s w <> 0%N ->
    In (wid s w, w) (wl s).
  Proof. intros Hr. destruct (ids_inv_reachable _ _ _ Hr) as (_ & _ & _ & _ & Hreg). apply Hreg. Qed.

  (** ... hence it has been sent every head of the best connection that Run has
      finished notifying, and if that head suffices its receive returns success *)
  Theorem registered_waiter_gets_head heads b s w u :
    reachable (init_state heads b) s -> wpc s w = WWait -> wid s w <> 0%N ->
    rpc s = RNotify u true [] -> (tgt w <= snd u)%N ->
    exists m' s', wch s w = Some m' /\ (tgt w <= snd m')%N /\
                  step s (LRecv w) = Some s' /\ wpc s' w = WUnsub ROk.
  Proof.
    intros Hr Hpc Hid Hp Hle.
    assert (Hin : In (wid s w, w) (wl s)) by (apply (waiter_stays_registered _ _ _ _ Hr); [rewrite Hpc; reflexivity|exact Hid]).
    pose proof (notify_reaches_all strat nconns tgt _ _ _ _ Hr Hp _ _ Hin) as Hoff.
    exact (wait_not_missed strat nconns tgt _ _ _ _ _ Hr Hpc Hoff Hle).
  Qed.
End Ids.
