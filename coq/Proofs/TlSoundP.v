(** Soundness of the checker of Model/TlMatch.v, part 2: if [matches_all S F B]
    then, for every type expression served by the bindings and every value,
    the model of the Go bindings B writes the bytes the wire-format spec
    prescribes for the schema S, and reads back what the spec reads. *)
From Coq Require Import String List NArith PArith Arith Lia Bool.
From Tongo Require Import Lib.Bits Lib.Res Spec.TlWire Model.Tl Model.TlMatch
     Proofs.TlWireP Proofs.TlGoP Proofs.TlMatchP.
Import ListNotations.
Local Open Scope N_scope.

Lemma ctors_of_in S T d : In d (ctors_of S T) <-> In d S /\ dres d = T.
Proof.
  unfold ctors_of. rewrite filter_In. split; intros [H1 H2]; split; auto.
  - apply String.eqb_eq; exact H2.
  - apply String.eqb_eq; exact H2.
Qed.

Lemma find_ctor_some S c d : find_ctor S c = Some d -> In d S /\ dname d = c.
Proof. unfold find_ctor. intros H. apply find_some in H as [H1 H2]. split; [exact H1|apply String.eqb_eq; exact H2]. Qed.

Lemma ty_ok_vector S B t : ty_ok S B (TVector t) = true ->
  ty_ok S B t = true /\ exists g, goty t = Some g /\ gsize B g <= esz_limit.
Proof.
  unfold ty_ok. cbn [ty_refs vec_ok]. intros H. apply andb_true_iff in H as [H1 H2].
  apply andb_true_iff in H2 as [H2 H3]. split; [now rewrite H1, H3|].
  destruct (goty t) as [g|]; [|discriminate]. exists g. split; [reflexivity|apply N.leb_le; exact H2].
Qed.

Lemma ty_ok_ref S B t : ty_ok S B t = true -> ty_refs t = [t] -> ref_ok S B t = true.
Proof.
  unfold ty_ok. intros H E. rewrite E in H. cbn [forallb] in H.
  apply andb_true_iff in H as [H _]. apply andb_true_iff in H as [H _]. exact H.
Qed.

(** the sum binding expected for a type with several constructors *)
Lemma sum_parts T ds x : expected_sum T ds = Some x ->
  exists cfs mc uc,
    x = mkbinding (camel T) (GStruct (("SumType"%string, GSumTag) :: cfs)) (MSwitch mc) (USwitch uc) /\
    Forall2 (fun d y => exists t, gostruct d = Some t /\ y = (camel (dname d), t)) ds cfs /\
    Forall2 (fun d y => exists ms, mstmts [camel (dname d)] d = Some ms /\
                                   y = (camel (dname d), WriteTag (did d) :: ms)) ds mc /\
    Forall2 (fun d y => exists us, ustmts [camel (dname d)] d = Some us /\
                                   y = (did d, camel (dname d), us)) ds uc.
Proof.
  unfold expected_sum. destruct (negb (forallb no_conds ds)); [discriminate|].
  destruct (opt_cat (map (fun d => opt t <- gostruct d; Some [(camel (dname d), t)]) ds)) as [cfs|] eqn:E1; [|discriminate].
  destruct (opt_cat (map (fun d => opt ms <- mstmts [camel (dname d)] d;
                                   Some [(camel (dname d), WriteTag (did d) :: ms)]) ds)) as [mc|] eqn:E2; [|discriminate].
  destruct (opt_cat (map (fun d => opt us <- ustmts [camel (dname d)] d;
                                   Some [(did d, camel (dname d), us)]) ds)) as [uc|] eqn:E3; [|discriminate].
  intros H; inversion H; subst x. exists cfs, mc, uc. split; [reflexivity|]. repeat split.
  - exact (opt_cat_map1 gostruct (fun d t => (camel (dname d), t)) ds cfs E1).
  - exact (opt_cat_map1 (fun d => mstmts [camel (dname d)] d)
             (fun d ms => (camel (dname d), WriteTag (did d) :: ms)) ds mc E2).
  - exact (opt_cat_map1 (fun d => ustmts [camel (dname d)] d)
             (fun d us => (did d, camel (dname d), us)) ds uc E3).
Qed.

Lemma F2_find_ucase (U : decl -> option (list stmt)) (key : decl -> string) ds uc id d :
  Forall2 (fun d y => exists us, U d = Some us /\ y = (did d, key d, us)) ds uc ->
  find (fun d => did d =? id) ds = Some d ->
  exists us, U d = Some us /\ find_ucase id uc = Some (key d, us).
Proof.
  intros HF; induction HF as [|a x l out (us & Hu & ->) _ IH]; cbn [find find_ucase]; [discriminate|].
  destruct (did a =? id); [|exact IH]. intros E; inversion E; subst. exists us; auto.
Qed.

Section Sound.
  Variables (S F : list decl) (B : bindings).
  Hypothesis HM : matches_all S F B = true.
  Let nm := go_naming S.

  Lemma M_parts :
    (forall d, In d S -> has B (expected_for S d) = true) /\
    (forall f, In f F -> has B (expected_request f) = true) /\
    (forall d f, In d (S ++ F) -> In f (dfields d) -> ty_ok S B (fty f) = true) /\
    (forall d, In d (S ++ F) -> names_ok d = true) /\
    (forall d, In d S -> sum_names_ok S d = true).
  Proof.
    unfold matches_all in HM.
    repeat (apply andb_true_iff in HM as [HM ?]).
    repeat match goal with H : forallb _ _ = true |- _ => rewrite forallb_forall in H end.
    repeat split; auto.
    intros d f Hd Hf.
    match goal with H : forall x, In x (S ++ F) -> forallb _ _ = true |- _ =>
      specialize (H d Hd); rewrite forallb_forall in H; exact (H f Hf) end.
  Qed.

  (** ** field lists are ready for the statement lists *)
  Lemma ready_plain d sfs : In d (S ++ F) -> opt_cat (map gofield (dfields d)) = Some sfs ->
    fields_ready S B (GStruct sfs) [] (dfields d).
  Proof.
    intros Hd Hs. destruct M_parts as (_ & _ & M3 & M4 & _).
    pose proof (M4 d Hd) as Hn. unfold names_ok in Hn.
    repeat split; [intros f Hf; exact (M3 d f Hd Hf)| |exact Hn].
    intros f Hf Ht. destruct (gofields_assoc _ _ Hs Hn f Hf Ht) as (g & Hg & Ha).
    exists g. split; [exact Hg|]. cbn [app field_ty]. now rewrite Ha.
  Qed.

  Lemma ready_sum T d cfs sfs :
    In d (ctors_of S T) ->
    Forall2 (fun d y => exists t, gostruct d = Some t /\ y = (camel (dname d), t)) (ctors_of S T) cfs ->
    opt_cat (map gofield (dfields d)) = Some sfs ->
    fields_ready S B (GStruct (("SumType"%string, GSumTag) :: cfs)) [camel (dname d)] (dfields d).
  Proof.
    intros Hd HF Hs. destruct M_parts as (_ & _ & M3 & M4 & M5).
    apply ctors_of_in in Hd as Hd'. destruct Hd' as [HdS HdT].
    assert (HdSF : In d (S ++ F)) by (apply in_or_app; left; exact HdS).
    pose proof (M4 d HdSF) as Hn. unfold names_ok in Hn.
    pose proof (M5 d HdS) as Hsn. unfold sum_names_ok in Hsn. rewrite HdT in Hsn.
    apply nodup_str_cons in Hsn as [Hne Hnd].
    destruct (F2_in_assoc gostruct (fun d => camel (dname d)) (fun _ t => t) _ _ d HF Hnd Hd) as (t & Ht & Ha).
    unfold gostruct in Ht. rewrite Hs in Ht. inversion Ht; subst t.
    repeat split; [intros f Hf; exact (M3 d f HdSF Hf)| |exact Hn].
    intros f Hf Htt. destruct (gofields_assoc _ _ Hs Hn f Hf Htt) as (g & Hg & Hg').
    exists g. split; [exact Hg|]. cbn [app field_ty assoc].
    destruct (String.eqb_spec (camel (dname d)) "SumType") as [E|_].
    - exfalso. apply (Hne (camel (dname d))); [apply (in_map (fun d => camel (dname d))); exact Hd|].
      symmetry; exact E.
    - rewrite Ha. cbn [field_ty]. now rewrite Hg'.
  Qed.

  (** ** the bindings of the declarations *)
  Lemma single_binding d : In d S -> single S d = true ->
    exists sfs ms us, opt_cat (map gofield (dfields d)) = Some sfs /\
      mstmts [] d = Some ms /\ ustmts [] d = Some us /\
      find_binding B (cname d) = Some (mkbinding (cname d) (GStruct sfs) (MPlain ms) (UPlain us)).
  Proof.
    intros Hd Hs. destruct M_parts as (M1 & _). specialize (M1 d Hd).
    unfold expected_for in M1. rewrite Hs in M1. apply has_some in M1 as (x & Hx & Hf).
    unfold expected_single, gostruct in Hx.
    destruct (opt_cat (map gofield (dfields d))) as [sfs|]; [|discriminate].
    destruct (mstmts [] d) as [ms|]; [|discriminate]. destruct (ustmts [] d) as [us|]; [|discriminate].
    inversion Hx; subst x. exists sfs, ms, us. repeat split; auto.
  Qed.

  Lemma bare_single c d : ty_ok S B (TBare c) = true -> find_ctor S c = Some d ->
    In d S /\ single S d = true /\ cname d = (camel c ++ "C")%string.
  Proof.
    intros Hok Hfc. apply find_ctor_some in Hfc as Hd. destruct Hd as [Hd Hn].
    apply ty_ok_ref in Hok; [|reflexivity]. unfold ref_ok in Hok. rewrite Hfc in Hok.
    apply andb_true_iff in Hok as [Hs _]. unfold cname. now rewrite Hn.
  Qed.

  Lemma boxed_cases T : ty_ok S B (TBoxed T) = true ->
    (exists d0, ctors_of S T = [d0] /\ find_binding B (camel T) = Some (expected_wrapper d0)) \/
    ((2 <= length (ctors_of S T))%nat /\
     exists x, expected_sum T (ctors_of S T) = Some x /\ find_binding B (camel T) = Some x).
  Proof.
    intros Hok. apply ty_ok_ref in Hok; [|reflexivity]. unfold ref_ok in Hok.
    destruct (ctors_of S T) as [|d0 [|d1 rest]] eqn:Ec; [discriminate| |].
    - left. exists d0. split; [reflexivity|]. apply has_find in Hok. cbn [expected_wrapper b_name] in Hok.
      assert (Hin : In d0 (ctors_of S T)) by (rewrite Ec; left; reflexivity).
      apply ctors_of_in in Hin as [_ HT]. now rewrite HT in Hok.
    - right. split; [cbn [length]; lia|]. apply has_some in Hok as (x & Hx & Hf). exists x. split; [exact Hx|].
      destruct (sum_parts _ _ _ Hx) as (cfs & mc & uc & -> & _). exact Hf.
  Qed.

  Lemma single_of_ctors T d0 : ctors_of S T = [d0] -> In d0 S /\ dres d0 = T /\ single S d0 = true.
  Proof.
    intros Ec. assert (Hin : In d0 (ctors_of S T)) by (rewrite Ec; left; reflexivity).
    apply ctors_of_in in Hin as [H1 H2]. repeat split; auto. unfold single. now rewrite H2, Ec.
  Qed.

  Lemma not_single T d : (2 <= length (ctors_of S T))%nat -> In d (ctors_of S T) -> single S d = false.
  Proof.
    intros Hl Hin. apply ctors_of_in in Hin as [_ HT]. unfold single. rewrite HT.
    destruct (length (ctors_of S T)) as [|[|n]]; try lia. reflexivity.
  Qed.

  (** ** the two refinement theorems, by induction on the nesting depth *)
  Section Step.
    Variable k : nat.
    Hypothesis HE : forall t g v e k', ty_ok S B t = true -> goty t = Some g ->
      enc nm S k t v = Some e -> (3 * k <= k')%nat -> genc B k' g (Some v) = Ok e.
    Hypothesis HD : forall t g bs v rest k', ty_ok S B t = true -> goty t = Some g ->
      dec nm S k t bs = Some (v, rest) -> (3 * k <= k')%nat -> runs (gdec B k' g) bs v rest.

    (* the Go struct of a single-constructor declaration *)
    Lemma single_marshal d c fs e k' : In d S -> single S d = true ->
      enc_fields nm (enc nm S k) (dfields d) fs [] = Some e -> (3 * k + 2 <= k')%nat ->
      genc B k' (GNamed (cname d)) (Some (VRec c fs)) = Ok e.
    Proof.
      intros Hd Hs He Hk. destruct (single_binding d Hd Hs) as (sfs & ms & us & Hsf & Hms & Hus & Hb).
      destruct k' as [|k1]; [lia|]. cbn [genc]. rewrite Hb. cbn [run_marshal b_marshal b_type].
      unfold run_mstmts.
      apply (mfields_ok S B k (3 * k) HE k1 (GStruct sfs) [] (VRec c fs) ltac:(lia)
               (dfields d) ms fs [] e []); auto.
      - apply ready_plain; [apply in_or_app; left; exact Hd|exact Hsf].
      - apply env_rel_nil.
    Qed.

    Lemma single_unmarshal d bs fs rest k' : In d S -> single S d = true ->
      dec_fields nm (dec nm S k) (dfields d) [] bs = Some (fs, rest) -> (3 * k + 1 <= k')%nat ->
      runs (gdec B k' (GNamed (cname d))) bs (VRec "" fs) rest.
    Proof.
      intros Hd Hs He Hk. destruct (single_binding d Hd Hs) as (sfs & ms & us & Hsf & Hms & Hus & Hb).
      destruct k' as [|k1]; [lia|]. cbn [gdec]. rewrite Hb. unfold run_unmarshal. cbn [b_unmarshal b_type].
      apply (runs_bind _ _ _ fs rest); [|apply runs_ret].
      apply (ufields_ok S B k (3 * k) HD k1 (GStruct sfs) [] ltac:(lia)
               (dfields d) us [] bs fs rest []); auto.
      - apply ready_plain; [apply in_or_app; left; exact Hd|exact Hsf].
      - apply env_rel_nil.
    Qed.

    Lemma enc_step t g v e k' : ty_ok S B t = true -> goty t = Some g ->
      enc nm S (Datatypes.S k) t v = Some e -> (3 * k + 3 <= k')%nat -> genc B k' g (Some v) = Ok e.
    Proof.
      intros Hok Hg He Hk. destruct k' as [|k1]; [lia|].
      destruct t; destruct v; cbn [enc] in He; try discriminate; cbn [goty] in Hg;
        try (inversion Hg; subst g; cbn [genc]).
      - destruct (n <? two32); inversion He; reflexivity.
      - destruct (n <? two32); inversion He; reflexivity.
      - destruct (n <? two64); inversion He; reflexivity.
      - destruct (Nat.eqb (length b) 32 && all_bytes b); inversion He; reflexivity.
      - destruct (all_bytes b); [|discriminate]. destruct (N.of_nat (length b) <? two24); inversion He.
        now rewrite go_bytes_spec.
      - destruct (all_bytes b); [|discriminate]. destruct (N.of_nat (length b) <? two24); inversion He.
        now rewrite go_bytes_spec.
      - inversion He. now rewrite enc_bool_literal.
      - (* vector *)
        apply ty_ok_vector in Hok as (Hok' & g0 & Hg0 & _). rewrite Hg0 in Hg. inversion Hg; subst g.
        cbn [genc]. destruct (N.of_nat (length l) <? two32); [|discriminate].
        destruct (enc_list (enc nm S k t) l) as [body|] eqn:Eb; [|discriminate]. inversion He; subst e.
        rewrite (enc_list_concat (enc nm S k t) (fun v => genc B k1 g0 (Some v)) l body); [reflexivity| |exact Eb].
        intros v x _ Hv. apply (HE t g0 v x k1 Hok' Hg0 Hv). lia.
      - (* bare *)
        destruct (find_ctor S c) as [d|] eqn:Hfc; [|discriminate].
        destruct (String.eqb c0 (blbl nm d)); [|discriminate].
        destruct (bare_single c d Hok Hfc) as (Hd & Hs & <-).
        apply (single_marshal d c0 fs e (Datatypes.S k1) Hd Hs He). lia.
      - (* boxed *)
        destruct (find (fun d => String.eqb c (xlbl nm d)) (ctors_of S T)) as [d|] eqn:Hf; [|discriminate].
        destruct (did d <? two32); [|discriminate].
        destruct (enc_fields nm (enc nm S k) (dfields d) fs []) as [e'|] eqn:Ee; [|discriminate].
        inversion He; subst e. clear He.
        destruct (boxed_cases T Hok) as [(d0 & Ec & Hb)|(Hl & x & Hx & Hb)]; rewrite Hb.
        + (* hand-written wrapper of a single-constructor type *)
          rewrite Ec in Hf. cbn [find] in Hf. destruct (String.eqb c (xlbl nm d0)); [|discriminate].
          inversion Hf; subst d0. destruct (single_of_ctors T d Ec) as (Hd & _ & Hs).
          cbn [run_marshal expected_wrapper b_marshal b_type]. unfold run_mstmts.
          cbn [map run_mstmt concat_res].
          rewrite (single_marshal d c fs e' k1 Hd Hs Ee ltac:(lia)). cbn [bind]. now rewrite app_nil_r.
        + (* sum type *)
          destruct (sum_parts _ _ _ Hx) as (cfs & mc & uc & -> & Hcfs & Hmc & _).
          apply find_some in Hf as Hfin. destruct Hfin as [Hdin Hceq].
          rewrite (find_ext_in _ (fun d => String.eqb c (camel (dname d)))) in Hf.
          2:{ intros y Hy. unfold nm, go_naming; cbn [xlbl]. now rewrite (not_single T y Hl Hy). }
          destruct (F2_find_assoc (fun d => mstmts [camel (dname d)] d) (fun d => camel (dname d))
                      (fun d ms => WriteTag (did d) :: ms) _ _ c d Hmc Hf) as (ms & Hms & Ha).
          cbn [run_marshal b_marshal b_type]. rewrite Ha. unfold run_mstmts.
          cbn [map concat_res run_mstmt].
          destruct (F2_in_assoc gostruct (fun d => camel (dname d)) (fun _ t => t) _ _ d Hcfs) as (t & Ht & _);
            [|exact Hdin|].
          { apply ctors_of_in in Hdin as [HdS HdT]. destruct M_parts as (_ & _ & _ & _ & M5).
            specialize (M5 d HdS). unfold sum_names_ok in M5. rewrite HdT in M5.
            apply nodup_str_cons in M5 as [_ M5]. exact M5. }
          unfold gostruct in Ht. destruct (opt_cat (map gofield (dfields d))) as [sfs|] eqn:Hsf; [|discriminate].
          assert (Hc : c = camel (dname d)).
          { unfold nm, go_naming in Hceq; cbn [xlbl] in Hceq. rewrite (not_single T d Hl Hdin) in Hceq.
            apply String.eqb_eq; exact Hceq. }
          subst c.
          assert (Hm := mfields_ok S B k (3 * k) HE k1 _ [camel (dname d)] (VRec (camel (dname d)) fs) ltac:(lia)
                     (dfields d) ms fs [] e' [] (ready_sum T d cfs sfs Hdin Hcfs Hsf)
                     (fun _ _ H => H) (env_rel_nil _) Hms Ee).
          cbn [app] in Hm. rewrite Hm. reflexivity.
    Qed.

    Lemma dec_step t g bs v rest k' : ty_ok S B t = true -> goty t = Some g ->
      dec nm S (Datatypes.S k) t bs = Some (v, rest) -> (3 * k + 3 <= k')%nat -> runs (gdec B k' g) bs v rest.
    Proof.
      intros Hok Hg He Hk. destruct k' as [|k1]; [lia|].
      destruct t; cbn [dec] in He; cbn [goty] in Hg; try discriminate;
        try (inversion Hg; subst g; cbn [gdec]).
      - destruct (split_at 4 bs) as [[a r]|] eqn:Es; [|discriminate]. inversion He; subst.
        apply (runs_bind _ _ _ tt bs); [apply runs_make; unfold max_alloc; lia|].
        apply (runs_bind _ _ _ a rest); [apply runs_read_full; exact Es|apply runs_ret].
      - destruct (split_at 4 bs) as [[a r]|] eqn:Es; [|discriminate]. inversion He; subst.
        apply (runs_bind _ _ _ tt bs); [apply runs_make; unfold max_alloc; lia|].
        apply (runs_bind _ _ _ a rest); [apply runs_read_full; exact Es|apply runs_ret].
      - destruct (split_at 8 bs) as [[a r]|] eqn:Es; [|discriminate]. inversion He; subst.
        apply (runs_bind _ _ _ tt bs); [apply runs_make; unfold max_alloc; lia|].
        apply (runs_bind _ _ _ a rest); [apply runs_read_full; exact Es|apply runs_ret].
      - destruct (split_at 32 bs) as [[a r]|] eqn:Es; [|discriminate]. inversion He; subst.
        apply (runs_bind _ _ _ a rest); [apply runs_read_full; exact Es|apply runs_ret].
      - destruct (dec_bytes bs) as [[b r]|] eqn:Es; [|discriminate]. inversion He; subst.
        apply (runs_bind _ _ _ b rest); [apply read_byte_slice_refines; exact Es|apply runs_ret].
      - destruct (dec_bytes bs) as [[b r]|] eqn:Es; [|discriminate]. inversion He; subst.
        apply (runs_bind _ _ _ b rest); [apply read_byte_slice_refines; exact Es|apply runs_ret].
      - destruct (split_at 4 bs) as [[a r]|] eqn:Es; [|discriminate].
        apply (runs_bind _ _ _ tt bs); [apply runs_make; unfold max_alloc; lia|].
        apply (runs_bind _ _ _ a r); [apply runs_read_full; exact Es|].
        unfold bool_true_id, bool_false_id in He.
        destruct (le_num a =? 2574415285); [inversion He; subst; apply runs_ret|].
        destruct (le_num a =? 3162085175); [inversion He; subst; apply runs_ret|discriminate].
      - (* vector *)
        apply ty_ok_vector in Hok as (Hok' & g0 & Hg0 & Hsz). rewrite Hg0 in Hg. inversion Hg; subst g.
        cbn [gdec]. destruct (split_at 4 bs) as [[a r]|] eqn:Es; [|discriminate].
        destruct (dec_count (dec nm S k t) (le_num a) r) as [[vs r']|] eqn:Ec; [|discriminate].
        inversion He; subst.
        apply (decode_vector_refines (dec nm S k t) (gdec B k1 g0) (gsize B g0) bs vs rest a r); auto.
        intros bs0 v0 r0 H0. apply (HD t g0 bs0 v0 r0 k1 Hok' Hg0 H0). lia.
      - (* bare *)
        destruct (find_ctor S c) as [d|] eqn:Hfc; [|discriminate].
        destruct (dec_fields nm (dec nm S k) (dfields d) [] bs) as [[fs r]|] eqn:Ef; [|discriminate].
        inversion He; subst. destruct (bare_single c d Hok Hfc) as (Hd & Hs & <-).
        change (blbl nm d) with ""%string.
        apply (single_unmarshal d bs fs rest (Datatypes.S k1) Hd Hs Ef). lia.
      - (* boxed *)
        destruct (split_at 4 bs) as [[a r]|] eqn:Es; [|discriminate].
        destruct (find (fun d => did d =? le_num a) (ctors_of S T)) as [d|] eqn:Hf; [|discriminate].
        destruct (dec_fields nm (dec nm S k) (dfields d) [] r) as [[fs r']|] eqn:Ef; [|discriminate].
        inversion He; subst. clear He.
        destruct (boxed_cases T Hok) as [(d0 & Ec & Hb)|(Hl & x & Hx & Hb)]; rewrite Hb.
        + rewrite Ec in Hf. cbn [find] in Hf. destruct (N.eqb_spec (did d0) (le_num a)) as [Eid|]; [|discriminate].
          inversion Hf; subst d0. destruct (single_of_ctors T d Ec) as (Hd & _ & Hs).
          unfold nm, go_naming; cbn [xlbl]. rewrite Hs.
          unfold run_unmarshal. cbn [expected_wrapper b_unmarshal b_type run_ustmts run_ustmt].
          apply (runs_bind _ _ _ fs rest); [|apply runs_ret].
          apply (runs_bind _ _ _ [] r).
          { apply (runs_bind _ _ _ (VNum (le_num a)) r).
            - destruct k1 as [|k2]; [lia|]. cbn [gdec].
              apply (runs_bind _ _ _ tt bs); [apply runs_make; unfold max_alloc; lia|].
              apply (runs_bind _ _ _ a r); [apply runs_read_full; exact Es|apply runs_ret].
            - rewrite <- Eid, N.eqb_refl. apply runs_ret. }
          apply (runs_bind _ _ _ fs rest); [|apply runs_ret].
          apply (runs_bind _ _ _ (VRec "" fs) rest); [|apply runs_ret].
          apply (single_unmarshal d r fs rest k1 Hd Hs Ef). lia.
        + destruct (sum_parts _ _ _ Hx) as (cfs & mc & uc & -> & Hcfs & _ & Huc).
          apply find_some in Hf as Hfin. destruct Hfin as [Hdin _].
          destruct (F2_find_ucase (fun d => ustmts [camel (dname d)] d) (fun d => camel (dname d))
                      _ _ _ d Huc Hf) as (us & Hus & Hfu).
          unfold run_unmarshal. cbn [b_unmarshal b_type].
          apply (runs_bind _ _ _ a r); [apply runs_read_full; exact Es|]. rewrite Hfu.
          destruct (F2_in_assoc gostruct (fun d => camel (dname d)) (fun _ t => t) _ _ d Hcfs) as (t & Ht & _);
            [|exact Hdin|].
          { apply ctors_of_in in Hdin as [HdS HdT]. destruct M_parts as (_ & _ & _ & _ & M5).
            specialize (M5 d HdS). unfold sum_names_ok in M5. rewrite HdT in M5.
            apply nodup_str_cons in M5 as [_ M5]. exact M5. }
          unfold gostruct in Ht. destruct (opt_cat (map gofield (dfields d))) as [sfs|] eqn:Hsf; [|discriminate].
          unfold nm, go_naming; cbn [xlbl]. rewrite (not_single T d Hl Hdin).
          apply (runs_bind _ _ _ fs rest); [|apply runs_ret].
          apply (ufields_ok S B k (3 * k) HD k1 _ [camel (dname d)] ltac:(lia)
                   (dfields d) us [] r fs rest [] (ready_sum T d cfs sfs Hdin Hcfs Hsf)); auto.
          apply env_rel_nil.
    Qed.
  End Step.

  Theorem refines : forall ks,
    (forall t g v e k', ty_ok S B t = true -> goty t = Some g ->
       enc nm S ks t v = Some e -> (3 * ks <= k')%nat -> genc B k' g (Some v) = Ok e) /\
    (forall t g bs v rest k', ty_ok S B t = true -> goty t = Some g ->
       dec nm S ks t bs = Some (v, rest) -> (3 * ks <= k')%nat -> runs (gdec B k' g) bs v rest).
  Proof.
    induction ks as [|k [IHe IHd]]; [split; intros; discriminate|]. split.
    - intros t g v e k' Hok Hg He Hk. apply (enc_step k IHe t g v e k' Hok Hg He). lia.
    - intros t g bs v rest k' Hok Hg He Hk. apply (dec_step k IHd t g bs v rest k' Hok Hg He). lia.
  Qed.
End Sound.
