(** History of a repaired defect (C12): Connection.handleAuthResponse before
    "fix: do not answer an auth nonce without an auth key".

    Every operation of liteclient/connection.go on these paths starts with
    c.mu.Lock().  handleAuthResponse, called by Connection.reader for a
    tcp.authentificationNonce packet, did, with the lock held:
        if c.status != Connecting { return error }
        err := c.sendAuthComplete(p)        // c.authKey == nil  ->  error
        c.authCompleteChan <- err           // unbuffered; the only receiver is the
                                            // auth branch of setupEncryptedConnection
    For a connection without an auth key nobody ever receives: the reader blocks
    forever and never unlocks.  The status is Connecting between reconnect()'s
    prologue and the end of setupEncryptedConnection, while the reader of the old
    connection is still working through the packets it has buffered.

    Tiny model: the status and whether the lock is held by the blocked handler. *)
From Coq Require Import List Bool Arith NArith.
Import ListNotations.

Record cstate := mkCS { connected : bool; stuck : bool }.

Inductive clabel :=
| CSend                (* Connection.Send: lock, check status, write, unlock *)
| CStatus              (* Connection.Status *)
| CReconnectEnter      (* reconnect(): lock, status = Connecting, close, unlock *)
| CReconnectDone       (* setupEncryptedConnection: lock, new econn, status = Connected, unlock *)
| CNonce.              (* Connection.reader -> handleAuthResponse *)

Section Fix.
  Variable fixed : bool.   (* true: the repaired code (authKey == nil is rejected first) *)

  Definition cstep (s : cstate) (l : clabel) : option cstate :=
    if stuck s then None     (* c.mu.Lock() never returns *)
    else match l with
         | CSend | CStatus => Some s
         | CReconnectEnter => Some (mkCS false false)
         | CReconnectDone => Some (mkCS true false)
         | CNonce =>
             if connected s then Some s            (* "received unexpected auth packet" *)
             else if fixed then Some s             (* no auth key: rejected as well *)
             else Some (mkCS false true)           (* blocked on authCompleteChan, lock held *)
         end.

  Fixpoint cexec (s : cstate) (ls : list clabel) : option cstate :=
    match ls with
    | [] => Some s
    | l :: t => match cstep s l with Some s' => cexec s' t | None => None end
    end.
End Fix.

Definition cinit : cstate := mkCS true false.

(** before the fix: a nonce packet processed during a reconnect wedges the
    connection; afterwards no operation (in particular no Send, hence no Request
    routed to this connection) ever completes *)
Theorem auth_nonce_wedges_before_fix :
  exists s, cexec false cinit [CSend; CReconnectEnter; CNonce] = Some s /\
            forall l, cstep false s l = None.
Proof. eexists. split; [reflexivity|]. intros l. reflexivity. Qed.

(** after the fix the lock is never held forever: every operation stays enabled *)
Theorem never_wedged_after_fix :
  forall ls s, cexec true cinit ls = Some s -> stuck s = false /\ forall l, cstep true s l <> None.
Proof.
  assert (Hstep : forall s l s', stuck s = false -> cstep true s l = Some s' -> stuck s' = false).
  { intros s l s' Hs. unfold cstep. rewrite Hs.
    destruct l; try (intros [= <-]; auto; fail).
    destruct (connected s); intros [= <-]; auto. }
  assert (Hgen : forall ls s s', stuck s = false -> cexec true s ls = Some s' -> stuck s' = false).
  { induction ls as [|l t IH]; cbn [cexec]; intros s s' Hs.
    - intros [= <-]. exact Hs.
    - destruct (cstep true s l) as [s1|] eqn:E; [|discriminate].
      intros H. exact (IH _ _ (Hstep _ _ _ Hs E) H). }
  intros ls s H. pose proof (Hgen ls cinit s eq_refl H) as Hs. split; [exact Hs|].
  intros l. unfold cstep. rewrite Hs. destruct l; try discriminate.
  destruct (connected s); discriminate.
Qed.

(** ---- Design refutation (C12): one deadline for the whole reconnect loop ----

    reconnect() retries setupEncryptedConnection(ctx) every second until it
    succeeds.  In the code each attempt gets context.Background(): nothing an
    attempt does depends on how long the loop has been running.  The tempting
    variant "ctx := context.WithTimeout(Background(), reconnectTimeout) in front of
    the loop" bounds the whole loop: once [deadline] seconds have passed every
    DialContext fails at once, for ever, while the status stays Connecting (and
    reconnect() is a no-op while Connecting).

    Tiny model of the loop: seconds since it started, whether it has finished. *)
Record lstate := mkLS { elapsed : nat; done : bool }.

Inductive llabel :=
| RTick                      (* one second *)
| RAttempt (server_up : bool).

Section Loop.
  Variable shared : bool.      (* true: one deadline in front of the loop *)
  Variable deadline : nat.

  Definition attempt_ok (s : lstate) (server_up : bool) : bool :=
    server_up && (negb shared || Nat.ltb (elapsed s) deadline).

  Definition lstep (s : lstate) (l : llabel) : lstate :=
    if done s then s else
    match l with
    | RTick => mkLS (S (elapsed s)) false
    | RAttempt up => if attempt_ok s up then mkLS (elapsed s) true else s
    end.

  Definition lexec (s : lstate) (ls : list llabel) : lstate := fold_left lstep ls s.
End Loop.

Definition linit : lstate := mkLS 0 false.

(** with per-attempt deadlines the first attempt that finds the server up ends the
    loop, however long the outage was *)
Theorem per_attempt_deadline_recovers :
  forall deadline ls, done (lstep false deadline (lexec false deadline linit ls) (RAttempt true)) = true.
Proof.
  intros deadline ls. unfold lstep, attempt_ok.
  destruct (done (lexec false deadline linit ls)) eqn:E; [exact E|]. reflexivity.
Qed.

(** with one deadline for the loop: after an outage of [deadline] seconds no
    attempt succeeds any more, although the server is up *)
Theorem single_loop_deadline_refuted :
  forall deadline ls,
    let outage := flat_map (fun _ => [RAttempt false; RTick]) (seq 0 deadline) in
    (forall l, In l ls -> l = RTick \/ l = RAttempt true) ->
    done (lexec true deadline linit (outage ++ ls)) = false.
Proof.
  intros deadline ls outage Hls. unfold lexec. rewrite fold_left_app.
  assert (Hout : forall n s, done s = false ->
            fold_left (lstep true deadline) (flat_map (fun _ => [RAttempt false; RTick]) (seq 0 n)) s
            = mkLS (n + elapsed s) false).
  { clear. intros n. generalize 0 as a. induction n as [|n IH]; intros a s Hd.
    - destruct s as [e d]. cbn in *. subst. reflexivity.
    - cbn [seq flat_map app fold_left].
      assert (H1 : lstep true deadline s (RAttempt false) = s).
      { unfold lstep, attempt_ok. rewrite Hd. reflexivity. }
      rewrite H1.
      assert (H2 : lstep true deadline s RTick = mkLS (S (elapsed s)) false).
      { unfold lstep. rewrite Hd. reflexivity. }
      rewrite H2, IH by reflexivity. cbn [elapsed]. f_equal. apply eq_sym, plus_n_Sm. }
  unfold outage. rewrite (Hout deadline linit eq_refl). cbn [linit elapsed].
  assert (Hkeep : forall l s, deadline <= elapsed s -> done s = false ->
            (forall x, In x l -> x = RTick \/ x = RAttempt true) ->
            done (fold_left (lstep true deadline) l s) = false).
  { clear. induction l as [|x t IH]; intros s Hle Hd Hall; [exact Hd|].
    cbn [fold_left]. apply IH; [| |intros y Hy; apply Hall; right; exact Hy].
    - destruct (Hall x (or_introl eq_refl)) as [->| ->]; unfold lstep, attempt_ok; rewrite Hd.
      + cbn [elapsed]. apply le_S. exact Hle.
      + cbn [negb orb andb]. destruct (Nat.ltb_spec (elapsed s) deadline) as [Hlt|_]; [|exact Hle].
        exfalso. exact (PeanoNat.Nat.lt_irrefl _ (PeanoNat.Nat.lt_le_trans _ _ _ Hlt Hle)).
    - destruct (Hall x (or_introl eq_refl)) as [->| ->]; unfold lstep, attempt_ok; rewrite Hd.
      + reflexivity.
      + cbn [negb orb andb]. destruct (Nat.ltb_spec (elapsed s) deadline) as [Hlt|_]; [|exact Hd].
        exfalso. exact (PeanoNat.Nat.lt_irrefl _ (PeanoNat.Nat.lt_le_trans _ _ _ Hlt Hle)). }
  apply Hkeep; [cbn [elapsed]; rewrite PeanoNat.Nat.add_0_r; apply le_n|reflexivity|exact Hls].
Qed.

(** ---- Design refutation (C12): a pinger that returns after a failed ping ----

    Connection.ping() loops for ever; a failed Send has already started
    reconnect().  The variant "return when the connection is broken" leaves the
    re-established connection without a pinger: no pings, no pongs, and the 10 s
    silence rule tears the healthy connection down again and again.

    Tiny model: the pinger goroutine, the status, the health of the transport. *)
Record pstate := mkPS { palive : bool; pconnected : bool; pbroken : bool }.

Inductive plabel := PDrop | PPing | PReconnect.

Section Pinger.
  Variable exits : bool.   (* true: the pinger returns after a failed ping *)

  Definition pstep (s : pstate) (l : plabel) : option pstate :=
    match l with
    | PDrop => if pconnected s then Some (mkPS (palive s) true true) else None
    | PPing =>
        if palive s then
          if negb (pconnected s) then Some s                          (* "not connected yet": continue *)
          else if pbroken s then Some (mkPS (negb exits) false true)   (* Send fails: go c.reconnect() *)
          else Some s
        else None
    | PReconnect => if pconnected s then None else Some (mkPS (palive s) true false)
    end.

  Fixpoint pexec (s : pstate) (ls : list plabel) : option pstate :=
    match ls with
    | [] => Some s
    | l :: t => match pstep s l with Some s' => pexec s' t | None => None end
    end.
End Pinger.

Definition pinit : pstate := mkPS true true false.

Theorem pinger_lost_refuted :
  exists s, pexec true pinit [PDrop; PPing; PReconnect] = Some s /\
            pconnected s = true /\ pbroken s = false /\
            forall ls s', pexec true s ls = Some s' -> pstep true s' PPing = None.
Proof.
  eexists. split; [reflexivity|]. repeat split.
  assert (H : forall ls s s', palive s = false -> pexec true s ls = Some s' -> palive s' = false).
  { induction ls as [|l t IH]; cbn [pexec]; intros s s' Ha.
    - intros [= <-]. exact Ha.
    - destruct (pstep true s l) as [s1|] eqn:E; [|discriminate]. apply IH.
      destruct l; unfold pstep in E; rewrite ?Ha in E.
      + destruct (pconnected s); [|discriminate]. injection E as <-; first [exact Ha|reflexivity].
      + discriminate.
      + destruct (pconnected s); [discriminate|]. injection E as <-; first [exact Ha|reflexivity]. }
  intros ls s' Hx. unfold pstep. rewrite (H ls _ s' (eq_refl : palive (mkPS false true false) = false) Hx). reflexivity.
Qed.

Theorem pinger_kept :
  forall ls s, pexec false pinit ls = Some s -> pstep false s PPing <> None.
Proof.
  assert (H : forall ls s s', palive s = true -> pexec false s ls = Some s' -> palive s' = true).
  { induction ls as [|l t IH]; cbn [pexec]; intros s s' Ha.
    - intros [= <-]. exact Ha.
    - destruct (pstep false s l) as [s1|] eqn:E; [|discriminate]. apply IH.
      destruct l; unfold pstep in E; rewrite ?Ha in E.
      + destruct (pconnected s); [|discriminate]. injection E as <-; first [exact Ha|reflexivity].
      + destruct (negb (pconnected s)); [injection E as <-; first [exact Ha|reflexivity]|].
        destruct (pbroken s); injection E as <-; first [exact Ha|reflexivity].
      + destruct (pconnected s); [discriminate|]. injection E as <-; first [exact Ha|reflexivity]. }
  intros ls s Hx. unfold pstep. rewrite (H ls pinit s eq_refl Hx).
  destruct (negb (pconnected s)); [discriminate|]. destruct (pbroken s); discriminate.
Qed.

(** ---- Design refutation (C12): "respect the caller's deadline" ----

    Request bounds every call with context.WithTimeout(ctx, c.timeout): the earlier
    of the two deadlines wins.  The variant "apply the client timeout only if the
    caller's context has no deadline" lets a caller deadline that is LATER than the
    client timeout replace it: the documented bound of OptionTimeout is lost. *)
Definition caller_deadline_only (timeout : nat) (caller : option nat) : nat :=
  match caller with None => timeout | Some c => c end.

Theorem caller_deadline_only_refuted :
  forall timeout, exists caller, timeout < caller_deadline_only timeout caller.
Proof. intros timeout. exists (Some (S timeout)). apply le_n. Qed.

(** ---- Design refutation (C12): closing authCompleteChan after the first authentication ----

    authCompleteChan is made once in NewConnection and used by every
    setupEncryptedConnection (the first one and every reconnect):
        setup:   send tcp.authentificate;  select { case err := <-c.authCompleteChan ... }
        reader:  tcp.authentificationNonce -> handleAuthResponse: sign, send, status = Connected,
                 c.authCompleteChan <- err
    Model of one connection with an auth key: is a setup waiting, is the channel closed. *)
Inductive aout := ARunning | APanic.
Record astate := mkAS { awaiting : bool; aclosed : bool; aconnected : bool; aout_ : aout }.

Inductive alabel :=
| ASetup        (* (re)connect: handshake done, auth request sent, waiting on the channel *)
| ANonce        (* the reader handles the server's nonce *)
| ADrop.        (* the connection is lost: reconnect() sets Connecting *)

Section Auth.
  Variable closes : bool.   (* true: close(c.authCompleteChan) after the send *)

  Definition astep (s : astate) (l : alabel) : option astate :=
    match aout_ s with
    | APanic => None                                   (* the process is gone *)
    | ARunning =>
        match l with
        | ASetup =>
            if aconnected s || awaiting s then None
            else if aclosed s
                 then Some (mkAS false true false ARunning)    (* receive on a closed channel: nil at once,
                                                                  setup "succeeds", status still Connecting *)
                 else Some (mkAS true false false ARunning)
        | ANonce =>
            if aconnected s then Some s                         (* "received unexpected auth packet" *)
            else if aclosed s then Some (mkAS false true true APanic)   (* send on closed channel *)
            else if awaiting s then Some (mkAS false closes true ARunning)
            else None                                           (* the send blocks: no receiver (not this defect) *)
        | ADrop => if aconnected s then Some (mkAS false (aclosed s) false ARunning) else None
        end
    end.

  Fixpoint aexec (s : astate) (ls : list alabel) : option astate :=
    match ls with
    | [] => Some s
    | l :: t => match astep s l with Some s' => aexec s' t | None => None end
    end.
End Auth.

Definition ainit : astate := mkAS false false false ARunning.

(** one authentication, a drop, the second authentication: panic *)
Theorem auth_chan_closed_refuted :
  exists s, aexec true ainit [ASetup; ANonce; ADrop; ASetup; ANonce] = Some s /\ aout_ s = APanic.
Proof. eexists. split; reflexivity. Qed.

(** the channel that is never closed serves any number of authentications *)
Theorem auth_chan_open_never_panics :
  forall ls s, aexec false ainit ls = Some s -> aout_ s = ARunning /\ aclosed s = false.
Proof.
  assert (H : forall ls s s', aout_ s = ARunning -> aclosed s = false -> aexec false s ls = Some s' ->
                              aout_ s' = ARunning /\ aclosed s' = false).
  { induction ls as [|l t IH]; cbn [aexec]; intros s s' Ho Hc.
    - intros [= <-]. auto.
    - destruct (astep false s l) as [s1|] eqn:E; [|discriminate].
      assert (aout_ s1 = ARunning /\ aclosed s1 = false) as [Ho1 Hc1].
      { unfold astep in E. rewrite Ho, Hc in E. destruct l.
        - destruct (aconnected s || awaiting s); [discriminate|]. injection E as <-. auto.
        - destruct (aconnected s); [injection E as <-; auto|].
          destruct (awaiting s); [injection E as <-; auto|discriminate].
        - destruct (aconnected s); [|discriminate]. injection E as <-. auto. }
      exact (IH _ _ Ho1 Hc1). }
  intros ls s. exact (H ls ainit s eq_refl eq_refl).
Qed.

(** ... and each of them completes: after every drop, setup + nonce re-establish it *)
Theorem auth_chan_open_reconnects :
  forall ls s, aexec false ainit ls = Some s -> aconnected s = false -> awaiting s = false ->
    exists s', aexec false s [ASetup; ANonce] = Some s' /\ aconnected s' = true /\ aout_ s' = ARunning.
Proof.
  intros ls s Hx Hc Hw. destruct (auth_chan_open_never_panics ls s Hx) as [Ho Hcl].
  cbn [aexec]. unfold astep at 1. rewrite Ho, Hc, Hw, Hcl. cbn [orb].
  unfold astep at 1. cbn. eexists. split; [reflexivity|]. split; reflexivity.
Qed.

(** ---- History of a repaired defect (C12): a handshake without a deadline ----

    newEncryptedConnection dials, writes the 256-byte handshake and reads the
    server's answer.  Before "fix: bound the ADNL handshake of a connection attempt"
    that read had no deadline and ignored the context: a server that accepts the
    TCP connection and stays silent (or sends a few bytes of the answer) kept
    NewConnection blocked whatever its ctx, and kept reconnect() inside ONE attempt
    for ever - status Connecting, every call "not connected yet", although new
    connections would have been served.  Model of one attempt against such a
    server: seconds spent in the handshake read. *)
Inductive hlabel := HTick | HGiveUp.   (* a second passes / the read fails: close, sleep 1 s, next attempt *)

Section Handshake.
  Variable deadline : option nat.   (* None: the read blocks until the server does something *)

  Definition hstep (waited : nat) (l : hlabel) : option nat :=
    match l with
    | HTick => Some (S waited)
    | HGiveUp => match deadline with
                 | Some d => if Nat.leb d waited then Some 0 else None
                 | None => None
                 end
    end.
End Handshake.

Theorem handshake_without_deadline_refuted :
  forall waited, hstep None waited HGiveUp = None.
Proof. reflexivity. Qed.

Theorem handshake_deadline_ends_attempt :
  forall d waited, d <= waited -> hstep (Some d) waited HGiveUp = Some 0.
Proof. intros d waited H. unfold hstep. apply Nat.leb_le in H. rewrite H. reflexivity. Qed.

(** ---- Design refutation (C12): reconnect() checks the status before taking the lock ----

    reconnect(): c.mu.Lock(); if c.status == Connecting { unlock; return };
    c.status = Connecting; close; unlock; loop { dial }.  Check and update are one
    critical section, so of any number of overlapping calls exactly one dials.
    With "if c.Status() == Connecting { return }; c.mu.Lock(); c.status = Connecting"
    the check is a critical section of its own: calls that overlap all pass it. *)
Record kstate := mkKS { kconnecting : bool; dials : nat; passed : list nat }.

Inductive klabel :=
| KCheck (i : nat)      (* split design: call i reads the status *)
| KSet (i : nat)        (* split design: call i locks, sets Connecting, dials *)
| KAtomic (i : nat).    (* real code: check and set under one lock *)

Definition kstep (s : kstate) (l : klabel) : kstate :=
  match l with
  | KCheck i => if kconnecting s then s else mkKS false (dials s) (i :: passed s)
  | KSet i => if existsb (Nat.eqb i) (passed s) then mkKS true (S (dials s)) (passed s) else s
  | KAtomic i => if kconnecting s then s else mkKS true (S (dials s)) (passed s)
  end.

Definition kinit : kstate := mkKS false 0 [].

Theorem reconnect_split_check_refuted :
  dials (fold_left kstep [KCheck 0; KCheck 1; KSet 0; KSet 1] kinit) = 2.
Proof. reflexivity. Qed.

(** with the atomic check-and-set any number of overlapping calls dial at most once
    (until the connection is established again) *)
Theorem reconnect_atomic_dials_once :
  forall ls, (forall l, In l ls -> exists i, l = KAtomic i) -> dials (fold_left kstep ls kinit) <= 1.
Proof.
  assert (H : forall ls s, (forall l, In l ls -> exists i, l = KAtomic i) ->
            (kconnecting s = true -> dials (fold_left kstep ls s) = dials s) /\
            (kconnecting s = false -> dials (fold_left kstep ls s) <= S (dials s))).
  { induction ls as [|l t IH]; intros s Hall; cbn [fold_left].
    - split; intros; [reflexivity|apply le_S, le_n].
    - destruct (Hall l (or_introl eq_refl)) as [i ->].
      assert (Ht : forall l, In l t -> exists i, l = KAtomic i) by (intros l Hl; apply Hall; right; exact Hl).
      assert (Hs : kstep s (KAtomic i) = if kconnecting s then s else mkKS true (S (dials s)) (passed s)) by reflexivity.
      rewrite Hs. destruct (kconnecting s) eqn:E; split; intros Hc; try discriminate.
      + exact (proj1 (IH s Ht) E).
      + pose proof (proj1 (IH (mkKS true (S (dials s)) (passed s)) Ht) eq_refl) as H1.
        rewrite H1. cbn [dials]. apply le_n. }
  intros ls Hall. exact (proj2 (H ls kinit Hall) eq_refl).
Qed.

(** ---- Design refutation (C12/C10): the long form of the length prefix from 255 on ----

    With `i > 254` instead of `i >= 254` a field of exactly 254 bytes is written with
    the one-byte prefix 254, which every reader takes for the marker of the long
    form: the three data bytes that follow are read as the length. *)
From Tongo Require Import Model.Client.
Local Open Scope N_scope.

Definition enc_len_gt (n : N) : list N :=
  if (n <=? 254) then [n] else [254; n mod 256; (n / 256) mod 256; (n / 65536) mod 256].

Theorem len_prefix_gt_refuted :
  exists r, dec_len (enc_len_gt 254 ++ r) <> Some (254, r).
Proof. exists [1; 2; 3; 4]. vm_compute. discriminate. Qed.

