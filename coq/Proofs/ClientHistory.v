(** History of a repaired defect (C12): Connection.handleAuthResponse before
    "fix: do not answer an auth nonce without an auth key".

    Every operation of liteclient/connection.go on these paths starts with
    c.mu.Lock().  handleAuthResponse, called by Connection.reader for a
    tcp.authentificationNonce packet, did, with the lock held:
        if c.status != Connecting { return error }
        err := c.sendAuthComplete(p)        // c.authKey == nil  ->  error
        c.authCompleteChan <- err           // unbuffered; the only receiver is the
                                            // auth branch of setupEncryptedConnection
    For a connection without an auth key nobody ever receives: the reader blocks
    forever and never unlocks.  The status is Connecting between reconnect()'s
    prologue and the end of setupEncryptedConnection, while the reader of the old
    connection is still working through the packets it has buffered.

    Tiny model: the status and whether the lock is held by the blocked handler. *)
From Coq Require Import List Bool.
Import ListNotations.

Record cstate := mkCS { connected : bool; stuck : bool }.

Inductive clabel :=
| CSend                (* Connection.Send: lock, check status, write, unlock *)
| CStatus              (* Connection.Status *)
| CReconnectEnter      (* reconnect(): lock, status = Connecting, close, unlock *)
| CReconnectDone       (* setupEncryptedConnection: lock, new econn, status = Connected, unlock *)
| CNonce.              (* Connection.reader -> handleAuthResponse *)

Section Fix.
  Variable fixed : bool.   (* true: the repaired code (authKey == nil is rejected first) *)

  Definition cstep (s : cstate) (l : clabel) : option cstate :=
    if stuck s then None     (* c.mu.Lock() never returns *)
    else match l with
         | CSend | CStatus => Some s
         | CReconnectEnter => Some (mkCS false false)
         | CReconnectDone => Some (mkCS true false)
         | CNonce =>
             if connected s then Some s            (* "received unexpected auth packet" *)
             else if fixed then Some s             (* no auth key: rejected as well *)
             else Some (mkCS false true)           (* blocked on authCompleteChan, lock held *)
         end.

  Fixpoint cexec (s : cstate) (ls : list clabel) : option cstate :=
    match ls with
    | [] => Some s
    | l :: t => match cstep s l with Some s' => cexec s' t | None => None end
    end.
End Fix.

Definition cinit : cstate := mkCS true false.

(** before the fix: a nonce packet processed during a reconnect wedges the
    connection; afterwards no operation (in particular no Send, hence no Request
    routed to this connection) ever completes *)
Theorem auth_nonce_wedges_before_fix :
  exists s, cexec false cinit [CSend; CReconnectEnter; CNonce] = Some s /\
            forall l, cstep false s l = None.
Proof. eexists. split; [reflexivity|]. intros l. reflexivity. Qed.

(** after the fix the lock is never held forever: every operation stays enabled *)
Theorem never_wedged_after_fix :
  forall ls s, cexec true cinit ls = Some s -> stuck s = false /\ forall l, cstep true s l <> None.
Proof.
  assert (Hstep : forall s l s', stuck s = false -> cstep true s l = Some s' -> stuck s' = false).
  { intros s l s' Hs. unfold cstep. rewrite Hs.
    destruct l; try (intros [= <-]; auto; fail).
    destruct (connected s); intros [= <-]; auto. }
  assert (Hgen : forall ls s s', stuck s = false -> cexec true s ls = Some s' -> stuck s' = false).
  { induction ls as [|l t IH]; cbn [cexec]; intros s s' Hs.
    - intros [= <-]. exact Hs.
    - destruct (cstep true s l) as [s1|] eqn:E; [|discriminate].
      intros H. exact (IH _ _ (Hstep _ _ _ Hs E) H). }
  intros ls s H. pose proof (Hgen ls cinit s eq_refl H) as Hs. split; [exact Hs|].
  intros l. unfold cstep. rewrite Hs. destruct l; try discriminate.
  destruct (connected s); discriminate.
Qed.
