(** C06, derived bit strings: the BitString returned by ReadBits /
    ReadRemainingBits / Copy / Grow, and what is later written into it (Append,
    WriteBitString, the completion tag of ToFiftHex / GetTopUppedArray), behaves
    like the ideal bit list WHATEVER the buffer holds past [len].

    [Inv] says nothing about the bits of the buffer at positions >= len; On(n)
    with n >= len really puts arbitrary bits there ([set_bit_spec]; before its
    repair the aligned fast path of ReadBits did, too — Proofs/C06History.v).
    All the refinement theorems below
    are therefore statements "for every garbage past len"; they hold because
    WriteBit(false) clears its bit ([Lib.Bits.set_nth_firstn_S]). *)
From Coq Require Import List NArith Arith Lia Bool.
From Tongo Require Import Lib.Bits Lib.Res Model.BitString Model.BitStringD
  Proofs.BitStringW Proofs.BitStringR Proofs.BitStringR2 Proofs.Fift.
Import ListNotations.

Lemma write_bits_g_real l : forall s, write_bits_g write_bit l s = write_bits l s.
Proof.
  induction l as [|b t IH]; intros s; cbn [write_bits_g write_bits]; [reflexivity|].
  destruct (write_bit b s) as [s' [u|e|p]]; auto.
Qed.

Lemma abs_length s : Inv s -> length (abs s) = len s.
Proof. intros (H1 & H2 & H3 & H4). unfold abs. rewrite firstn_length. lia. Qed.

Lemma nbytes_bounds n : (n <= 8 * nbytes n < n + 8)%nat.
Proof.
  unfold nbytes.
  pose proof (Nat.div_mod (n + 7) 8 ltac:(lia)).
  pose proof (Nat.mod_upper_bound (n + 7) 8 ltac:(lia)). lia.
Qed.

Lemma mul8_mod k : ((8 * k) mod 8 = 0)%nat.
Proof. rewrite Nat.mul_comm. apply Nat.mod_mul. lia. Qed.

(** *** writers: explicit "garbage past len" form *)

(* the state is given by its ideal content [pre] and ARBITRARY buffer bits
   [junk] after it *)
Theorem write_bits_any_junk (pre junk l : bits) (c r : nat) :
  (length (pre ++ junk) mod 8 = 0)%nat ->
  (length pre + length l <= c)%nat -> (c <= length (pre ++ junk))%nat ->
  (r <= length pre)%nat ->
  exists s', write_bits l (mkbs (pre ++ junk) c (length pre) r) = (s', Ok tt) /\
    abs s' = pre ++ l /\ Inv s' /\ len s' = (length pre + length l)%nat.
Proof.
  intros Hm Hfit Hc Hr.
  set (s := mkbs (pre ++ junk) c (length pre) r).
  assert (HI : Inv s) by (unfold Inv, s; cbn [buf cap len rcur]; lia).
  destruct (write_bits_ok l s HI ltac:(cbn [len cap s]; lia))
    as (s' & E & A & I' & L & _).
  exists s'. splits; auto.
  rewrite A. unfold abs, s; cbn [len buf]. rewrite firstn_app_exact. reflexivity.
Qed.

(** *** ReadBits, the returned BitString *)
Theorem read_bits_bs_spec n s :
  Inv s ->
  if (rcur s + n <=? len s)%nat then
    exists r, read_bits_bs n s = (adv s n, Ok r) /\
      abs r = rd s n /\ Inv r /\ len r = n /\ cap r = n /\ rcur r = 0%nat
  else read_bits_bs n s = (s, Err ENotEnoughBits).
Proof.
  intros HI. pose proof HI as (H1 & H2 & H3 & H4).
  unfold read_bits_bs, read_bits_bs_g.
  rewrite avail_ltb by exact HI.
  destruct (Nat.leb_spec (rcur s + n) (len s)) as [Hfit|Hno]; cbn [negb]; [|reflexivity].
  rewrite rd_buf by exact Hfit.
  pose proof (nbytes_bounds n) as Hnb8.
  destruct (Nat.eqb_spec (rcur s mod 8) 0) as [Hra|Hra].
  - assert (Hnb : (rcur s + 8 * nbytes n <= length (buf s))%nat).
    { pose proof (Nat.div_mod (length (buf s)) 8 ltac:(lia)) as Hbm.
      pose proof (Nat.div_mod (rcur s) 8 ltac:(lia)).
      assert (exists q, length (buf s) = 8 * q)%nat as (q & Hq) by (exists (length (buf s) / 8)%nat; lia).
      assert (exists p, rcur s = 8 * p)%nat as (p & Hp) by (exists (rcur s / 8)%nat; lia).
      lia. }
    rewrite short_false
      by (rewrite Nat.mul_add_distr_l, div8_mul by exact Hra; exact Hnb).
    rewrite div8_mul by exact Hra.
    eexists; split; [reflexivity|].
    set (l := firstn n (skipn (rcur s) (buf s))).
    assert (Hl : length l = n).
    { unfold l. rewrite firstn_length, skipn_length. lia. }
    unfold abs, Inv; cbn [buf len cap rcur].
    rewrite app_length, Hl. unfold zeros at 2 3. rewrite repeat_length.
    splits; try lia; try reflexivity.
    + rewrite <- Hl at 1. apply firstn_app_exact.
    + replace (n + (8 * nbytes n - n))%nat with (8 * nbytes n)%nat by lia. apply mul8_mod.
  - rewrite short_false by lia.
    rewrite write_bits_g_real.
    set (l := firstn n (skipn (rcur s) (buf s))).
    assert (Hl : length l = n).
    { unfold l. rewrite firstn_length, skipn_length. lia. }
    destruct (write_bits_ok l (new_bs n) (Inv_new n) ltac:(cbn [len cap new_bs]; lia))
      as (r & E & A & I' & L & C & R & _).
    rewrite E. exists r. cbn [new_bs len cap rcur] in *.
    rewrite abs_new in A. cbn [app] in A.
    splits; auto; lia.
Qed.

(* refinement of the ideal reader of Model.BitString *)
Corollary read_bits_bs_refines n s s' r :
  Inv s -> read_bits_bs n s = (s', Ok r) ->
  read_bits n s = (s', Ok (abs r)) /\ Inv r /\ len r = n.
Proof.
  intros HI E. pose proof (read_bits_bs_spec n s HI) as S.
  rewrite read_bits_spec by exact HI.
  destruct (rcur s + n <=? len s)%nat.
  - destruct S as (r0 & E0 & A & I' & L & _). rewrite E0 in E.
    injection E as <- <-. rewrite A. auto.
  - rewrite S in E. discriminate.
Qed.

(* the fast path: the result's buffer is the n bits followed by zeros up to
   the byte boundary — nothing of the source after the window survives *)
Lemma read_bits_bs_aligned_clean n s s' r :
  (rcur s mod 8 = 0)%nat -> read_bits_bs n s = (s', Ok r) ->
  buf r = firstn n (skipn (rcur s) (buf s)) ++ zeros (8 * nbytes n - n).
Proof.
  intros Hra. unfold read_bits_bs, read_bits_bs_g.
  destruct (avail_read s <? n); [discriminate|].
  rewrite Hra. cbn [Nat.eqb].
  destruct (short _ _); [discriminate|].
  rewrite div8_mul by exact Hra. intros E. injection E as _ <-. reflexivity.
Qed.

Example read_bits_bs_clean_example :
  let src := fst (write_bits (bits_of 16 49151) (new_bs 16)) in   (* 0xBFFF *)
  exists s' r, read_bits_bs 1 src = (s', Ok r) /\
    abs r = [true] /\ buf r = [true; false; false; false; false; false; false; false].
Proof. vm_compute. eexists _, _. split; [reflexivity|split; reflexivity]. Qed.

(** *** On / Off: any position below cap, len untouched.  Below len the ideal
    bit changes, at or after len only junk changes — this is how a buffer
    legitimately gets arbitrary bits past its length. *)
Lemma firstn_set_nth_lt {A} (l : list A) : forall n k (v : A),
  (n < k)%nat -> set_nth n v (firstn k l) = firstn k (set_nth n v l).
Proof.
  induction l as [|h t IH]; intros n k v Hn.
  - rewrite firstn_nil. destruct n; cbn [set_nth]; rewrite firstn_nil; reflexivity.
  - destruct k as [|k]; [lia|]. destruct n as [|n]; cbn [set_nth firstn]; [reflexivity|].
    f_equal. apply IH. lia.
Qed.

Theorem set_bit_spec n v s :
  Inv s ->
  if (n <? cap s)%nat then
    exists s', set_bit n v s = (s', Ok tt) /\ Inv s' /\
      len s' = len s /\ cap s' = cap s /\ rcur s' = rcur s /\
      abs s' = (if (n <? len s)%nat then set_nth n v (abs s) else abs s)
  else set_bit n v s = (s, Err EOverflow).
Proof.
  intros (H1 & H2 & H3 & H4). unfold set_bit.
  destruct (Nat.leb_spec (cap s) n) as [Hc|Hc], (Nat.ltb_spec n (cap s)); try lia; [reflexivity|].
  rewrite set_nth_opt_spec.
  destruct (Nat.ltb_spec n (length (buf s))); [|lia].
  eexists; split; [reflexivity|].
  unfold Inv, abs; cbn [buf cap len rcur]. rewrite set_nth_length.
  splits; try lia; try reflexivity.
  destruct (Nat.ltb_spec n (len s)) as [Hn|Hn].
  - symmetry. apply firstn_set_nth_lt. exact Hn.
  - apply set_nth_firstn_lt. exact Hn.
Qed.

Theorem read_remaining_bs_spec s :
  Inv s ->
  exists r, read_remaining_bs s = (set_rcur s (len s), r) /\
    abs r = skipn (rcur s) (abs s) /\ Inv r /\ len r = (len s - rcur s)%nat /\
    cap r = len r /\ rcur r = 0%nat.
Proof.
  intros HI. pose proof HI as (H1 & H2 & H3 & H4).
  unfold read_remaining_bs, read_remaining_bs_g.
  pose proof (read_bits_bs_spec (avail_read s) s HI) as S.
  unfold avail_read in *.
  destruct (Nat.leb_spec (rcur s + (len s - rcur s)) (len s)) as [_|Hno]; [|lia].
  destruct S as (r & E & A & I' & L & C & R).
  unfold read_bits_bs in E. rewrite E. exists r.
  unfold adv. replace (rcur s + (len s - rcur s))%nat with (len s) by lia.
  splits; auto; try lia.
  rewrite A. unfold rd. apply firstn_all2.
  rewrite skipn_length, abs_length by exact HI. lia.
Qed.

(** *** Copy / Grow *)
Lemma copy_bs_spec s : Inv s -> Inv (copy_bs s) /\ abs (copy_bs s) = abs s.
Proof. intros (H1 & H2 & H3 & H4). unfold Inv, copy_bs, abs; cbn. splits; auto; lia. Qed.

Lemma grow_spec k s :
  Inv s -> Inv (grow k s) /\ abs (grow k s) = abs s /\
    cap (grow k s) = (cap s + k)%nat /\ len (grow k s) = len s.
Proof.
  intros (H1 & H2 & H3 & H4). unfold Inv, grow, abs; cbn [buf cap len rcur].
  rewrite app_length. unfold zeros at 1 2. rewrite repeat_length.
  pose proof (Nat.div_mod k 8 ltac:(lia)).
  pose proof (Nat.mod_upper_bound k 8 ltac:(lia)).
  splits; try lia.
  - rewrite <- Nat.add_mod_idemp_r, mul8_mod, Nat.add_0_r by lia. exact H4.
  - rewrite firstn_app. replace (len s - length (buf s))%nat with 0%nat by lia.
    cbn [firstn]. apply app_nil_r.
Qed.

(** *** WriteBitString / Append *)
Lemma write_bitstring_g_real a s :
  Inv a -> write_bitstring_g write_bit a s = write_bits (abs a) s.
Proof.
  intros (H1 & H2 & H3 & H4). unfold write_bitstring_g.
  rewrite short_false by lia. apply write_bits_g_real.
Qed.

Theorem append_bs_spec b s :
  Inv s -> Inv b ->
  exists s', append_bs b s = (s', Ok tt) /\ abs s' = abs s ++ abs b /\ Inv s' /\
    rcur s' = rcur s /\ len s' = (len s + len b)%nat.
Proof.
  intros HI HB. pose proof HI as (H1 & H2 & H3 & H4).
  unfold append_bs, append_g. rewrite write_bitstring_g_real by exact HB.
  set (need := (len b - avail_write s)%nat).
  set (s1 := if (0 <? need)%nat then grow need s else s).
  assert (HS1 : Inv s1 /\ abs s1 = abs s /\ (len s1 + len b <= cap s1)%nat /\
                rcur s1 = rcur s /\ len s1 = len s).
  { unfold s1, need, avail_write. destruct (Nat.ltb_spec 0 (len b - (cap s - len s))) as [Hn|Hn].
    - destruct (grow_spec (len b - (cap s - len s)) s HI) as (I1 & A1 & C1 & L1).
      splits; auto. lia.
    - splits; auto. lia. }
  destruct HS1 as (I1 & A1 & F1 & R1 & L1).
  destruct (write_bits_ok (abs b) s1 I1 ltac:(rewrite abs_length by exact HB; exact F1))
    as (s2 & E & A & I2 & L2 & C2 & R2 & _).
  rewrite E. exists s2. rewrite abs_length in L2 by exact HB.
  splits; auto; congruence.
Qed.

(** *** ToFiftHex on the real buffer = the ideal text form of the ideal list *)
Lemma hex_of_buf_spec s :
  Inv s -> hex_of_buf s = Ok (nibbles (len s) (abs s)).
Proof.
  intros (H1 & H2 & H3 & H4). unfold hex_of_buf.
  rewrite short_false; [reflexivity|].
  pose proof (nbytes_bounds (len s)).
  pose proof (Nat.div_mod (length (buf s)) 8 ltac:(lia)).
  assert (exists q, length (buf s) = 8 * q)%nat as (q & Hq) by (exists (length (buf s) / 8)%nat; lia).
  lia.
Qed.

Theorem to_fift_bs_spec s : Inv s -> to_fift_bs s = Ok (to_fift (abs s)).
Proof.
  intros HI. pose proof HI as (H1 & H2 & H3 & H4).
  unfold to_fift_bs, to_fift_bs_g, to_fift. rewrite abs_length by exact HI.
  pose proof (Nat.mod_upper_bound (len s) 4 ltac:(lia)) as Hub.
  destruct (Nat.eqb_spec (len s mod 4) 0) as [Hm|Hm].
  - rewrite hex_of_buf_spec by exact HI. reflexivity.
  - set (k := (4 - len s mod 4)%nat).
    destruct (copy_bs_spec s HI) as (IC & AC).
    destruct (grow_spec k (copy_bs s) IC) as (IG & AG & CG & LG).
    set (t := grow k (copy_bs s)) in *.
    assert (Lt : len t = len s) by (rewrite LG; reflexivity).
    assert (Ct : cap t = (cap s + k)%nat) by (rewrite CG; reflexivity).
    destruct (write_bit_ok true t IG ltac:(lia)) as (t1 & E1 & A1 & I1 & L1 & C1 & _).
    rewrite E1, write_bits_g_real.
    assert (Hz : length (zeros (k - 1)) = (k - 1)%nat) by (unfold zeros; apply repeat_length).
    destruct (write_bits_ok (zeros (k - 1)) t1 I1 ltac:(rewrite Hz; lia))
      as (t2 & E2 & A2 & I2 & L2 & _).
    rewrite E2, hex_of_buf_spec by exact I2. cbn [res_map]. do 2 f_equal.
    rewrite A2, A1, AG, AC, <- app_assoc. cbn [app].
    replace (k - 1)%nat with (4 - len s mod 4 - 1)%nat by (unfold k; lia).
    set (l := abs s ++ true :: zeros (4 - len s mod 4 - 1)).
    pose proof (Nat.div_mod (len s) 4 ltac:(lia)) as Hdm.
    assert (Hl : length l = (4 * S (len s / 4))%nat).
    { unfold l. rewrite app_length, abs_length by exact HI. cbn [length].
      unfold zeros. rewrite repeat_length. lia. }
    rewrite (nibbles_exact (S (len s / 4)) l (len t2)) by (rewrite ?L2, ?L1, ?Hz; lia).
    rewrite (nibbles_exact (S (len s / 4)) l (S (len s))) by lia.
    reflexivity.
Qed.

(** *** GetTopUppedArray: bytes of ideal list ++ 1 0*, or Overflow when the
    Copy has no room for the tag (the Go code does not grow it) *)
Theorem top_upped_spec s :
  Inv s ->
  let tu := (8 * nbytes (len s) - len s)%nat in
  top_upped s =
    if (tu =? 0)%nat then Ok (bytes_of_bits (nbytes (len s)) (abs s))
    else if (len s + tu <=? cap s)%nat
         then Ok (bytes_of_bits (nbytes (len s)) (abs s ++ true :: zeros (tu - 1)))
         else Err EOverflow.
Proof.
  intros HI tu. pose proof HI as (H1 & H2 & H3 & H4).
  pose proof (nbytes_bounds (len s)) as Hnb.
  assert (Hbuf : (8 * nbytes (len s) <= length (buf s))%nat).
  { pose proof (Nat.div_mod (length (buf s)) 8 ltac:(lia)).
    assert (exists q, length (buf s) = 8 * q)%nat as (q & Hq) by (exists (length (buf s) / 8)%nat; lia).
    lia. }
  destruct (copy_bs_spec s HI) as (IC & AC).
  unfold top_upped, top_upped_g. fold tu.
  assert (bytes_firstn : forall n (l : bits) m, (8 * n <= m)%nat ->
            bytes_of_bits n (firstn m l) = bytes_of_bits n l).
  { induction n as [|n IHn]; intros l m Hm; cbn [bytes_of_bits]; [reflexivity|].
    rewrite firstn_firstn, Nat.min_l by lia. f_equal.
    rewrite skipn_firstn_comm. apply IHn. lia. }
  destruct (Nat.eqb_spec tu 0) as [Ht|Ht].
  - rewrite Ht. cbn [Nat.ltb Nat.leb]. cbn [copy_bs len buf].
    rewrite short_false by exact Hbuf. f_equal.
    unfold abs. rewrite bytes_firstn by lia. reflexivity.
  - destruct (Nat.ltb_spec 0 tu) as [_|Hz]; [|lia].
    rewrite write_bits_g_real.
    set (l := true :: zeros (tu - 1)).
    assert (Hl : length l = tu).
    { unfold l, zeros. cbn [length]. rewrite repeat_length. lia. }
    assert (Lc : len (copy_bs s) = len s) by reflexivity.
    assert (Cc : cap (copy_bs s) = cap s) by reflexivity.
    destruct (Nat.leb_spec (len s + tu) (cap s)) as [Hfit|Hov].
    + destruct (write_bits_ok l (copy_bs s) IC ltac:(rewrite Hl, Lc, Cc; exact Hfit))
        as (r' & E & A & I' & L & C & R & B).
      rewrite E. cbn [copy_bs buf] in B.
      assert (Lr : len r' = (8 * nbytes (len s))%nat) by (rewrite L, Hl, Lc; unfold tu; lia).
      assert (Nr : nbytes (len r') = nbytes (len s)).
      { rewrite Lr. unfold nbytes.
        replace (8 * ((len s + 7) / 8) + 7)%nat with (7 + ((len s + 7) / 8) * 8)%nat by lia.
        rewrite Nat.div_add by lia. reflexivity. }
      rewrite Nr, short_false by lia. f_equal.
      rewrite <- AC, <- A. unfold abs. rewrite bytes_firstn by lia. reflexivity.
    + destruct (write_bits_overflow l (copy_bs s) IC ltac:(rewrite Hl, Lc, Cc; exact Hov))
        as (r' & E & _).
      rewrite E. reflexivity.
Qed.

(** *** WriteBitString / Append write ALL bits of the argument, whatever the
    argument's read cursor is (the Go code resets the cursor of its by-value
    copy to 0 before copying; the caller's bit string keeps its cursor) *)
Lemma write_bitstring_g_eq a s : write_bitstring_g write_bit a s = write_bitstring a s.
Proof. unfold write_bitstring_g, write_bitstring. rewrite write_bits_g_real. reflexivity. Qed.

Lemma write_bitstring_any_cursor a r s :
  write_bitstring (set_rcur a r) s = write_bitstring a s.
Proof. reflexivity. Qed.

Lemma append_any_cursor b r s : append_bs (set_rcur b r) s = append_bs b s.
Proof. reflexivity. Qed.

Theorem write_bitstring_spec a r s :
  Inv s -> Inv a ->
  if (len s + len a <=? cap s)%nat then
    exists s', write_bitstring (set_rcur a r) s = (s', Ok tt) /\
      abs s' = abs s ++ abs a /\ Inv s' /\ len s' = (len s + len a)%nat /\ rcur s' = rcur s
  else
    exists s', write_bitstring (set_rcur a r) s = (s', Err EOverflow) /\
      firstn (len s) (abs s') = abs s /\ Inv s'.
Proof.
  intros HI HA. rewrite write_bitstring_any_cursor.
  rewrite <- write_bitstring_g_eq, write_bitstring_g_real by exact HA.
  pose proof (abs_length a HA) as Hl.
  destruct (Nat.leb_spec (len s + len a) (cap s)) as [Hfit|Hov].
  - destruct (write_bits_ok (abs a) s HI ltac:(rewrite Hl; exact Hfit))
      as (s' & E & A & I' & L & C & R & _).
    exists s'. rewrite Hl in L. splits; auto.
  - apply write_bits_overflow_keeps; [exact HI|rewrite Hl; exact Hov].
Qed.
