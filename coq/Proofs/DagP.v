(** Sharing / caching independence: evaluating a cell array in which shared
    cells are hashed once (as the Go cache keyed by cell pointer does) gives,
    for every index, exactly the immutable cell of the TREE the index unfolds
    to.  Together with CellHashP.impl_hash_is_spec: the hash of a cell depends
    only on its unfolded structure. *)
From Coq Require Import List NArith Arith Lia Bool.
From Tongo Require Import Lib.Bits Lib.Res Model.BocParse Model.CellHash Spec.ReprHash Proofs.CellHashP Proofs.BocParseP.
Import ListNotations.

Fixpoint lookup_trees (done : list (res cell)) (base : nat) (refs : list nat) : res (list cell) :=
  match refs with
  | [] => Ok []
  | r :: t =>
      match nth_error done (r - base) with
      | Some rc => do c <- rc; do cs <- lookup_trees done base t; Ok (c :: cs)
      | None => Panic PNil
      end
  end.

(* the tree each index of a cell array (BOC order) unfolds to *)
Fixpoint trees_of (i : nat) (cells : list node) : list (res cell) :=
  match cells with
  | [] => []
  | c :: rest =>
      let done := trees_of (S i) rest in
      (do refs <- lookup_trees done (S i) (n_refs c);
       Ok (Cell (n_special c) (n_type c) (n_mask c) (n_bits c) refs)) :: done
  end.

Lemma trees_of_length cells : forall i, length (trees_of i cells) = length cells.
Proof. induction cells as [|c t IH]; intros i; cbn [trees_of length]; [reflexivity|]. rewrite IH. reflexivity. Qed.

(* a well-formed array (what the parser returns, C07) unfolds everywhere *)
Lemma trees_of_wf cells : forall i n,
  dag_wf_from n i cells -> n = (i + length cells)%nat ->
  Forall (fun rc => exists c, rc = Ok c) (trees_of i cells).
Proof.
  induction cells as [|nd rest IH]; intros i n Hwf Hn; [constructor|].
  destruct Hwf as ((_ & _ & Hrefs) & Hrest). cbn [length] in Hn.
  specialize (IH (S i) n Hrest ltac:(lia)).
  cbn [trees_of]. constructor; [|exact IH].
  assert (Hl : exists cs, lookup_trees (trees_of (S i) rest) (S i) (n_refs nd) = Ok cs).
  { induction (n_refs nd) as [|r t IHt]; [eexists; reflexivity|].
    inversion Hrefs as [|? ? Hr Ht]; subst.
    destruct (IHt Ht) as (cs & Ecs).
    cbn [lookup_trees].
    destruct (nth_error (trees_of (S i) rest) (r - S i)) as [rc|] eqn:En.
    - rewrite Forall_forall in IH. destruct (IH rc (nth_error_In _ _ En)) as (c & ->).
      cbn [bind]. rewrite Ecs. cbn [bind]. eexists; reflexivity.
    - apply nth_error_None in En. rewrite trees_of_length in En. lia. }
  destruct Hl as (cs & ->). cbn [bind]. eexists; reflexivity.
Qed.

Section D.
Variable H : bytes -> bytes.

Definition imm_of_res (rc : res cell) : res imm := do c <- rc; imm_of H c.

Lemma imm_of_cell special ty m data refs :
  imm_of H (Cell special ty m data refs) =
  do irefs <- mapM (imm_of H) refs; build_imm H special ty m data irefs.
Proof.
  cbn [imm_of]. f_equal.
  induction refs as [|ch t IH]; [reflexivity|].
  cbn [mapM]. rewrite IH. reflexivity.
Qed.

Lemma lookup_refs_map done base refs cs :
  lookup_trees done base refs = Ok cs ->
  lookup_refs (map imm_of_res done) base refs = mapM (imm_of H) cs.
Proof.
  revert cs. induction refs as [|r t IH]; intros cs Hl.
  - injection Hl as <-. reflexivity.
  - cbn [lookup_refs lookup_trees] in *. rewrite nth_error_map.
    destruct (nth_error done (r - base)) as [rc|]; cbn [option_map]; [|discriminate].
    destruct rc as [c|e|p]; cbn [bind] in Hl; try discriminate.
    destruct (lookup_trees done base t) as [cs'|e|p]; cbn [bind] in Hl; try discriminate.
    injection Hl as <-. unfold imm_of_res at 1. cbn [bind mapM].
    rewrite (IH cs' eq_refl). reflexivity.
Qed.

(** every index whose tree exists evaluates to the immutable cell of that tree *)
Theorem eval_dag_is_tree cells : forall i k c,
  nth_error (trees_of i cells) k = Some (Ok c) ->
  nth_error (eval_dag H i cells) k = Some (imm_of H c).
Proof.
  induction cells as [|nd rest IH]; intros i k c Hk; [destruct k; discriminate|].
  cbn [trees_of eval_dag] in *.
  assert (Hmap : eval_dag H (S i) rest = map imm_of_res (trees_of (S i) rest) \/ True) by (right; exact I).
  destruct k as [|k].
  - cbn [nth_error] in *. injection Hk as Hk.
    destruct (lookup_trees (trees_of (S i) rest) (S i) (n_refs nd)) as [cs|e|p] eqn:El;
      cbn [bind] in Hk; try discriminate.
    injection Hk as <-. f_equal. rewrite imm_of_cell.
    (* the evaluated suffix is the map of the trees on all indices the lookup uses *)
    assert (Hl : lookup_refs (eval_dag H (S i) rest) (S i) (n_refs nd) = mapM (imm_of H) cs).
    { clear - El IH. revert cs El.
      induction (n_refs nd) as [|r t IHt]; intros cs El.
      - injection El as <-. reflexivity.
      - cbn [lookup_refs lookup_trees] in *.
        destruct (nth_error (trees_of (S i) rest) (r - S i)) as [rc|] eqn:En; [|discriminate].
        destruct rc as [c|e|p]; cbn [bind] in El; try discriminate.
        rewrite (IH (S i) (r - S i) c En).
        destruct (lookup_trees (trees_of (S i) rest) (S i) t) as [cs'|e|p]; cbn [bind] in El; try discriminate.
        injection El as <-. cbn [bind mapM]. rewrite (IHt cs' eq_refl). reflexivity. }
    rewrite Hl. reflexivity.
  - cbn [nth_error] in *. apply IH. exact Hk.
Qed.

(** corollary: two arrays (any sharing, any order) whose roots unfold to the
    same tree have the same hash at every level *)
Corollary same_tree_same_hash cells1 cells2 k1 k2 c :
  nth_error (trees_of 0 cells1) k1 = Some (Ok c) ->
  nth_error (trees_of 0 cells2) k2 = Some (Ok c) ->
  nth_error (eval_dag H 0 cells1) k1 = nth_error (eval_dag H 0 cells2) k2.
Proof.
  intros H1 H2. rewrite (eval_dag_is_tree _ _ _ _ H1), (eval_dag_is_tree _ _ _ _ H2). reflexivity.
Qed.

End D.
