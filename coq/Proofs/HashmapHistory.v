(** History of C05: the model of the code BEFORE the two repairs, with the
    witnesses that refuted the property then, and the same inputs on the model
    of the repaired code.  The witnesses are also regression cases in
    corpus/C05/*.txt (bin/check runs them first, implementation against the
    repaired model), so a defect that re-appears is caught there.

    1. fix: tlb.AddressWithWorkchain had FixedSize() = 288 and an UnmarshalTLB
       reading int32 + 32 bytes, but no MarshalTLB: the reflection encoder wrote
       int8 + 32 bytes = 264 bits, and a dictionary keyed by it did not decode.
    2. fix: Hashmap.MarshalTLB handed the key slice to encodeMap as it was.
       encodeMap takes the common prefix of the FIRST and the LAST key as the
       edge label, which is only right when the slice is in ascending bit
       order.  Put orders by Compare (numeric for IntN), decoding lists keys in
       bit order; Put of a negative key into a decoded IntN dictionary holding
       both signs, or NewHashmap with unsorted keys, silently produced a
       dictionary with different keys. *)
From Coq Require Import List NArith ZArith Arith Lia Bool Sorted.
From Tongo Require Import Lib.Bits Lib.Res Spec.Dict Model.Hashmap Model.HashmapHist Model.HashmapAug.
Import ListNotations.

(** Hashmap.MarshalTLB / HashmapE.MarshalTLB before the repair: no sort *)
Definition encode_before_fix {V} (venc : V -> bits * list cell) (n : nat) (kvs : list (bits * V)) : res cell :=
  match kvs with
  | [] => Ok (Cell [] [])
  | _ => encode_map venc (S (length kvs)) n kvs
  end.

Definition encode_e_before_fix {V} (venc : V -> bits * list cell) (n : nat) (kvs : list (bits * V)) : res cell :=
  match kvs with
  | [] => mk_cell [false] []
  | _ => do c <- encode_before_fix venc n kvs; mk_cell [true] [c]
  end.

(** the reflection encoding of AddressWithWorkchain{int8; [32]byte} *)
Definition addr_key_before_fix (k : Z * list N) : bits := int_key 8 (fst k) ++ bytes_key (snd k).

(** ** 1. the address key (workchain -1, address 0, one entry) *)
Lemma address_key_before_fix :
  let k := addr_key_before_fix (-1, repeat 0%N 32)%Z in
  length k = 264%nat /\
  exists c, encode_e_before_fix venc_bit 288 [(k, true)] = Ok c /\
            decode_e vdec_bit 288 c = Err ENotEnoughRefs.
Proof. cbn zeta. split; [reflexivity|]. vm_compute. eexists. split; reflexivity. Qed.

Lemma address_key_fixed :
  let k := addr_key (-1, repeat 0%N 32)%Z in
  length k = 288%nat /\
  exists c, encode_e venc_bit 288 [(k, true)] = Ok c /\
            decode_e vdec_bit 288 c = Ok [(k, true)].
Proof. cbn zeta. split; [reflexivity|]. vm_compute. eexists. split; reflexivity. Qed.

(** ** 2a. Int8 keys {1, -3} decoded (bit order: 1, -3), Put(-64) by numeric
    Compare lands in front; the old encoder then takes the common prefix of -64
    and -3 as the root label and key 1 comes back as -63 *)
Definition w_k1 := bits_of 8 1.      (*   1 *)
Definition w_k3 := bits_of 8 253.    (*  -3 *)
Definition w_k64 := bits_of 8 192.   (* -64 *)
Definition w_m : list (bits * bool) := [(w_k1, false); (w_k3, true)].

Lemma signed_put_after_decode_before_fix :
  sorted w_m /\ keys_len 8 w_m /\
  put bits_eqb signed_ltb w_k64 true w_m = [(w_k64, true); (w_k1, false); (w_k3, true)] /\
  exists c c', encode_e_before_fix venc_bit 8 w_m = Ok c /\ decode_e vdec_bit 8 c = Ok w_m /\
    encode_e_before_fix venc_bit 8 (put bits_eqb signed_ltb w_k64 true w_m) = Ok c' /\
    decode_e vdec_bit 8 c' = Ok [(w_k64, true); (bits_of 8 193, false); (w_k3, true)].
Proof.
  split; [repeat constructor|]. split; [repeat constructor|]. split; [reflexivity|].
  vm_compute. eexists. eexists. repeat split; reflexivity.
Qed.

Lemma signed_put_after_decode_fixed :
  exists c', encode_e venc_bit 8 (put bits_eqb signed_ltb w_k64 true w_m) = Ok c' /\
    decode_e vdec_bit 8 c' = Ok [(w_k1, false); (w_k64, true); (w_k3, true)] /\
    update w_k64 true w_m = [(w_k1, false); (w_k64, true); (w_k3, true)].
Proof. vm_compute. eexists. repeat split; reflexivity. Qed.

(** ** 2b. NewHashmap with the Uint8 keys 1, 200, 2 in that order: the old encoder
    labels the root with the common prefix of 1 and 2 and key 200 becomes 0 *)
Definition w_u : list (bits * bool) := [(bits_of 8 1, true); (bits_of 8 200, false); (bits_of 8 2, true)].

Lemma unsorted_slice_before_fix :
  NoDup (map fst w_u) /\ keys_len 8 w_u /\
  exists c, encode_e_before_fix venc_bit 8 w_u = Ok c /\
    decode_e vdec_bit 8 c = Ok [(bits_of 8 0, false); (bits_of 8 1, true); (bits_of 8 2, true)].
Proof.
  split; [repeat constructor; cbn; intuition discriminate|]. split; [repeat constructor|].
  vm_compute. eexists. split; reflexivity.
Qed.

Lemma unsorted_slice_fixed :
  exists c, encode_e venc_bit 8 w_u = Ok c /\
    decode_e vdec_bit 8 c = Ok [(bits_of 8 1, true); (bits_of 8 2, true); (bits_of 8 200, false)].
Proof. vm_compute. eexists. split; reflexivity. Qed.

(** ** 3. a design that was never shipped but is a natural refactoring of repair 2
    (seeded change C05-r2m2): sort.Stable over (fresh key slice, the receiver's
    value slice).  MarshalTLB has a value receiver, but the slice header still
    points at the caller's array: the caller's values end up in bit order under
    keys that kept their order ([marshal_in_place_state]).  NewHashmapE with
    the Uint8 keys 200, 1: the FIRST encoding is right; the object then maps
    200 and 1 to each other's values and the SECOND encoding differs. *)
Definition w_p : list (bits * bool) := [(bits_of 8 200, false); (bits_of 8 1, true)].

Lemma marshal_in_place_design_refuted :
  let st2 := marshal_in_place_state w_p in
  st2 = [(bits_of 8 200, true); (bits_of 8 1, false)] /\
  get bits_eqb (bits_of 8 200) st2 <> get bits_eqb (bits_of 8 200) w_p /\
  exists c1 c2, encode_e venc_bit 8 w_p = Ok c1 /\ encode_e venc_bit 8 st2 = Ok c2 /\ c1 <> c2 /\
    decode_e vdec_bit 8 c1 = Ok [(bits_of 8 1, true); (bits_of 8 200, false)] /\
    decode_e vdec_bit 8 c2 = Ok [(bits_of 8 1, false); (bits_of 8 200, true)].
Proof.
  cbn zeta. split; [reflexivity|]. split; [vm_compute; discriminate|].
  vm_compute. eexists. eexists. repeat split; try reflexivity. discriminate.
Qed.

(** the shipped code (the model): Marshal is a function of the pair list, the
    object is not part of its result, so the same object encodes the same twice *)
Lemma marshal_twice_same_fixed :
  forall r1 r2, r1 = encode_e venc_bit 8 w_p -> r2 = encode_e venc_bit 8 w_p -> r1 = r2.
Proof. intros r1 r2 -> ->. reflexivity. Qed.

(** ** 4. decoding into a variable that already holds a dictionary.
    (a) before "fix: reset a Hashmap before decoding into it": Hashmap.mapInner
    appends to the receiver's slices and Hashmap.UnmarshalTLB did not empty them,
    so a plain Hashmap variable / a Ref[Hashmap] struct field decoded twice
    held the entries of both dictionaries (Uint8 {1, 2} then {7}: 1, 2, 7). *)
Definition w_d1 : list (bits * bool) := [(bits_of 8 1, true); (bits_of 8 2, false)].
Definition w_d2 : list (bits * bool) := [(bits_of 8 7, true)].

Lemma decode_accumulates_before_fix :
  exists c1 c2, encode venc_bit 8 w_d1 = Ok c1 /\ encode venc_bit 8 w_d2 = Ok c2 /\
    hdecode_appending vdec_bit 8 (fst (hdecode_appending vdec_bit 8 [] c1)) c2 = (w_d1 ++ w_d2, true) /\
    hdecode vdec_bit false 8 (fst (hdecode vdec_bit false 8 [] c1)) c2 = (w_d2, true).
Proof. vm_compute. eexists. eexists. repeat split; reflexivity. Qed.

(** (b) seeded change C05-r3m2 (never shipped): HashmapE.UnmarshalTLB assigning the
    decoded map only when the Maybe bit is set.  Decoding the EMPTY dictionary
    (the single bit 0) into a variable holding {1, 2} keeps {1, 2}; re-encoding
    gives 1 + a reference instead of the single bit 0. *)
Lemma decode_conditional_design_refuted :
  let empty := Cell [false] [] in
  hdecode_conditional vdec_bit 8 w_d1 empty = (w_d1, true) /\
  hdecode vdec_bit true 8 w_d1 empty = ([], true) /\
  encode_e venc_bit 8 (fst (hdecode vdec_bit true 8 w_d1 empty)) = Ok empty /\
  exists c, encode_e venc_bit 8 (fst (hdecode_conditional vdec_bit 8 w_d1 empty)) = Ok c /\ c <> empty.
Proof. cbn zeta. repeat split; try reflexivity. vm_compute. eexists. split; [reflexivity|discriminate]. Qed.

(** ** 5. seeded change C05-r4m2 (never shipped): ConfigParams.CloneKeepingSubsetOfKeys
    filtering "without allocating" into params.Config.keys[:0] / values[:0].  The
    clone is right, but the kept pairs are written over the front of the SOURCE's
    slices: Uint8 keys 0,1,2,4,5 and a clone keeping {4,5}: the source then lists
    4,5,2,4,5 — keys 0 and 1 are gone, 4 and 5 are there twice. *)
Definition w_c : list (bits * bool) :=
  [(bits_of 8 0, true); (bits_of 8 1, false); (bits_of 8 2, true); (bits_of 8 4, false); (bits_of 8 5, true)].

Lemma clone_in_place_design_refuted :
  let keys := [bits_of 8 4; bits_of 8 5] in
  clone_subset keys w_c = [(bits_of 8 4, false); (bits_of 8 5, true)] /\
  clone_in_place_source keys w_c =
    [(bits_of 8 4, false); (bits_of 8 5, true); (bits_of 8 2, true); (bits_of 8 4, false); (bits_of 8 5, true)] /\
  get bits_eqb (bits_of 8 0) (clone_in_place_source keys w_c) = None /\
  get bits_eqb (bits_of 8 0) w_c = Some true /\
  ~ NoDup (map fst (clone_in_place_source keys w_c)).
Proof.
  cbn zeta. repeat split; try reflexivity.
  intros H. vm_compute in H. inversion H as [|? ? Hn _]. apply Hn. right; right; left. reflexivity.
Qed.
