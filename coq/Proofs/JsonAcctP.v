(** C20 proofs, part 5: ton.AccountID.  The text forms themselves (raw and
    user-friendly) are the C17 model Model/Address.v; this file only adds the
    JSON string layer around them. *)
From Coq Require Import List NArith ZArith Bool Lia Arith.
From Tongo Require Import Lib.Bits Lib.Res Model.JsonText Model.Json
  Proofs.JsonTextP Proofs.JsonValidP Proofs.JsonP.
From Tongo Require Model.Address Proofs.AddressRawP.
Import ListNotations.
Local Open Scope N_scope.

Lemma range_digit_plain c : 48 <= c <= 57 -> json_plain c = true.
Proof.
  intros H. apply digit_plain. unfold is_digit. apply andb_true_intro. split; apply N.leb_le; lia.
Qed.

Lemma dec_N_plain n : all_b json_plain (Address.dec_N n).
Proof.
  eapply Forall_impl; [|apply AddressRawP.dec_N_digits]. intros c H. apply range_digit_plain. exact H.
Qed.

Lemma print_raw_plain wc addr : bytes_ok addr -> all_b json_plain (Address.print_raw wc addr).
Proof.
  intros Hb. unfold Address.print_raw. apply Forall_app. split.
  - unfold Address.dec_Z. destruct wc; try apply dec_N_plain. constructor; [reflexivity|apply dec_N_plain].
  - constructor; [reflexivity|].
    change (flat_map Address.hex_byte addr) with (print_hex addr). apply print_hex_plain. exact Hb.
Qed.

Theorem account_roundtrip wc addr :
  (- 2 ^ 31 <= wc < 2 ^ 31)%Z -> length addr = 32%nat -> bytes_ok addr ->
  exists doc, print_account wc addr = Ok doc /\ parse_account_json doc = Ok (wc, addr)
              /\ json_number_or_plain_string doc.
Proof.
  intros Hwc Hl Hb. pose proof (print_raw_plain wc addr Hb) as Hp.
  exists (quote (Address.print_raw wc addr)). unfold print_account, parse_account_json.
  rewrite (json_marshal_string_plain _ Hp). split; [reflexivity|]. split.
  - rewrite (json_unmarshal_string_quote _ Hp). cbn [bind].
    apply AddressRawP.parse_account_raw; assumption.
  - right. eexists. split; [exact Hp|reflexivity].
Qed.

Lemma parse_human_bytes_total bs : no_panic (Address.parse_human_bytes bs).
Proof. intros p. unfold Address.parse_human_bytes. np_cases. Qed.

Lemma parse_human_total s : no_panic (Address.parse_human s).
Proof.
  unfold Address.parse_human. destruct (Address.b64url_decode_string _); [|intros p; discriminate].
  apply parse_human_bytes_total.
Qed.

Lemma parse_raw_total s : no_panic (Address.parse_raw s).
Proof. intros p. unfold Address.parse_raw. np_cases. Qed.

Lemma parse_account_total s : no_panic (Address.parse_account s).
Proof.
  unfold Address.parse_account.
  destruct (Address.parse_raw s) as [r|e|q]; [intros p; discriminate| |];
    (pose proof (parse_human_total s) as H;
     destruct (Address.parse_human s) as [[[f w] a]|e'|q']; intros p; try discriminate;
     exfalso; exact (H q' eq_refl)).
Qed.

Theorem parse_account_json_total s : no_panic (parse_account_json s).
Proof.
  unfold parse_account_json. apply no_panic_bind; [apply json_unmarshal_string_total|].
  intros a. apply parse_account_total.
Qed.

(** * a text without a colon whose base64 content is not exactly 36 bytes --
      a user-friendly address with bytes appended, or a shortened one -- is an
      error for ParseAccountID, hence for AccountID.UnmarshalJSON *)
Lemma addr_len_is_length {A} n : forall l : list A, Address.len_is n l = true -> length l = n.
Proof.
  induction n as [|n IH]; intros [|a l] H; cbn [Address.len_is] in H; try discriminate; [reflexivity|].
  cbn [length]. f_equal. apply IH. exact H.
Qed.

Theorem parse_account_wrong_length s bs :
  Address.split_colon s = None ->
  Address.b64url_decode_string (map Address.plus_slash s) = Some bs -> length bs <> 36%nat ->
  Address.parse_account s = Err EOther.
Proof.
  intros Hc Hb Hl. unfold Address.parse_account, Address.parse_raw. rewrite Hc.
  unfold Address.parse_human. rewrite Hb. unfold Address.parse_human_bytes.
  destruct (Address.len_is 36 bs) eqn:E; [apply addr_len_is_length in E; contradiction|reflexivity].
Qed.
