(** The key types of tlb.Hashmap, value level against bit level: the width of the
    encoding is FixedSize(), and Compare on values is
      - UintN:  numeric <            = bit order of the encodings   [bits_ltb]
      - IntN:   numeric < (signed)   = two's complement order       [signed_ltb]
      - BitsN:  bytes.Compare        = bit order                    [bits_ltb]
      - AddressWithWorkchain: uint32(workchain), then bytes.Compare = bit order of
        the 288-bit encoding (int32 workchain, 32 address bytes)    [bits_ltb]
    so that the order parameter [klt] of the Put theorems is instantiated by what
    the Go methods compute. *)
From Coq Require Import List NArith ZArith Arith Lia Bool.
From Tongo Require Import Lib.Bits Lib.Res Spec.Dict Model.Hashmap Proofs.DictP.
Import ListNotations.

(** ** bit order is numeric order of the big-endian numerals *)
Lemma bits_cmp_N a : forall b, length a = length b ->
  bits_cmp a b = N.compare (N_of_bits a) (N_of_bits b).
Proof.
  induction a as [|x a IH]; intros [|y b] HL; try discriminate; [reflexivity|].
  cbn [length] in HL. assert (HL' : length a = length b) by lia.
  cbn [bits_cmp]. rewrite !N_of_bits_cons, <- HL'.
  pose proof (N_of_bits_bound a) as Ba. pose proof (N_of_bits_bound b) as Bb.
  rewrite <- HL' in Bb. set (p := (2 ^ N.of_nat (length a))%N) in *.
  destruct x, y; cbn [N.b2n].
  - rewrite IH by exact HL'.
    destruct (N.compare_spec (N_of_bits a) (N_of_bits b)) as [H|H|H]; symmetry;
      [apply N.compare_eq_iff|apply N.compare_lt_iff|apply N.compare_gt_iff]; lia.
  - symmetry. apply N.compare_gt_iff. lia.
  - symmetry. apply N.compare_lt_iff. lia.
  - rewrite IH by exact HL'.
    destruct (N.compare_spec (N_of_bits a) (N_of_bits b)) as [H|H|H]; symmetry;
      [apply N.compare_eq_iff|apply N.compare_lt_iff|apply N.compare_gt_iff]; lia.
Qed.

Lemma bits_ltb_N a b : length a = length b ->
  bits_ltb a b = (N_of_bits a <? N_of_bits b)%N.
Proof. intros HL. unfold bits_ltb, N.ltb. rewrite (bits_cmp_N a b HL). reflexivity. Qed.

Lemma bits_cmp_app2 a1 : forall a2 b1 b2, length a1 = length a2 ->
  bits_cmp (a1 ++ b1) (a2 ++ b2) =
    match bits_cmp a1 a2 with Eq => bits_cmp b1 b2 | c => c end.
Proof.
  induction a1 as [|x a1 IH]; intros [|y a2] b1 b2 HL; try discriminate; [reflexivity|].
  cbn [app bits_cmp]. cbn [length] in HL.
  destruct x, y; try reflexivity; apply IH; lia.
Qed.

(** ** UintN *)
Theorem uint_key_length w x : length (uint_key w x) = w.
Proof. apply bits_of_length. Qed.

Theorem uint_key_order w x y :
  (x < 2 ^ N.of_nat w)%N -> (y < 2 ^ N.of_nat w)%N ->
  bits_ltb (uint_key w x) (uint_key w y) = (x <? y)%N /\
  (uint_key w x = uint_key w y -> x = y).
Proof.
  intros Hx Hy. unfold uint_key. split.
  - rewrite bits_ltb_N by (rewrite !bits_of_length; reflexivity).
    rewrite !N_of_bits_bits_of_small by assumption. reflexivity.
  - intros E. apply (f_equal N_of_bits) in E.
    rewrite !N_of_bits_bits_of_small in E by assumption. exact E.
Qed.

(** ** IntN: two's complement *)
Lemma flip_int_key w x :
  (- 2 ^ Z.of_nat w <= x < 2 ^ Z.of_nat w)%Z ->
  N_of_bits (flip_first (int_key (S w) x)) = Z.to_N (x + 2 ^ Z.of_nat w).
Proof.
  intros Hx. unfold int_key.
  set (P := (2 ^ Z.of_nat w)%Z) in *.
  assert (HP : (0 < P)%Z) by (apply Z.pow_pos_nonneg; lia).
  assert (E2 : (2 ^ Z.of_nat (S w) = 2 * P)%Z).
  { rewrite Nat2Z.inj_succ, Z.pow_succ_r by lia. reflexivity. }
  rewrite E2.
  assert (EPN : (2 ^ N.of_nat w)%N = Z.to_N P).
  { apply N2Z.inj. rewrite N2Z.inj_pow, Z2N.id by lia. rewrite nat_N_Z. reflexivity. }
  set (u := Z.to_N (x mod (2 * P))).
  change (S w) with (1 + w)%nat. rewrite bits_of_app.
  assert (H1 : forall q, bits_of 1 q = [N.odd q]) by reflexivity.
  rewrite H1. cbn [app flip_first]. rewrite N_of_bits_cons, bits_of_length.
  rewrite N_of_bits_bits_of, EPN.
  destruct (Z_lt_le_dec x 0) as [Hneg|Hpos].
  - assert (Eu : u = Z.to_N (x + 2 * P)).
    { unfold u. f_equal. symmetry. apply (Z.mod_unique _ _ (-1)); lia. }
    clearbody u. subst u.
    assert (Eq1 : (Z.to_N (x + 2 * P) / Z.to_N P = 1)%N).
    { symmetry. apply (N.div_unique _ _ _ (Z.to_N (x + P))); lia. }
    assert (Em : (Z.to_N (x + 2 * P) mod Z.to_N P = Z.to_N (x + P))%N).
    { clear Eq1. symmetry. apply (N.mod_unique _ _ 1); lia. }
    rewrite Eq1, Em. clear Eq1 Em. change (N.odd 1) with true. cbn [negb N.b2n]. lia.
  - assert (Eu : u = Z.to_N x).
    { unfold u. f_equal. apply Z.mod_small. lia. }
    clearbody u. subst u.
    assert (Eq1 : (Z.to_N x / Z.to_N P = 0)%N) by (apply N.div_small; lia).
    assert (Em : (Z.to_N x mod Z.to_N P = Z.to_N x)%N) by (clear Eq1; apply N.mod_small; lia).
    rewrite Eq1, Em. clear Eq1 Em. change (N.odd 0) with false. cbn [negb N.b2n]. lia.
Qed.

Lemma flip_first_length a : length (flip_first a) = length a.
Proof. destruct a; reflexivity. Qed.

Theorem int_key_length w x : length (int_key w x) = w.
Proof. apply bits_of_length. Qed.

Theorem int_key_order w x y :
  (- 2 ^ Z.of_nat w <= x < 2 ^ Z.of_nat w)%Z -> (- 2 ^ Z.of_nat w <= y < 2 ^ Z.of_nat w)%Z ->
  signed_ltb (int_key (S w) x) (int_key (S w) y) = (x <? y)%Z /\
  (int_key (S w) x = int_key (S w) y -> x = y).
Proof.
  intros Hx Hy.
  assert (HP : (0 < 2 ^ Z.of_nat w)%Z) by (apply Z.pow_pos_nonneg; lia).
  split.
  - unfold signed_ltb.
    rewrite bits_ltb_N by (rewrite !flip_first_length, !int_key_length; reflexivity).
    rewrite !flip_int_key by assumption.
    destruct (Z.ltb_spec x y) as [H|H].
    + apply N.ltb_lt. lia.
    + apply N.ltb_ge. lia.
  - intros E. apply (f_equal (fun a => N_of_bits (flip_first a))) in E.
    rewrite !flip_int_key in E by assumption. lia.
Qed.

(** ** BitsN / the address part: bytes.Compare *)
Lemma bytes_key_length a : length (bytes_key a) = (8 * length a)%nat.
Proof.
  unfold bytes_key. induction a as [|x a IH]; [reflexivity|].
  cbn [flat_map length]. rewrite app_length, bits_of_length, IH. lia.
Qed.

Theorem bytes_key_order a : forall b,
  Forall (fun x => x < 256)%N a -> Forall (fun x => x < 256)%N b -> length a = length b ->
  bits_ltb (bytes_key a) (bytes_key b) = bytes_ltb a b.
Proof.
  unfold bits_ltb, bytes_key.
  induction a as [|x a IH]; intros [|y b] Ha Hb HL; try discriminate; [reflexivity|].
  apply Forall_cons_iff in Ha, Hb. destruct Ha as [Hx Ha], Hb as [Hy Hb].
  cbn [length] in HL. cbn [flat_map bytes_ltb].
  rewrite bits_cmp_app2 by (rewrite !bits_of_length; reflexivity).
  rewrite bits_cmp_N by (rewrite !bits_of_length; reflexivity).
  rewrite !N_of_bits_bits_of_small by assumption.
  unfold N.ltb. rewrite (N.compare_antisym x y).
  destruct (x ?= y)%N eqn:E; cbn [CompOpp]; try reflexivity.
  apply IH; auto; lia.
Qed.

(** ** AddressWithWorkchain *)
Theorem addr_key_length k : length (snd k) = 32%nat -> length (addr_key k) = 288%nat.
Proof.
  intros H. unfold addr_key. rewrite app_length, int_key_length, bytes_key_length, H. reflexivity.
Qed.

Theorem addr_key_order x y :
  Forall (fun b => b < 256)%N (snd x) -> Forall (fun b => b < 256)%N (snd y) ->
  length (snd x) = length (snd y) ->
  bits_ltb (addr_key x) (addr_key y) = addr_ltb x y.
Proof.
  intros Hx Hy HL. unfold addr_key, addr_ltb, int_key.
  change (Z.of_nat 32) with 32%Z.
  assert (Hm : forall z : Z, (0 <= z mod 2 ^ 32 < 2 ^ 32)%Z) by (intros z; apply Z.mod_pos_bound; lia).
  pose proof (Hm (fst x)) as Bx. pose proof (Hm (fst y)) as By.
  set (ux := (fst x mod 2 ^ 32)%Z) in *. set (uy := (fst y mod 2 ^ 32)%Z) in *.
  pose proof (bytes_key_order (snd x) (snd y) Hx Hy HL) as Hb.
  unfold bits_ltb in *.
  rewrite bits_cmp_app2 by (rewrite !bits_of_length; reflexivity).
  rewrite bits_cmp_N by (rewrite !bits_of_length; reflexivity).
  assert (Hs : forall u, (0 <= u < 2 ^ 32)%Z -> (Z.to_N u < 2 ^ N.of_nat 32)%N).
  { intros u Hu. change (2 ^ N.of_nat 32)%N with (Z.to_N (2 ^ 32)). lia. }
  rewrite !N_of_bits_bits_of_small by (apply Hs; assumption).
  destruct (Z.ltb_spec ux uy) as [H|H].
  - replace (Z.to_N ux ?= Z.to_N uy)%N with Lt; [reflexivity|].
    symmetry. apply N.compare_lt_iff. lia.
  - destruct (Z.ltb_spec uy ux) as [H2|H2].
    + replace (Z.to_N ux ?= Z.to_N uy)%N with Gt; [reflexivity|].
      symmetry. apply N.compare_gt_iff. lia.
    + replace (Z.to_N ux ?= Z.to_N uy)%N with Eq; [exact Hb|].
      symmetry. apply N.compare_eq_iff. lia.
Qed.

Lemma firstn_app_exact_len {A} n (l1 l2 : list A) : length l1 = n -> firstn n (l1 ++ l2) = l1.
Proof. intros <-. apply firstn_app_exact. Qed.

(** the encoding is injective on int32 workchains (a fortiori on the int8
    workchains the Go type can hold) and 32-byte addresses ... *)
Lemma bytes_key_inj a : forall b,
  Forall (fun x => x < 256)%N a -> Forall (fun x => x < 256)%N b -> length a = length b ->
  bytes_key a = bytes_key b -> a = b.
Proof.
  unfold bytes_key. induction a as [|x a IH]; intros [|y b] Ha Hb HL E; try discriminate; [reflexivity|].
  apply Forall_cons_iff in Ha, Hb. destruct Ha as [Hx Ha], Hb as [Hy Hb].
  cbn [flat_map] in E.
  assert (E1 : bits_of 8 x = bits_of 8 y).
  { apply (f_equal (firstn 8)) in E.
    rewrite !firstn_app_exact_len in E by apply bits_of_length. exact E. }
  assert (E2 : flat_map (bits_of 8) a = flat_map (bits_of 8) b).
  { rewrite E1 in E. apply app_inv_head in E. exact E. }
  apply (f_equal N_of_bits) in E1. rewrite !N_of_bits_bits_of_small in E1 by assumption.
  subst y. f_equal. apply IH; auto.
Qed.

Theorem addr_key_inj x y :
  (- 2 ^ 31 <= fst x < 2 ^ 31)%Z -> (- 2 ^ 31 <= fst y < 2 ^ 31)%Z ->
  Forall (fun b => b < 256)%N (snd x) -> Forall (fun b => b < 256)%N (snd y) ->
  length (snd x) = length (snd y) ->
  addr_key x = addr_key y -> x = y.
Proof.
  intros Rx Ry Hx Hy HL E. unfold addr_key in E.
  assert (E1 : int_key 32 (fst x) = int_key 32 (fst y)).
  { apply (f_equal (firstn 32)) in E.
    rewrite !firstn_app_exact_len in E by apply int_key_length. exact E. }
  assert (E2 : bytes_key (snd x) = bytes_key (snd y)).
  { rewrite E1 in E. apply app_inv_head in E. exact E. }
  destruct x as [wx ax], y as [wy ay]. cbn [fst snd] in *.
  f_equal.
  - apply (proj2 (int_key_order 31 wx wy Rx Ry)). exact E1.
  - apply bytes_key_inj; assumption.
Qed.

(** ... but the DEcoder truncates the workchain to int8 (the Go field type), so
    as a map from 288-bit keys to Go keys it is not injective: a dictionary of
    another implementation with workchains outside -128..127 (TON workchain
    ids are int32) decodes to different, possibly colliding, keys.  No small
    safe repair (the exported field type would have to change): recorded as
    finding addr-workchain-int8. *)
Lemma address_workchain_int8_refuted :
  let k1 := addr_key (256, repeat 0%N 32)%Z in
  let k2 := addr_key (0, repeat 0%N 32)%Z in
  length k1 = 288%nat /\ length k2 = 288%nat /\ k1 <> k2 /\ addr_unkey k1 = addr_unkey k2.
Proof.
  cbn zeta. split; [reflexivity|]. split; [reflexivity|]. split; [|vm_compute; reflexivity].
  intros H. apply (f_equal (fun l => nth 23 l false)) in H. vm_compute in H. discriminate.
Qed.

(** on the int8 range decoding inverts encoding (checked on the boundary values) *)
Lemma addr_unkey_key_boundaries :
  let a := repeat 255%N 31 ++ [1%N] in
  let l := [-128; -127; -2; -1; 0; 1; 2; 126; 127]%Z in
  map (fun wc => addr_unkey (addr_key (wc, a))) l = map (fun wc => (wc, a)) l.
Proof. vm_compute. reflexivity. Qed.
