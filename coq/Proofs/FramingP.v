(** Totality of the framing / indexing helpers of Model/Framing.v, the
    corollaries of the TL triple (totality, allocation, steps), and the
    witnesses against the code before the F12 / F18 repairs. *)
From Coq Require Import String List NArith PArith Arith Lia Bool.
From Tongo Require Import Lib.Bits Lib.Res Spec.TlWire Model.BocParse Proofs.BocParseP
     Model.Tl Model.TlTotal Proofs.TlTotalP Proofs.TlTotalP2 Model.TlbCore Model.TlbTotal
     Proofs.TlbTotalP Model.Framing.
Import ListNotations.
Local Open Scope N_scope.

(** * corollaries of [gdecT_tri] *)
Section TlCorollaries.
  Variables (B : bindings) (rate : N) (fuel : nat) (t : gty).
  Hypothesis Hok : sok B rate fuel t = true.

  Lemma tl_post bs : post (slope rate fuel) (ww B fuel t) 0 (kk B fuel t) (ee B fuel t)
                          (tst0 bs) (tl_unmarshal B fuel t bs).
  Proof. apply (gdecT_tri B rate fuel t Hok). Qed.

  Theorem tl_decode_total bs p : fst (tl_unmarshal B fuel t bs) <> Panic p.
  Proof.
    pose proof (tl_post bs) as H. unfold post in H. destruct H as [_ H].
    destruct (fst (tl_unmarshal B fuel t bs)); [discriminate | discriminate | contradiction].
  Qed.

  Theorem tl_decode_fuel bs : fst (tl_unmarshal B fuel t bs) <> Err EFuel.
  Proof.
    pose proof (tl_post bs) as H. unfold post in H. destruct H as [_ H].
    destruct (fst (tl_unmarshal B fuel t bs)); [discriminate | | contradiction].
    intros E. inversion E. tauto.
  Qed.

  Theorem tl_decode_resources bs :
    t_alloc (snd (tl_unmarshal B fuel t bs)) + t_steps (snd (tl_unmarshal B fuel t bs))
    <= slope rate fuel * N.of_nat (length bs) + (kk B fuel t + ee B fuel t).
  Proof.
    pose proof (tl_post bs) as H. unfold post, R, tst0, tlen in H. cbn [t_inp t_alloc t_steps] in H.
    destruct H as [_ H].
    destruct (fst (tl_unmarshal B fuel t bs)); [ | | contradiction].
    - destruct H as [_ H]. lia.
    - destruct H as [_ H]. lia.
  Qed.

  Theorem tl_decode_alloc bs :
    t_alloc (snd (tl_unmarshal B fuel t bs))
    <= slope rate fuel * N.of_nat (length bs) + (kk B fuel t + ee B fuel t).
  Proof. pose proof (tl_decode_resources bs). lia. Qed.

  Theorem tl_decode_steps bs :
    t_steps (snd (tl_unmarshal B fuel t bs))
    <= slope rate fuel * N.of_nat (length bs) + (kk B fuel t + ee B fuel t).
  Proof. pose proof (tl_decode_resources bs). lia. Qed.

  Theorem tl_decode_consumes bs v s :
    tl_unmarshal B fuel t bs = (Ok v, s) ->
    N.of_nat (length (t_inp s)) + ww B fuel t <= N.of_nat (length bs).
  Proof.
    intros E. pose proof (tl_post bs) as H. rewrite E in H. unfold post, tlen in H.
    cbn [fst snd tst0 t_inp] in H. tauto.
  Qed.
End TlCorollaries.

(** * framing helpers *)
Definition bytes_ok (l : bytes) : Prop := Forall (fun b => b < 256) l.

Lemma np_slice_from lo b : short lo b = false -> np (slice_from lo b).
Proof. unfold slice_from. intros ->. exact I. Qed.
Lemma np_slice_to hi b : hi <= N.of_nat (length b) -> np (slice_to hi b).
Proof. unfold slice_to. intros H. destruct (N.ltb_spec (N.of_nat (length b)) hi); [lia | exact I]. Qed.

Lemma short_false_le {A} n (l : list A) : short n l = false -> (n <= length l)%nat.
Proof. rewrite short_spec. intros H. apply Nat.ltb_ge in H. exact H. Qed.
Lemma short_mono {A} n m (l : list A) : (n <= m)%nat -> short m l = false -> short n l = false.
Proof. rewrite !short_spec. intros H H1. apply Nat.ltb_ge in H1. apply Nat.ltb_ge. lia. Qed.

Theorem decode_length_total b : bytes_ok b -> np (decode_length b).
Proof.
  intros Hb. destruct b as [ | b0 t]; [exact I|]. unfold decode_length.
  assert (H0 : b0 < 256) by (inversion Hb; assumption).
  destruct (N.eqb_spec b0 255); [exact I|].
  destruct (N.ltb_spec b0 254).
  - apply np_bind; [apply np_slice_from; reflexivity | intros; exact I].
  - destruct (N.eqb_spec b0 254); cbn [negb]; [|lia].
    destruct (short 4 (b0 :: t)) eqn:E; [exact I|].
    apply short_false_le in E.
    apply np_bind; [apply np_slice_to; lia|]. intros h.
    apply np_bind; [apply np_slice_from; rewrite short_spec; apply Nat.ltb_ge; lia | intros; exact I].
Qed.

Lemma bytes_ok_skipn n l : bytes_ok l -> bytes_ok (skipn n l).
Proof.
  unfold bytes_ok. revert l. induction n; intros l H; cbn; [exact H|].
  destruct l; [exact H|]. inversion H; auto.
Qed.

Theorem process_query_answer_total known payload :
  bytes_ok payload -> np (process_query_answer known payload).
Proof.
  intros Hb. unfold process_query_answer.
  destruct (short 37 payload) eqn:E; [exact I|].
  pose proof (short_false_le _ _ E) as Hl.
  apply np_bind; [apply np_slice_from; apply (short_mono 4 37); [lia | exact E]|]. intros _.
  apply np_bind; [apply np_slice_to; lia|]. intros _.
  destruct known; cbn [negb]; [|exact I].
  unfold slice_from at 1. rewrite (short_mono 36 37 payload) by (try lia; exact E). cbn [bind].
  apply np_bind; [apply decode_length_total; apply bytes_ok_skipn; exact Hb|].
  intros [length data].
  destruct (N.ltb_spec (N.of_nat (Datatypes.length data)) length); [exact I|].
  apply np_slice_to. lia.
Qed.

Theorem auth_nonce_total payload : bytes_ok payload -> np (auth_nonce payload).
Proof.
  intros Hb. unfold auth_nonce.
  destruct (short 37 payload) eqn:E; [exact I|].
  unfold slice_from at 1. rewrite (short_mono 4 37 payload) by (try lia; exact E). cbn [bind].
  apply np_bind; [apply decode_length_total; apply bytes_ok_skipn; exact Hb|].
  intros [length data].
  destruct (N.ltb_spec (N.of_nat (Datatypes.length data)) length); [exact I|].
  apply np_bind; [apply np_slice_to; lia|]. intros nonce.
  destruct (max_server_nonce <? _); exact I.
Qed.

Theorem auth_nonce_bounded payload nonce :
  auth_nonce payload = Ok nonce -> N.of_nat (length nonce) <= 512.
Proof.
  unfold auth_nonce. destruct (short 37 payload); [discriminate|].
  destruct (slice_from 4 payload); cbn [bind]; try discriminate.
  destruct (decode_length a) as [[length data] | | ]; cbn [bind]; try discriminate.
  destruct (_ <? length); [discriminate|].
  destruct (slice_to length data); cbn [bind]; try discriminate.
  destruct (N.ltb_spec max_server_nonce (N.of_nat (Datatypes.length a0))); [discriminate|].
  intros E; inversion E; subst. unfold max_server_nonce in *. lia.
Qed.

Theorem parse_packet_total H stream : np (parse_packet H stream).
Proof.
  unfold parse_packet.
  destruct (short 4 stream); [exact I|].
  set (length := le_num (firstn 4 stream)).
  destruct (N.ltb_spec length 64) as [ | H64]; cbn [orb]; [exact I|].
  destruct (N.ltb_spec max_packet length) as [ | Hmax]; [exact I|].
  destruct (N.ltb_spec max_alloc length) as [Hbig | _].
  { unfold max_packet in Hmax. rewrite max_alloc_val in Hbig. lia. }
  destruct (N.ltb_spec (N.of_nat (Datatypes.length (skipn 4 stream))) length) as [ | Hlen]; [exact I|].
  set (data := firstn (N.to_nat length) (skipn 4 stream)).
  assert (Hd : N.of_nat (Datatypes.length data) = length).
  { unfold data. rewrite firstn_length. lia. }
  apply np_bind; [apply np_slice_to; lia|]. intros nonce.
  destruct (N.ltb_spec length 64); [lia|].
  unfold slice_to at 1.
  destruct (N.ltb_spec (N.of_nat (Datatypes.length data)) (length - 32)); [lia|]. cbn [bind].
  apply np_bind.
  { apply np_slice_from. rewrite short_spec. apply Nat.ltb_ge. rewrite firstn_length. lia. }
  intros payload.
  apply np_bind.
  { apply np_slice_from. rewrite short_spec. apply Nat.ltb_ge. lia. }
  intros sum. destruct (negb _); exact I.
Qed.

(** * users of boc.DeserializeBoc (after the F18 repairs) *)
Section RootsP.
  Variable decode_root : list node -> nat -> res unit.
  Hypothesis Hdr : forall cells r, np (decode_root cells r).

  Lemma parse_np bs : bytes_ok bs -> np (parse_boc bs).
  Proof. intros H. apply np_spec. apply parse_total. exact H. Qed.

  Theorem vmstack_after_tl_total b : bytes_ok b -> np (vmstack_after_tl decode_root b).
  Proof.
    intros Hb. unfold vmstack_after_tl, vmstack_after_tl_gen.
    destruct b as [ | b0 t]; [exact I|].
    apply np_bind; [apply parse_np; exact Hb|]. intros p.
    destruct (p_roots p) as [ | r rs]; cbn; [exact I | apply Hdr].
  Qed.

  Theorem parse_contract_methods_total code : bytes_ok code -> np (parse_contract_methods decode_root code).
  Proof.
    intros Hb. unfold parse_contract_methods, parse_contract_methods_gen.
    apply np_bind; [apply parse_np; exact Hb|]. intros p.
    destruct (p_roots p) as [ | r rs]; cbn; [exact I|].
    destruct (nth_error (p_cells p) r) as [nd | ]; [|exact I].
    destruct (n_refs nd); [exact I | apply Hdr].
  Qed.

  Lemma tx_loop_np cells ids : forall roots i,
    (i + length roots <= ids)%nat -> np (tx_loop decode_root cells ids roots i).
  Proof.
    induction roots as [ | r rs IH]; intros i Hi; cbn [tx_loop]; [exact I|].
    apply np_bind; [apply Hdr|]. intros _.
    cbn [length] in Hi.
    destruct (Nat.leb_spec ids i); [lia|]. apply IH. lia.
  Qed.

  Theorem get_transactions_total ids txs : bytes_ok txs -> np (get_transactions decode_root ids txs).
  Proof.
    intros Hb. unfold get_transactions, get_transactions_gen.
    destruct txs as [ | b0 t]; [exact I|].
    apply np_bind; [apply parse_np; exact Hb|]. intros p. cbn [andb].
    destruct (Nat.ltb_spec ids (length (p_roots p))); [exact I|].
    apply tx_loop_np. lia.
  Qed.

  Theorem account_from_proof_total n found bocBytes :
    bytes_ok bocBytes -> np (account_from_proof decode_root n n found bocBytes).
  Proof.
    intros Hb. unfold account_from_proof.
    apply np_bind; [apply parse_np; exact Hb|]. intros p.
    destruct (Nat.ltb_spec (length (p_roots p)) 2); [exact I|].
    apply np_bind.
    { unfold index_at. destruct (p_roots p) as [ | r0 [ | r1 rs]]; cbn in *; try lia; exact I. }
    intros r. apply np_bind; [apply Hdr|]. intros _.
    destruct found as [i | ]; [|exact I].
    destruct (Nat.leb_spec n i); [exact I|].
    destruct (Nat.leb_spec n i); [lia | exact I].
  Qed.
End RootsP.

(** * the reader goroutines *)
Lemma np_magic_type payload : np (magic_type payload).
Proof.
  unfold magic_type. destruct (short 4 payload) eqn:E; [exact I|].
  apply np_bind; [|intros; exact I].
  apply np_slice_to. apply short_false_le in E. lia.
Qed.

Theorem conn_reader_step_total payload : np (conn_reader_step payload).
Proof.
  unfold conn_reader_step, conn_reader_step_gen.
  apply np_bind; [apply np_magic_type|]. intros m.
  destruct (N.eqb m MAGIC_TCP_PONG); cbn [andb].
  - destruct (Nat.eqb_spec (length payload) 12) as [E | E].
    + unfold slice_from. rewrite short_spec.
      destruct (Nat.ltb_spec (length payload) 4); [lia|]. cbn [bind].
      rewrite short_spec, skipn_length.
      destruct (Nat.ltb_spec (length payload - 4) 8); [lia | exact I].
    + destruct (N.eqb m MAGIC_TCP_AUTH_NONCE); exact I.
  - destruct (N.eqb m MAGIC_TCP_AUTH_NONCE); exact I.
Qed.

Theorem client_reader_step_total known payload : bytes_ok payload -> np (client_reader_step known payload).
Proof.
  intros Hb. unfold client_reader_step.
  apply np_bind; [apply np_magic_type|]. intros m.
  destruct (negb _); [exact I|].
  pose proof (process_query_answer_total known payload Hb) as H.
  destruct (process_query_answer known payload); cbn in *; auto.
Qed.

(** * LiteapiRequestDecoder *)
Lemma lookup_request_in tbl tag ty :
  lookup_request tbl tag = Some ty -> exists a b c, In (a, b, ty, c) tbl.
Proof.
  induction tbl as [| [[[t u] ty'] n] tl IH]; cbn; [discriminate|].
  destruct (N.eqb t tag).
  - intros H. injection H as <-. exists t, u, n. left. reflexivity.
  - intros H. destruct (IH H) as (a & b & c & Hin). exists a, b, c. right. exact Hin.
Qed.

Theorem request_decode_total B rate tbl fuel b :
  (forall a x ty c, In (a, x, ty, c) tbl -> sok B rate fuel (GNamed ty) = true) ->
  np (request_decode B tbl fuel b).
Proof.
  intros Hok. unfold request_decode.
  destruct (short 4 b) eqn:E; [exact I|].
  apply short_false_le in E.
  apply np_bind; [apply np_slice_to; lia|]. intros h.
  unfold slice_from. rewrite short_spec.
  destruct (Nat.ltb_spec (length b) 4) as [Hlt|Hge]; [lia|]. cbn [bind].
  destruct (lookup_request tbl (le_num h)) as [ty|] eqn:L; [|exact I].
  destruct (lookup_request_in _ _ _ L) as (a & x & c & Hin).
  pose proof (tl_decode_total B rate fuel (GNamed ty) (Hok _ _ _ _ Hin) (skipn 4 b)) as Hnp.
  destruct (fst (tl_unmarshal B fuel (GNamed ty) (skipn 4 b))); cbn; auto.
  eapply Hnp. reflexivity.
Qed.

(** * the list loops of tlb/dns.go *)
Section DnsListP.
  Variable item : list bool -> option (list bool).
  (* every list head has a tag of at least one bit *)
  Hypothesis item_progress : forall s r, item s = Some r -> (length r < length s)%nat.

  Lemma dns_list_loop_ends fuel : forall s, (length s < fuel)%nat ->
    dns_list_loop item false fuel s <> Err EFuel /\ np (dns_list_loop item false fuel s).
  Proof.
    induction fuel as [| f IH]; intros s Hl; [lia|]. cbn [dns_list_loop].
    destruct (item s) as [r|] eqn:E.
    - apply item_progress in E.
      destruct r as [| next r']; [split; [discriminate | exact I]|].
      destruct next; [| split; [discriminate | exact I]].
      apply IH. cbn [length] in E. lia.
    - split; [discriminate | exact I].
  Qed.

  (* the loop returns after at most one iteration per bit of the cell, whatever the bits are *)
  Theorem dns_list_total s :
    dns_list item false (S (length s)) s <> Err EFuel /\ np (dns_list item false (S (length s)) s).
  Proof.
    unfold dns_list. destruct s as [| next r]; [split; [discriminate | exact I]|].
    destruct next; [| split; [discriminate | exact I]].
    apply dns_list_loop_ends. cbn [length]. lia.
  Qed.
End DnsListP.

(** * allocation of ParsePacket is bounded by the limit constant, whatever length is announced *)
Theorem packet_prealloc_bounded stream : packet_prealloc stream <= 4 + max_packet.
Proof.
  unfold packet_prealloc. destruct (short 4 stream); [unfold max_packet; lia|].
  destruct (le_num (firstn 4 stream) <? min_packet) eqn:E1; cbn [orb]; [unfold max_packet; lia|].
  destruct (max_packet <? le_num (firstn 4 stream)) eqn:E2; [unfold max_packet; lia|].
  apply N.ltb_ge in E2. lia.
Qed.

(* a successful parse allocated what was announced up front (plus the payload copy) *)
Theorem parse_packet_alloc_ge H stream p rest a :
  parse_packet H stream = Ok (p, rest, a) -> packet_prealloc stream <= a.
Proof.
  unfold parse_packet, packet_prealloc, min_packet.
  destruct (short 4 stream); [discriminate|].
  set (len := le_num (firstn 4 stream)).
  destruct ((len <? 64) || (max_packet <? len)); [discriminate|].
  assert (Hle : 4 + len <= 4 + len + (len - 64)) by lia.
  set (A := 4 + len + (len - 64)) in *. set (P4 := 4 + len) in *.
  destruct (max_alloc <? len); [discriminate|].
  destruct (_ <? len); [discriminate|].
  destruct (slice_to 32 _); cbn [bind]; try discriminate.
  destruct (len <? 64); [discriminate|].
  destruct (slice_to (len - 32) _); cbn [bind]; try discriminate.
  destruct (slice_from 32 _); cbn [bind]; try discriminate.
  destruct (slice_from _ _); cbn [bind]; try discriminate.
  destruct (negb _); [discriminate|].
  intros E. injection E as _ _ <-. exact Hle.
Qed.
