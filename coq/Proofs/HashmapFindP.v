(** ProveKeyInHashmap as a lookup ([find_key], Model/HashmapAug.v) agrees with the
    mapping of the dictionary for PRESENT AND ABSENT keys: on every valid
    dictionary with any label forms, for every key of the dictionary's width,
    it returns the value the mapping holds for that key, and fails for a key
    the mapping does not hold — whatever bits of the key lie under labels
    (they are skipped during the walk; the final comparison is on the whole
    reconstructed key).  Also: ShardState.AccountBalances as a map. *)
From Coq Require Import List NArith Arith Lia Bool Sorted Permutation.
From Tongo Require Import Lib.Bits Lib.Res Spec.Dict Model.Hashmap Model.HashmapAug
  Proofs.DictP Proofs.HashmapPut Proofs.HashmapSort Proofs.HashmapKeys Proofs.HashmapP.
Import ListNotations.

Lemma bits_eqb_app2 a1 a2 b1 b2 : length a1 = length a2 ->
  bits_eqb (a1 ++ b1) (a2 ++ b2) = bits_eqb a1 a2 && bits_eqb b1 b2.
Proof.
  intros HL. unfold bits_eqb. rewrite (bits_cmp_app2 a1 a2 b1 b2 HL).
  destruct (bits_cmp a1 a2); reflexivity.
Qed.

Lemma bits_eqb_refl a : bits_eqb a a = true.
Proof. apply bits_eqb_eq. reflexivity. Qed.

Section FindP.
Variable V : Type.
Variable venc : V -> bits * list cell.
Variable vdec : bits -> list cell -> option V.
Hypothesis vcodec : forall v, vdec (fst (venc v)) (snd (venc v)) = Some v.
Notation amap := (list (bits * V)).

Lemma lookup_app k (a b : amap) :
  lookup k (a ++ b) = match lookup k a with Some v => Some v | None => lookup k b end.
Proof.
  induction a as [|[k0 v0] a IH]; cbn [app lookup]; [reflexivity|].
  destruct (bits_eqb k0 k); auto.
Qed.

Lemma lookup_addp q q' k (m : amap) : length q' = length q ->
  lookup (q ++ k) (addp q' m) = if bits_eqb q' q then lookup k m else None.
Proof.
  intros HL. induction m as [|[k0 v0] m IH]; cbn [addp map lookup fst snd].
  - destruct (bits_eqb q' q); reflexivity.
  - fold (addp q' m). rewrite bits_eqb_app2 by exact HL. rewrite IH.
    destruct (bits_eqb q' q); cbn [andb]; reflexivity.
Qed.

Definition answer (o : option V) : res V := match o with Some v => Ok v | None => Err EOther end.

Lemma find_in_cells (t : apt V) : forall n m p kp kr c,
  wf_pt m (erase t) -> forms_valid t ->
  (length p + m = n)%nat -> length kp = length p -> length kr = m ->
  cells_of venc m t = Ok c ->
  find_in vdec n m (kp ++ kr) c kr p =
    if bits_eqb p kp then answer (lookup kr (tree_to_list [] (erase t))) else Err EOther.
Proof.
  induction t as [f lbl v|f lbl l IHl r IHr]; intros n m p kp kr c Hwf Hfv HN Hkp Hkr Hc.
  - cbn [cells_of] in Hc. apply mk_cell_ok in Hc. subst c.
    cbn [erase wf_pt forms_valid] in *. cbn [find_in].
    rewrite load_label_enc by (auto; lia). cbn [bind].
    replace (m <=? length lbl)%nat with true by (symmetry; apply Nat.leb_le; lia).
    unfold vdec_res. rewrite vcodec. cbn [bind].
    rewrite short_spec. replace (length (p ++ lbl) <? n)%nat with false
      by (symmetry; apply Nat.ltb_ge; rewrite app_length; lia).
    rewrite firstn_all2 by (rewrite app_length; lia).
    rewrite bits_eqb_app2 by (symmetry; exact Hkp).
    cbn [tree_to_list app lookup]. 
    destruct (bits_eqb p kp); cbn [andb]; [|reflexivity].
    destruct (bits_eqb lbl kr); reflexivity.
  - cbn [cells_of] in Hc.
    apply bind_ok in Hc. destruct Hc as (lc & Hlc & Hc).
    apply bind_ok in Hc. destruct Hc as (rc & Hrc & Hc).
    apply mk_cell_ok in Hc. subst c.
    cbn [erase wf_pt forms_valid] in *.
    destruct Hwf as (Hlen & Hwl & Hwr). destruct Hfv as (Hf & Hfl & Hfr).
    cbn [find_in].
    rewrite <- (app_nil_r (enc_label f m lbl)).
    rewrite load_label_enc by (auto; lia). cbn [bind].
    replace (m <=? length lbl)%nat with false by (symmetry; apply Nat.leb_gt; lia).
    rewrite short_spec. replace (length kr <? length lbl)%nat with false
      by (symmetry; apply Nat.ltb_ge; lia).
    (* split the rest of the key at the label *)
    assert (Ekr : kr = firstn (length lbl) kr ++ skipn (length lbl) kr) by (symmetry; apply firstn_skipn).
    set (kl := firstn (length lbl) kr) in *.
    assert (Hkl : length kl = length lbl) by (unfold kl; rewrite firstn_length; lia).
    destruct (skipn (length lbl) kr) as [|b kr'] eqn:Esk.
    { exfalso. apply (f_equal (@length _)) in Ekr. rewrite app_length in Ekr. cbn [length] in Ekr. lia. }
    assert (Hkr' : length kr' = (m - length lbl - 1)%nat).
    { apply (f_equal (@length _)) in Ekr. rewrite app_length in Ekr. cbn [length] in Ekr. lia. }
    replace (n <=? length (p ++ lbl))%nat with false
      by (symmetry; apply Nat.leb_gt; rewrite app_length; lia).
    clear Esk. clearbody kl. subst kr. clear Hkr.
    replace (kp ++ kl ++ b :: kr') with ((kp ++ kl ++ [b]) ++ kr')
      by (rewrite <- !app_assoc; reflexivity).
    (* the spec side *)
    cbn [tree_to_list app].
    rewrite (ttl_prefix V (erase l) (lbl ++ [false])), (ttl_prefix V (erase r) (lbl ++ [true])).
    rewrite lookup_app.
    replace (kl ++ b :: kr') with ((kl ++ [b]) ++ kr') by (rewrite <- app_assoc; reflexivity).
    rewrite !lookup_addp by (rewrite !app_length; cbn [length]; lia).
    rewrite !bits_eqb_app2 by (symmetry; exact Hkl).
    destruct b.
    + rewrite (IHr n (m - length lbl - 1)%nat ((p ++ lbl) ++ [true]) (kp ++ kl ++ [true]) kr' rc); auto;
        try (rewrite !app_length; cbn [length]; lia).
      rewrite <- app_assoc. rewrite bits_eqb_app2 by (symmetry; exact Hkp).
      rewrite bits_eqb_app2 by (symmetry; exact Hkl).
      change (bits_eqb [false] [true]) with false. change (bits_eqb [true] [true]) with true.
      rewrite !andb_false_r, !andb_true_r.
      destruct (bits_eqb p kp); cbn [andb]; [|reflexivity].
      destruct (bits_eqb lbl kl); reflexivity.
    + rewrite (IHl n (m - length lbl - 1)%nat ((p ++ lbl) ++ [false]) (kp ++ kl ++ [false]) kr' lc); auto;
        try (rewrite !app_length; cbn [length]; lia).
      rewrite <- app_assoc. rewrite bits_eqb_app2 by (symmetry; exact Hkp).
      rewrite bits_eqb_app2 by (symmetry; exact Hkl).
      change (bits_eqb [true] [false]) with false. change (bits_eqb [false] [false]) with true.
      rewrite !andb_false_r, !andb_true_r.
      destruct (bits_eqb p kp); cbn [andb]; [|reflexivity].
      destruct (bits_eqb lbl kl); [|reflexivity].
      destruct (lookup kr' (tree_to_list [] (erase l))); reflexivity.
Qed.

Theorem find_key_lookup n (t : apt V) c key :
  wf_pt n (erase t) -> forms_valid t -> cells_of venc n t = Ok c -> length key = n ->
  find_key vdec c key = answer (lookup key (tree_to_list [] (erase t))).
Proof.
  intros Hwf Hfv Hc Hk. unfold find_key. rewrite Hk.
  pose proof (find_in_cells t n n [] [] key c Hwf Hfv eq_refl eq_refl Hk Hc) as H.
  cbn [app] in H. exact H.
Qed.
End FindP.

(** ** AccountBalances *)
Section Balances.
Variable B : Type.

Lemma lookup_updates_nil (l : list (bits * B)) k :
  lookup k (fold_left (fun m kv => update (fst kv) (snd kv) m) l []) = get bits_eqb k (rev l).
Proof.
  pose proof (get_puts_lookup B bits_ltb bits_key_order l [] k (NoDup_nil _)) as H.
  cbn [bsort] in H. unfold updates in H. rewrite <- H.
  apply (proj2 (put_sorted bits B bits_eqb bits_ltb bits_key_order l)).
Qed.

(** every account with a balance is reported under ITS key with ITS balance: an
    account of the right half under its own key (it wins over a left account with
    the same key), else the account of the left half; nothing else *)
Theorem account_balances_lookup split (left right : list (bits * option B)) k :
  lookup k (account_balances split left right) =
    match (if split then get bits_eqb k (rev (balances_of right)) else None) with
    | Some b => Some b
    | None => get bits_eqb k (rev (balances_of left))
    end.
Proof.
  unfold account_balances. rewrite lookup_updates_nil, rev_app_distr.
  rewrite (get_app bits B bits_eqb).
  destruct split; [reflexivity|]. cbn [rev app]. reflexivity.
Qed.
End Balances.
