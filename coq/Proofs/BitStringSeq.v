(** C06: any sequence of writes followed by the matching sequence of reads
    returns exactly the values written, at every cursor alignment, for lists of
    items of any length. *)
From Coq Require Import List NArith ZArith Arith Lia Bool.
From Tongo Require Import Lib.Bits Lib.Res Model.BitString
  Proofs.BitStringW Proofs.BitStringR Proofs.BitStringR2 Proofs.MinBits.
Import ListNotations.

(** WriteBigInt emits the two's complement numeral on its domain *)
Lemma write_big_int_enc v w s :
  (1 <= w)%nat -> int_fits v w ->
  write_big_int v w s = write_bits (enc_int v w) s.
Proof.
  intros Hw Hfit. unfold int_fits in Hfit.
  destruct w as [|k]; [lia|].
  replace (Z.of_nat (S k) - 1)%Z with (Z.of_nat k) in Hfit by lia.
  assert (Hpk : (0 < 2 ^ Z.of_nat k)%Z) by (apply Z.pow_pos_nonneg; lia).
  assert (Hp2 : (2 ^ Z.of_nat (S k) = 2 * 2 ^ Z.of_nat k)%Z).
  { rewrite Nat2Z.inj_succ, Z.pow_succ_r by lia. reflexivity. }
  unfold write_big_int, enc_int.
  set (n := Z.to_N (v mod 2 ^ Z.of_nat (S k))).
  assert (Hn : (n < 2 ^ N.of_nat (S k))%N).
  { apply N2Z.inj_lt. unfold n. rewrite Z2N.id by (apply Z.mod_pos_bound; lia).
    rewrite N2Z.inj_pow, nat_N_Z. apply Z.mod_pos_bound. lia. }
  assert (HPN : Z.of_N (2 ^ N.of_nat k) = (2 ^ Z.of_nat k)%Z)
    by (rewrite N2Z.inj_pow, nat_N_Z; reflexivity).
  pose proof (pow2_pos (N.of_nat k)) as HpN.
  rewrite (bits_of_S_split k n Hn), (testbit_top n k Hn).
  destruct (Nat.eqb_spec (S k) 1) as [Hk|Hk].
  - (* one bit: -1 or 0 *)
    assert (k = 0%nat) by lia. subst k. cbn in Hfit.
    assert (Hv : (v = -1 \/ v = 0)%Z) by lia.
    destruct Hv as [-> | ->]; cbn;
      destruct (write_bit _ s) as [s' [u|e|p]]; try destruct u; reflexivity.
  - replace (S k - 1)%nat with k by lia.
    cbn [write_bits].
    set (P := (2 ^ N.of_nat k)%N) in *. rewrite <- HPN in *.
    destruct (Z.ltb_spec v 0) as [Hneg|Hpos].
    + assert (HnZ : Z.of_N n = (v + 2 * Z.of_N P)%Z).
      { unfold n. rewrite Z2N.id by (apply Z.mod_pos_bound; lia).
        rewrite Hp2. symmetry. apply Z.mod_unique with (q := (-1)%Z); lia. }
      destruct (N.leb_spec P n); [|lia].
      destruct (write_bit true s) as [s' [u|e|p]]; auto.
      destruct (Z.ltb_spec (Z.of_N P + v) 0); [lia|].
      rewrite write_big_uint_enc; [|lia|fold P; lia].
      f_equal. apply N_of_bits_inj; [rewrite !bits_of_length; reflexivity|].
      rewrite !N_of_bits_bits_of. fold P.
      assert (n = Z.to_N (Z.of_N P + v) + 1 * P)%N as -> by lia.
      rewrite N.mod_add by lia. reflexivity.
    + assert (HnZ : Z.of_N n = v).
      { unfold n. rewrite Z.mod_small by lia. rewrite Z2N.id by lia. reflexivity. }
      destruct (N.leb_spec P n); [lia|].
      destruct (write_bit false s) as [s' [u|e|p]]; auto.
      rewrite write_big_uint_enc; [|lia|fold P; lia].
      f_equal. f_equal. lia.
Qed.

(** *** items *)
Inductive item :=
| IBit (b : bool)
| IUint (v : N) (w : nat)
| IInt (v : Z) (w : nat)
| IBigUint (v : N) (w : nat)
| IBigInt (v : Z) (w : nat)
| IBytes (l : list N)
| IBits (l : bits)
| IUnary (n : nat)
| ILim (v bound : N).

Definition item_ok (it : item) : Prop :=
  match it with
  | IBit _ | IBits _ | IUnary _ => True
  | IUint v w => (w <= 64)%nat /\ (v < 2 ^ N.of_nat w)%N
  | IInt v w => (1 <= w <= 64)%nat /\ int_fits v w
  | IBigUint v w => (1 <= w)%nat /\ (v < 2 ^ N.of_nat w)%N
  | IBigInt v w => (1 <= w)%nat /\ int_fits v w
  | IBytes l => Forall (fun b => b < 256)%N l
  | ILim v bound => (v <= bound)%N /\ (bound < 2 ^ 64)%N
  end.

Definition enc_item (it : item) : bits :=
  match it with
  | IBit b => [b]
  | IUint v w => bits_of w v
  | IInt v w => enc_int v w
  | IBigUint v w => bits_of w v
  | IBigInt v w => enc_int v w
  | IBytes l => bytes_bits l
  | IBits l => l
  | IUnary n => ones n ++ [false]
  | ILim v bound => bits_of (N.to_nat (N.size bound)) v
  end.

Section WithTable.
Variable tab : list nat.
Hypothesis tab_ok : debruijn_ok tab = true.

Definition write_item (it : item) (s : bs) : bs * res unit :=
  match it with
  | IBit b => write_bit b s
  | IUint v w => write_uint v w s
  | IInt v w => write_int v w s
  | IBigUint v w => write_big_uint v w s
  | IBigInt v w => write_big_int v w s
  | IBytes l => write_bytes l s
  | IBits l => write_bits l s
  | IUnary n => write_unary n s
  | ILim v bound => write_lim_uint tab v bound s
  end.

(* the reader matching the writer, with the same width arguments; it returns
   the item it read *)
Definition read_item (it : item) (s : bs) : bs * res item :=
  let wrap {A} (f : A -> item) (r : bs * res A) : bs * res item :=
    (fst r, res_map f (snd r)) in
  match it with
  | IBit _ => wrap IBit (read_bit s)
  | IUint _ w => wrap (fun v => IUint v w) (read_uint w s)
  | IInt _ w => wrap (fun v => IInt v w) (read_int w s)
  | IBigUint _ w => wrap (fun v => IBigUint v w) (read_big_uint w s)
  | IBigInt _ w => wrap (fun v => IBigInt v w) (read_big_int w s)
  | IBytes l => wrap IBytes (read_bytes (length l) s)
  | IBits l => wrap IBits (read_bits (length l) s)
  | IUnary _ => wrap IUnary (read_unary s)
  | ILim _ bound => wrap (fun v => ILim v bound) (read_lim_uint tab bound s)
  end.

Lemma write_item_enc it s :
  item_ok it -> write_item it s = write_bits (enc_item it) s.
Proof.
  destruct it as [b|v w|v w|v w|v w|l|l|n|v bound]; cbn [item_ok write_item enc_item]; intros Hok.
  - cbn [write_bits]. destruct (write_bit b s) as [s' [u|e|p]]; try destruct u; reflexivity.
  - reflexivity.
  - destruct Hok. apply write_int_is_twos_complement; assumption.
  - destruct Hok. apply write_big_uint_enc; assumption.
  - destruct Hok. apply write_big_int_enc; assumption.
  - reflexivity.
  - reflexivity.
  - apply write_unary_enc.
  - destruct Hok as (Hv & Hb). unfold write_lim_uint, write_uint.
    rewrite (min_bits_required_spec tab tab_ok) by exact Hb. reflexivity.
Qed.

Lemma bytes_of_bits_bytes_bits l : forall rest,
  Forall (fun b => b < 256)%N l ->
  bytes_of_bits (length l) (bytes_bits l ++ rest) = l.
Proof.
  induction l as [|b t IH]; intros rest Hall; [reflexivity|].
  inversion Hall as [|? ? Hb Ht]; subst.
  cbn [length bytes_of_bits bytes_bits]. rewrite <- app_assoc.
  assert (Hlen : length (bits_of 8 b) = 8%nat) by apply bits_of_length.
  rewrite <- Hlen at 1. rewrite firstn_app_exact.
  rewrite <- Hlen at 2. rewrite skipn_app_exact.
  rewrite N_of_bits_bits_of_small by exact Hb.
  f_equal. apply IH. exact Ht.
Qed.

Lemma bytes_bits_length l : length (bytes_bits l) = (8 * length l)%nat.
Proof.
  induction l as [|b t IH]; [reflexivity|].
  cbn [bytes_bits length]. rewrite app_length, bits_of_length, IH. lia.
Qed.

(* reading an item whose encoding is next in the ideal list returns the item *)
Lemma read_item_spec it s :
  Inv s -> item_ok it ->
  (rcur s + length (enc_item it) <= len s)%nat ->
  rd s (length (enc_item it)) = enc_item it ->
  read_item it s = (adv s (length (enc_item it)), Ok it).
Proof.
  intros HI Hok Hfit Hrd. pose proof HI as (H1 & H2 & H3 & H4).
  destruct it as [b|v w|v w|v w|v w|l|l|n|v bound];
    cbn [item_ok read_item enc_item length] in *.
  - rewrite read_bit_spec by exact HI.
    destruct (Nat.leb_spec (rcur s + 1) (len s)); [|lia].
    cbn [fst snd res_map]. rewrite Hrd. reflexivity.
  - destruct Hok as (Hw & Hv). rewrite bits_of_length in *.
    rewrite read_uint_spec by assumption.
    destruct (Nat.leb_spec (rcur s + w) (len s)); [|lia].
    cbn [fst snd res_map]. rewrite Hrd, N_of_bits_bits_of_small by exact Hv. reflexivity.
  - destruct Hok as (Hw & Hv). rewrite length_enc_int in *.
    rewrite read_int_spec by assumption.
    destruct (Nat.leb_spec (rcur s + w) (len s)); [|lia].
    cbn [fst snd res_map]. rewrite Hrd, dec_enc_int by (try assumption; lia). reflexivity.
  - destruct Hok as (Hw & Hv). rewrite bits_of_length in *.
    rewrite read_big_uint_spec by assumption.
    destruct (Nat.leb_spec (rcur s + w) (len s)); [|lia].
    cbn [fst snd res_map]. rewrite Hrd, N_of_bits_bits_of_small by exact Hv. reflexivity.
  - destruct Hok as (Hw & Hv). rewrite length_enc_int in *.
    rewrite read_big_int_spec by assumption.
    destruct (Nat.leb_spec (rcur s + w) (len s)); [|lia].
    cbn [fst snd res_map]. rewrite Hrd, dec_enc_int by assumption. reflexivity.
  - rewrite bytes_bits_length in *.
    rewrite read_bytes_spec by exact HI.
    destruct (Nat.leb_spec (rcur s + 8 * length l) (len s)); [|lia].
    cbn [fst snd res_map]. f_equal. f_equal. f_equal.
    rewrite <- (firstn_skipn (8 * length l) (skipn (rcur s) (abs s))).
    fold (rd s (8 * length l)). rewrite Hrd.
    apply bytes_of_bits_bytes_bits. exact Hok.
  - rewrite read_bits_spec by exact HI.
    destruct (Nat.leb_spec (rcur s + length l) (len s)); [|lia].
    cbn [fst snd res_map]. rewrite Hrd. reflexivity.
  - rewrite app_length in *. unfold ones in *. rewrite repeat_length in *. cbn [length] in *.
    rewrite (read_unary_spec n s HI).
    + cbn [fst snd res_map]. replace (S n) with (n + 1)%nat by lia. reflexivity.
    + lia.
    + replace (S n) with (n + 1)%nat by lia. exact Hrd.
  - destruct Hok as (Hv & Hb). rewrite bits_of_length in *.
    unfold read_lim_uint. rewrite (min_bits_required_spec tab tab_ok) by exact Hb.
    assert (Hsz : (N.to_nat (N.size bound) <= 64)%nat).
    { assert (N.size bound <= 64)%N; [|lia].
      change 64%N with (N.of_nat 64). apply size_le_iff. exact Hb. }
    rewrite read_uint_spec by assumption.
    destruct (Nat.leb_spec (rcur s + N.to_nat (N.size bound)) (len s)); [|lia].
    cbn [fst snd res_map]. rewrite Hrd, N_of_bits_bits_of_small; [reflexivity|].
    rewrite N2Nat.id. apply lim_fits. exact Hv.
Qed.

(** *** sequences *)
Fixpoint write_items (its : list item) (s : bs) : bs * res unit :=
  match its with
  | [] => (s, Ok tt)
  | it :: t =>
      match write_item it s with
      | (s', Ok _) => write_items t s'
      | r => r
      end
  end.

Fixpoint read_items (its : list item) (s : bs) : bs * res (list item) :=
  match its with
  | [] => (s, Ok [])
  | it :: t =>
      match read_item it s with
      | (s', Ok v) =>
          match read_items t s' with
          | (s'', Ok vs) => (s'', Ok (v :: vs))
          | r => r
          end
      | (s', Err e) => (s', Err e)
      | (s', Panic p) => (s', Panic p)
      end
  end.

Definition enc_items (its : list item) : bits := concat (map enc_item its).

Lemma write_bits_app a b s :
  write_bits (a ++ b) s =
    match write_bits a s with
    | (s', Ok _) => write_bits b s'
    | r => r
    end.
Proof.
  revert s; induction a as [|x a IH]; intros s; cbn [app write_bits]; [reflexivity|].
  destruct (write_bit x s) as [s' [u|e|p]]; auto.
Qed.

Lemma write_items_enc its : forall s,
  Forall item_ok its -> write_items its s = write_bits (enc_items its) s.
Proof.
  induction its as [|it t IH]; intros s Hall; [reflexivity|].
  inversion Hall as [|? ? Hit Ht]; subst.
  cbn [write_items enc_items map concat]. rewrite write_bits_app.
  rewrite write_item_enc by exact Hit.
  destruct (write_bits (enc_item it) s) as [s' [u|e|p]]; auto.
Qed.

Lemma read_items_spec its : forall s,
  Inv s -> Forall item_ok its ->
  (rcur s + length (enc_items its) <= len s)%nat ->
  rd s (length (enc_items its)) = enc_items its ->
  read_items its s = (adv s (length (enc_items its)), Ok its).
Proof.
  induction its as [|it t IH]; intros s HI Hall Hfit Hrd.
  - cbn [read_items enc_items map concat length]. unfold adv, set_rcur.
    rewrite Nat.add_0_r. destruct s; reflexivity.
  - inversion Hall as [|? ? Hit Ht]; subst.
    cbn [enc_items map concat] in *. fold (enc_items t) in *.
    rewrite app_length in *.
    pose proof HI as (H1 & H2 & H3 & H4).
    assert (Hal : length (abs s) = len s) by (unfold abs; rewrite firstn_length; lia).
    (* split the window *)
    assert (Hhead : rd s (length (enc_item it)) = enc_item it).
    { unfold rd in *.
      replace (firstn (length (enc_item it)) (skipn (rcur s) (abs s)))
        with (firstn (length (enc_item it))
                (firstn (length (enc_item it) + length (enc_items t)) (skipn (rcur s) (abs s))))
        by (rewrite firstn_firstn; f_equal; lia).
      rewrite Hrd. apply firstn_app_exact. }
    assert (Htail : rd (adv s (length (enc_item it))) (length (enc_items t)) = enc_items t).
    { unfold rd in *. cbn [adv set_rcur rcur]. change (abs (set_rcur s _)) with (abs s).
      rewrite <- skipn_add.
      rewrite <- (skipn_app_exact (enc_item it) (enc_items t)) at 2.
      rewrite <- Hrd. rewrite skipn_firstn_comm.
      f_equal. lia. }
    cbn [read_items].
    rewrite read_item_spec; [|exact HI|exact Hit|lia|exact Hhead].
    rewrite IH; [|apply Inv_adv; [exact HI|lia]|exact Ht|cbn [adv set_rcur rcur len]; lia|exact Htail].
    f_equal. unfold adv, set_rcur; cbn [rcur buf cap len]. f_equal. lia.
Qed.

(** The main sequence theorem.  Start from any state (any earlier content, any
    alignment) whose read cursor stands at the end of the written data; write
    any list of in-domain items that fits; then read with the matching
    readers: every value comes back, the cursor ends at the end of the data. *)
Theorem write_then_read its s :
  Inv s -> rcur s = len s -> Forall item_ok its ->
  (len s + length (enc_items its) <= cap s)%nat ->
  exists s1, write_items its s = (s1, Ok tt) /\
    abs s1 = abs s ++ enc_items its /\ Inv s1 /\
    exists s2, read_items its s1 = (s2, Ok its) /\
      rcur s2 = len s1 /\ abs s2 = abs s1.
Proof.
  intros HI Hr Hall Hfit.
  rewrite write_items_enc by exact Hall.
  destruct (write_bits_ok (enc_items its) s HI Hfit) as (s1 & E & A & I1 & L1 & C1 & R1 & B1).
  exists s1. splits; auto.
  pose proof HI as (H1 & H2 & H3 & H4).
  assert (Hal : length (abs s) = len s) by (unfold abs; rewrite firstn_length; lia).
  eexists. split.
  - apply read_items_spec; [exact I1|exact Hall|lia|].
    unfold rd. rewrite A, R1, Hr. rewrite <- Hal, skipn_app_exact. apply firstn_all.
  - split; [cbn [adv set_rcur rcur]; lia|reflexivity].
Qed.

(** overflow: the write fails, and what had been written before is intact *)
Theorem write_overflow_keeps_prefix its s :
  Inv s -> Forall item_ok its ->
  (cap s < len s + length (enc_items its))%nat ->
  exists s1, write_items its s = (s1, Err EOverflow) /\
    firstn (len s) (abs s1) = abs s /\ Inv s1.
Proof.
  intros HI Hall Hov. rewrite write_items_enc by exact Hall.
  apply write_bits_overflow_keeps; assumption.
Qed.

End WithTable.
