(** C02, caching: every request on a caching hasher answers what a request on
    a fresh map answers, for every cache that earlier requests (successful or
    FAILED) can have left behind, hence for every history of requests. *)
From Coq Require Import List NArith Arith Lia Bool.
From Tongo Require Import Lib.Bits Lib.Res Model.BocParse Model.CellHash Model.HasherCache
  Proofs.BocParseP.
Import ListNotations.

(* references point forward and inside the array: what the parser guarantees
   (C07 parse_sound) and what any finite DAG admits (topological order) *)
Definition refs_forward (cells : list node) : Prop :=
  forall i nd, nth_error cells i = Some nd ->
  Forall (fun r => i < r < length cells)%nat (n_refs nd).

Lemma dag_wf_from_nth n : forall cells i0 k nd,
  dag_wf_from n i0 cells -> nth_error cells k = Some nd -> node_wf n (i0 + k) nd.
Proof.
  induction cells as [|c t IH]; intros i0 k nd Hwf Hk; [destruct k; discriminate|].
  destruct Hwf as (Hc & Ht). destruct k as [|k].
  - injection Hk as <-. rewrite Nat.add_0_r. exact Hc.
  - cbn [nth_error] in Hk. replace (i0 + S k)%nat with (S i0 + k)%nat by lia.
    apply (IH (S i0) k nd Ht Hk).
Qed.

Lemma dag_wf_refs_forward cells : dag_wf cells -> refs_forward cells.
Proof.
  intros Hwf i nd Hi. destruct (dag_wf_from_nth _ _ 0%nat i nd Hwf Hi) as (_ & _ & Hr). exact Hr.
Qed.

Section P.
Variable H : bytes -> bytes.

Lemma eval_dag_length cells : forall i, length (eval_dag H i cells) = length cells.
Proof. induction cells as [|c t IH]; intros i; cbn [eval_dag length]; [reflexivity|]. rewrite IH. reflexivity. Qed.

Lemma eval_dag_skip cells : forall i0 k j,
  nth_error (eval_dag H (i0 + k) (skipn k cells)) j = nth_error (eval_dag H i0 cells) (k + j).
Proof.
  induction cells as [|c t IH]; intros i0 k j.
  - rewrite skipn_nil. cbn [eval_dag]. destruct j, k; reflexivity.
  - destruct k as [|k].
    + rewrite Nat.add_0_r. reflexivity.
    + cbn [skipn]. replace (i0 + S k)%nat with (S i0 + k)%nat by lia. rewrite IH.
      cbn [eval_dag]. reflexivity.
Qed.

Lemma eval_dag_nth cells : forall i0 k nd,
  nth_error cells k = Some nd ->
  nth_error (eval_dag H i0 cells) k =
  Some (do refs <- lookup_refs (eval_dag H (S (i0 + k)) (skipn (S k) cells)) (S (i0 + k)) (n_refs nd);
        build_imm H (n_special nd) (n_type nd) (n_mask nd) (n_bits nd) refs).
Proof.
  induction cells as [|c t IH]; intros i0 k nd Hk; [destruct k; discriminate|].
  destruct k as [|k].
  - injection Hk as <-. rewrite Nat.add_0_r. reflexivity.
  - cbn [nth_error] in Hk. cbn [eval_dag nth_error skipn].
    rewrite (IH (S i0) k nd Hk). replace (S i0 + k)%nat with (i0 + S k)%nat by lia. reflexivity.
Qed.

Section Cells.
Variable cells : list node.
Hypothesis Hfw : refs_forward cells.

Notation fresh := (fresh_imm H cells).

(* the fresh evaluation of a cell is built from the fresh evaluations of its
   references *)
Lemma fresh_unfold i nd :
  nth_error cells i = Some nd ->
  fresh i = do refs <- mapM fresh (n_refs nd);
            build_imm H (n_special nd) (n_type nd) (n_mask nd) (n_bits nd) refs.
Proof.
  intros Hi. unfold fresh_imm at 1. rewrite (eval_dag_nth cells 0 i nd Hi). cbn [plus].
  f_equal. pose proof (Hfw i nd Hi) as Hr.
  induction (n_refs nd) as [|r t IHt]; [reflexivity|].
  inversion Hr as [|? ? Hr1 Ht]; subst.
  cbn [lookup_refs mapM]. rewrite <- (IHt Ht).
  replace (S i) with (0 + S i)%nat at 1 by reflexivity.
  rewrite eval_dag_skip. replace (S i + (r - S i))%nat with r by lia.
  unfold fresh_imm.
  destruct (nth_error (eval_dag H 0 cells) r) as [rc|] eqn:En; [reflexivity|].
  apply nth_error_None in En. rewrite eval_dag_length in En. lia.
Qed.

Lemma fresh_out i : nth_error cells i = None -> fresh i = Panic PNil.
Proof.
  intros Hi. unfold fresh_imm.
  destruct (nth_error (eval_dag H 0 cells) i) as [rc|] eqn:En; [|reflexivity].
  apply nth_error_None in Hi. assert (i < length (eval_dag H 0 cells))%nat by (apply nth_error_Some; congruence).
  rewrite eval_dag_length in *. lia.
Qed.

(** a cache is correct when each entry is the fresh evaluation of its key *)
Definition cache_ok (ch : cache) : Prop :=
  forall i im, cache_get ch i = Some im -> fresh i = Ok im.

Lemma cache_ok_nil : cache_ok [].
Proof. intros i im E. discriminate E. Qed.

Lemma cache_ok_add ch i im : cache_ok ch -> fresh i = Ok im -> cache_ok ((i, im) :: ch).
Proof.
  intros Hc Hf j jm. cbn [cache_get]. destruct (Nat.eqb i j) eqn:E.
  - apply Nat.eqb_eq in E. subst j. intros X. injection X as <-. exact Hf.
  - apply Hc.
Qed.

Lemma refs_loop_ok (rec : cache -> nat -> cache * res imm) : forall rs ch,
  (forall ch r, In r rs -> cache_ok ch -> cache_ok (fst (rec ch r)) /\ snd (rec ch r) = fresh r) ->
  cache_ok ch ->
  cache_ok (fst (refs_loop rec ch rs)) /\ snd (refs_loop rec ch rs) = mapM fresh rs.
Proof.
  induction rs as [|r t IH]; intros ch Hrec Hc.
  - cbn [refs_loop mapM fst snd]. split; [exact Hc|reflexivity].
  - cbn [refs_loop mapM].
    destruct (Hrec ch r (or_introl eq_refl) Hc) as (Hc1 & Hr1).
    destruct (rec ch r) as [ch1 x]. cbn [fst snd] in Hc1, Hr1. rewrite <- Hr1.
    destruct x as [im|e|p]; cbn [bind fst snd]; try (split; [exact Hc1|reflexivity]).
    destruct (IH ch1 (fun c q Hq => Hrec c q (or_intror Hq)) Hc1) as (Hc2 & Hr2).
    destruct (refs_loop rec ch1 t) as [ch2 xs]. cbn [fst snd] in Hc2, Hr2 |- *.
    split; [exact Hc2|]. rewrite <- Hr2. reflexivity.
Qed.

(** newImmutableCell with ANY correct cache returns what a fresh evaluation
    returns — also when it fails — and leaves a correct cache — also when it
    fails (the children built before the failure stay recorded). *)
Theorem hash_cache_independent : forall fuel ch i,
  cache_ok ch -> (length cells - i < fuel)%nat ->
  cache_ok (fst (new_imm_gen H false cells fuel ch i)) /\
  snd (new_imm_gen H false cells fuel ch i) = fresh i.
Proof.
  induction fuel as [|f IH]; intros ch i Hc Hfuel; [lia|].
  cbn [new_imm_gen].
  destruct (cache_get ch i) as [im|] eqn:Eg.
  { cbn [fst snd]. split; [exact Hc|]. symmetry. apply Hc. exact Eg. }
  destruct (nth_error cells i) as [nd|] eqn:En.
  2:{ cbn [fst snd]. split; [exact Hc|]. symmetry. apply fresh_out. exact En. }
  pose proof (Hfw i nd En) as Hr. rewrite (fresh_unfold i nd En).
  destruct (refs_loop_ok (new_imm_gen H false cells f) (n_refs nd) ch) as (Hc1 & Hr1).
  { intros c r Hin Hcc. apply IH; [exact Hcc|].
    rewrite Forall_forall in Hr. specialize (Hr r Hin). lia. }
  { exact Hc. }
  destruct (refs_loop (new_imm_gen H false cells f) ch (n_refs nd)) as [ch1 rr].
  cbn [fst snd] in Hc1, Hr1. rewrite <- Hr1.
  destruct rr as [refs|e|p]; cbn [bind fst snd]; try (split; [exact Hc1|reflexivity]).
  destruct (build_imm H (n_special nd) (n_type nd) (n_mask nd) (n_bits nd) refs) as [im|e|p] eqn:Eb;
    cbn [fst snd]; try (split; [exact Hc1|reflexivity]).
  split; [|reflexivity].
  apply cache_ok_add; [exact Hc1|]. rewrite (fresh_unfold i nd En), <- Hr1. cbn [bind]. exact Eb.
Qed.

(** in particular, the cache left behind by a FAILED evaluation is correct *)
Corollary failed_evaluation_leaves_correct_cache fuel ch i ch' e :
  cache_ok ch -> (length cells - i < fuel)%nat ->
  new_imm_gen H false cells fuel ch i = (ch', Err e) -> cache_ok ch' /\ fresh i = Err e.
Proof.
  intros Hc Hf E. destruct (hash_cache_independent fuel ch i Hc Hf) as (A & B).
  rewrite E in A, B. cbn [fst snd] in A, B. split; [exact A|symmetry; exact B].
Qed.

(** *** the Hasher: both maps *)
Definition hex_ok (hx : list (nat * bytes)) : Prop :=
  forall i s, cache_get hx i = Some s -> fresh_hash H cells i = Ok s.

Definition hasher_ok (st : hasher) : Prop := cache_ok (h_cache st) /\ hex_ok (h_hex st).

Lemma new_hasher_ok : hasher_ok new_hasher.
Proof. split; intros i x E; discriminate E. Qed.

Lemma hasher_hash_ok st i :
  hasher_ok st ->
  hasher_ok (fst (hasher_hash H false cells st i)) /\
  snd (hasher_hash H false cells st i) = fresh_hash H cells i.
Proof.
  intros (Hc & Hx). unfold hasher_hash.
  destruct (hash_cache_independent (S (length cells)) (h_cache st) i Hc ltac:(lia)) as (A & B).
  destruct (new_imm_gen H false cells (S (length cells)) (h_cache st) i) as [ch r].
  cbn [fst snd] in *. split; [split; [exact A|exact Hx]|]. unfold fresh_hash. rewrite B. reflexivity.
Qed.

Lemma hasher_hash_string_ok st i :
  hasher_ok st ->
  hasher_ok (fst (hasher_hash_string H false cells st i)) /\
  snd (hasher_hash_string H false cells st i) = fresh_hash H cells i.
Proof.
  intros Hok. unfold hasher_hash_string.
  destruct (cache_get (h_hex st) i) as [s|] eqn:Eg.
  { cbn [fst snd]. split; [exact Hok|]. symmetry. apply (proj2 Hok). exact Eg. }
  destruct (hasher_hash_ok st i Hok) as ((A1 & A2) & B).
  destruct (hasher_hash H false cells st i) as [st1 r]. cbn [fst snd] in *.
  destruct r as [s|e|p]; cbn [fst snd]; try (split; [split; assumption|exact B]).
  split; [|exact B]. split; [exact A1|].
  intros j t. cbn [h_hex cache_get]. destruct (Nat.eqb i j) eqn:E.
  - apply Nat.eqb_eq in E. subst j. intros X. injection X as <-. symmetry. exact B.
  - apply A2.
Qed.

Lemma hasher_step_ok st o :
  hasher_ok st ->
  hasher_ok (fst (hasher_step H false cells st o)) /\
  snd (hasher_step H false cells st o) = fresh_op H cells o.
Proof.
  destruct o as [i|i]; cbn [hasher_step fresh_op]; [apply hasher_hash_ok|apply hasher_hash_string_ok].
Qed.

(** every answer of every history of Hash / HashString requests on one hasher
    (successful and failing requests mixed, any order, any repetition) is the
    answer of that request alone on a fresh map *)
Theorem hasher_history_fresh : forall ops st,
  hasher_ok st -> hasher_run H false cells st ops = map (fresh_op H cells) ops.
Proof.
  induction ops as [|o t IH]; intros st Hok; [reflexivity|].
  cbn [hasher_run map]. destruct (hasher_step_ok st o Hok) as (A & B).
  destruct (hasher_step H false cells st o) as [st1 r]. cbn [fst snd] in A, B.
  rewrite B, (IH st1 A). reflexivity.
Qed.

Corollary hasher_history_position before o after :
  nth_error (hasher_run H false cells new_hasher (before ++ o :: after)) (length before) =
  Some (fresh_op H cells o).
Proof.
  rewrite (hasher_history_fresh _ _ new_hasher_ok), map_app, nth_error_app2; rewrite map_length; [|lia].
  rewrite Nat.sub_diag. reflexivity.
Qed.

End Cells.
End P.
