(** C01 — cell re-ordering of the serialiser, part 2: the recursive [revisit]
    keeps the invariant for every fuel >= 2*idx+2 (induction on fuel, general
    over the forces), the two root loops of [reorderCells], and what the final
    invariant says about the emitted list. *)
From Coq Require Import List NArith ZArith Arith Bool Lia.
From Tongo Require Import Lib.Bits Lib.Res Model.BocParse Model.BocSer Proofs.BocReorderP1.
Import ListNotations.

Section Main.
Variable n : nat.
Variable ch : nat -> list nat.
Hypothesis ch_lt : forall i c, In c (ch i) -> c < i.

Local Notation Inv := (Inv n ch).

(* [rv] behaves well on every cell below [m] under forces previsit / visit *)
Definition rv_spec (rv : rvT) (m : nat) : Prop :=
  forall st nl idx f, f <> Allocate -> Inv st nl -> idx < m ->
  exists st' nl' k, rv st nl idx f = Ok (st', nl', k) /\ Inv st' nl' /\ Step (S idx) st st' /\
    (f = Visit -> visited (nw st' idx)) /\
    (f = Previsit -> ~ visited (nw st idx) -> ~ visited (nw st' idx)).

Lemma ploop_spec rv m :
  rv_spec rv m -> forall rs st nl, (forall r, In r rs -> r < m) -> Inv st nl ->
  exists st' nl', ploop rv rs st nl = Ok (st', nl') /\ Inv st' nl' /\ Step m st st'.
Proof.
  intros Hrv. induction rs as [|r t IH]; intros st nl Hrs HI.
  - exists st, nl. split; [reflexivity|]. split; [exact HI|apply Step_refl].
  - cbn [ploop].
    assert (Hr : r < m) by (apply Hrs; left; reflexivity).
    destruct (Hrv st nl r (if Nat.eqb (ci_wt (get_ci st r)) 0 then Visit else Previsit))
      as (st1 & nl1 & k & E & HI1 & HS1 & _); [destruct (Nat.eqb _ _); discriminate|exact HI|exact Hr|].
    rewrite E. cbn [bind].
    destruct (IH st1 nl1) as (st2 & nl2 & E2 & HI2 & HS2); [intros r' Hr'; apply Hrs; right; exact Hr'|exact HI1|].
    exists st2, nl2. split; [exact E2|]. split; [exact HI2|].
    refine (Step_trans (S r) m m _ _ _ _ _ HS1 HS2); lia.
Qed.

Lemma vloop_spec rv m :
  rv_spec rv m -> forall rs st nl, (forall r, In r rs -> r < m) -> Inv st nl ->
  exists st' nl', vloop rv rs st nl = Ok (st', nl') /\ Inv st' nl' /\ Step m st st' /\
    forall r, In r rs -> visited (nw st' r).
Proof.
  intros Hrv. induction rs as [|r t IH]; intros st nl Hrs HI.
  - exists st, nl. split; [reflexivity|]. split; [exact HI|]. split; [apply Step_refl|].
    intros r [].
  - cbn [vloop].
    assert (Hr : r < m) by (apply Hrs; left; reflexivity).
    destruct (Hrv st nl r Visit) as (st1 & nl1 & k & E & HI1 & HS1 & HV1 & _);
      [discriminate|exact HI|exact Hr|].
    rewrite E. cbn [bind].
    destruct (IH st1 nl1) as (st2 & nl2 & E2 & HI2 & HS2 & HV2); [intros r' Hr'; apply Hrs; right; exact Hr'|exact HI1|].
    exists st2, nl2. split; [exact E2|]. split; [exact HI2|]. split.
    + refine (Step_trans (S r) m m _ _ _ _ _ HS1 HS2); lia.
    + intros r' [<-|Hr'].
      * destruct HS2 as (_ & V & _). apply V. apply HV1. reflexivity.
      * apply HV2. exact Hr'.
Qed.

(* fuel needed by [revisit idx f] *)
Definition need (idx : nat) (f : force) : nat :=
  match f with Previsit => 2 * idx + 1 | Visit => 2 * idx + 2 | Allocate => 1 end.

Lemma unvisited_rf st nl x : Inv st nl -> ~ visited (nw st x) -> rf st x = ch x.
Proof. intros [_ CP] H. destruct (CP x) as (_ & P2 & _); [tauto|]. apply P2. exact H. Qed.

Lemma revisit_spec : forall fu st nl idx f,
  f <> Allocate -> Inv st nl -> idx < n -> need idx f <= fu ->
  exists st' nl' k, revisit fu st nl idx f = Ok (st', nl', k) /\ Inv st' nl' /\
    Step (S idx) st st' /\
    (f = Visit -> visited (nw st' idx)) /\
    (f = Previsit -> ~ visited (nw st idx) -> ~ visited (nw st' idx)).
Proof.
  induction fu as [|fu IH]; intros st nl idx f Hf HI Hidx Hfu.
  - destruct f; cbn in Hfu; lia.
  - assert (Hrv : need idx f <= S fu -> rv_spec (revisit fu) idx).
    { intros _ st0 nl0 r f0 Hf0 HI0 Hr. apply IH; auto; try lia.
      destruct f, f0; cbn in *; lia || congruence. }
    specialize (Hrv Hfu).
    destruct f; [| |congruence].
    + (* previsit *)
      rewrite revisit_previsit. cbv zeta. fold (nw st idx). fold (rf st idx).
      destruct (Z.leb_spec 0 (nw st idx)) as [H0|H0].
      { exists st, nl, (nw st idx). split; [reflexivity|]. split; [exact HI|].
        split; [apply Step_refl|]. split; [discriminate|]. intros _ Hnv. exact Hnv. }
      destruct (Z.eqb_spec (nw st idx) (-1)) as [H1|H1]; cbn [negb].
      2:{ exists st, nl, (nw st idx). split; [reflexivity|]. split; [exact HI|].
          split; [apply Step_refl|]. split; [discriminate|]. intros _ Hnv. exact Hnv. }
      assert (Hnv : ~ visited (nw st idx)) by (rewrite H1; intros [H|H]; lia).
      rewrite (unvisited_rf st nl idx HI Hnv).
      destruct (ploop_spec _ _ Hrv (rev (ch idx)) st nl) as (st1 & nl1 & E1 & HI1 & HS1);
        [intros r Hr; apply ch_lt; apply in_rev; exact Hr|exact HI|].
      rewrite E1. cbn [bind].
      assert (Hg : get_ci st1 idx = get_ci st idx) by (destruct HS1 as (F & _); apply F; lia).
      assert (Hn1 : nw st1 idx = (-1)%Z) by (unfold nw; rewrite Hg; exact H1).
      destruct (mark_previsited n ch st1 nl1 idx HI1 Hidx Hn1) as (HI2 & HS2 & Hn2).
      eexists _, nl1, _. split; [reflexivity|]. split; [exact HI2|]. split.
      * refine (Step_trans idx (S idx) (S idx) _ _ _ _ _ HS1 HS2); lia.
      * split; [discriminate|]. intros _ _. rewrite Hn2. intros [H|H]; lia.
    + (* visit *)
      rewrite revisit_visit. cbv zeta. fold (nw st idx).
      destruct (Z.leb_spec 0 (nw st idx)) as [H0|H0].
      { exists st, nl, (nw st idx). split; [reflexivity|]. split; [exact HI|].
        split; [apply Step_refl|]. split; [|discriminate]. intros _. right. exact H0. }
      destruct (Z.eqb_spec (nw st idx) (-3)) as [H3|H3].
      { exists st, nl, (-3)%Z. split; [reflexivity|]. split; [exact HI|].
        split; [apply Step_refl|]. split; [|discriminate]. intros _. left. exact H3. }
      assert (Hnv : ~ visited (nw st idx)) by (intros [H|H]; lia).
      cbn [need] in Hfu.
      (* previsit of a special cell *)
      assert (H0' : exists st0 nl0,
        (if Nat.eqb (ci_wt (get_ci st idx)) 0
         then do x <- revisit fu st nl idx Previsit; let '(s, n0, _) := x in Ok (s, n0)
         else Ok (st, nl)) = Ok (st0, nl0) /\ Inv st0 nl0 /\ Step (S idx) st st0 /\
        ~ visited (nw st0 idx)).
      { destruct (Nat.eqb (ci_wt (get_ci st idx)) 0).
        - destruct (IH st nl idx Previsit) as (st0 & nl0 & k & E0 & HI0 & HS0 & _ & HP0);
            [discriminate|exact HI|exact Hidx|cbn [need]; lia|].
          rewrite E0. cbn [bind]. exists st0, nl0. split; [reflexivity|].
          split; [exact HI0|]. split; [exact HS0|]. apply HP0; auto.
        - exists st, nl. split; [reflexivity|]. split; [exact HI|]. split; [apply Step_refl|exact Hnv]. }
      destruct H0' as (st0 & nl0 & E0 & HI0 & HS0 & Hnv0).
      rewrite E0. cbn [bind]. fold (rf st0 idx).
      rewrite (unvisited_rf st0 nl0 idx HI0 Hnv0).
      destruct (vloop_spec _ _ Hrv (rev (ch idx)) st0 nl0) as (st1 & nl1 & E1 & HI1 & HS1 & HV1);
        [intros r Hr; apply ch_lt; apply in_rev; exact Hr|exact HI0|].
      rewrite E1. cbn [bind].
      assert (Hg : get_ci st1 idx = get_ci st0 idx) by (destruct HS1 as (F & _); apply F; lia).
      assert (Hnv1 : ~ visited (nw st1 idx)) by (unfold nw; rewrite Hg; exact Hnv0).
      fold (rf st1 idx). rewrite (unvisited_rf st1 nl1 idx HI1 Hnv1).
      assert (HA1 : AInv n ch idx (length (ch idx)) st1 nl1).
      { apply AInv_start; auto. intros c Hc. apply HV1. apply in_rev. rewrite rev_involutive. exact Hc. }
      assert (Hal : forall st nl r, revisit fu st nl r Allocate = Ok (alloc1 st nl r)).
      { destruct fu as [|fu']; [lia|]. intros. apply revisit_alloc. }
      destruct (aloop_spec n ch ch_lt (revisit fu) idx Hal Hidx (length (ch idx)) st1 nl1 (le_n _) HA1)
        as (st2 & nl2 & E2 & HA2 & HS2).
      rewrite E2. cbn [bind].
      destruct (AInv_finish n ch idx st2 nl2 HA2 Hidx) as (HI3 & HS3 & Hn3).
      eexists _, nl2, _. split; [reflexivity|]. split; [exact HI3|]. split.
      * refine (Step_trans (S idx) (S idx) (S idx) _ _ _ _ _ HS0 _); [lia|lia|].
        refine (Step_trans idx (S idx) (S idx) _ _ _ _ _ HS1 _); [lia|lia|].
        refine (Step_trans (S idx) (S idx) (S idx) _ _ _ _ _ HS2 HS3); lia.
      * split; [|discriminate]. intros _. left. exact Hn3.
Qed.

(** *** the root loops of [reorderCells] *)
Definition phase1 (fuel : nat) (s : list cinfo * list nat) (r : nat) : res (list cinfo * list nat) :=
  do x <- revisit fuel (fst s) (snd s) r Previsit;
  let '(s1, n1, _) := x in
  do y <- revisit fuel s1 n1 r Visit;
  let '(s2, n2, _) := y in Ok (s2, n2).

Definition phase2 (fuel : nat) (s : list cinfo * list nat) (r : nat) : res (list cinfo * list nat) :=
  do x <- revisit fuel (fst s) (snd s) r Allocate;
  let '(s1, n1, _) := x in Ok (s1, n1).

Lemma phase1_spec fuel : 2 * n <= fuel ->
  forall roots st nl, (forall r, In r roots -> r < n) -> Inv st nl ->
  exists st' nl', for_roots (phase1 fuel) (st, nl) roots = Ok (st', nl') /\ Inv st' nl' /\
    Step n st st' /\ forall r, In r roots -> visited (nw st' r).
Proof.
  intros Hfu. induction roots as [|r t IH]; intros st nl Hrs HI.
  - exists st, nl. split; [reflexivity|]. split; [exact HI|]. split; [apply Step_refl|].
    intros r [].
  - cbn [for_roots]. unfold phase1 at 1. cbn [fst snd].
    assert (Hr : r < n) by (apply Hrs; left; reflexivity).
    destruct (revisit_spec fuel st nl r Previsit) as (st1 & nl1 & k1 & E1 & HI1 & HS1 & _);
      [discriminate|exact HI|exact Hr|cbn [need]; lia|].
    rewrite E1. cbn [bind].
    destruct (revisit_spec fuel st1 nl1 r Visit) as (st2 & nl2 & k2 & E2 & HI2 & HS2 & HV2 & _);
      [discriminate|exact HI1|exact Hr|cbn [need]; lia|].
    rewrite E2. cbn [bind].
    destruct (IH st2 nl2) as (st3 & nl3 & E3 & HI3 & HS3 & HV3);
      [intros r' Hr'; apply Hrs; right; exact Hr'|exact HI2|].
    exists st3, nl3. split; [exact E3|]. split; [exact HI3|]. split.
    + refine (Step_trans (S r) n n _ _ _ _ _ HS1 _); [lia|lia|].
      refine (Step_trans (S r) n n _ _ _ _ _ HS2 HS3); lia.
    + intros r' [<-|Hr'].
      * destruct HS3 as (_ & V & _). apply V. apply HV2. reflexivity.
      * apply HV3. exact Hr'.
Qed.

Lemma phase2_spec fuel : 1 <= fuel ->
  forall roots st nl, (forall r, In r roots -> r < n /\ visited (nw st r)) -> Inv st nl ->
  exists st' nl', for_roots (phase2 fuel) (st, nl) roots = Ok (st', nl') /\ Inv st' nl' /\
    Step n st st' /\ forall r, In r roots -> (0 <= nw st' r)%Z.
Proof.
  intros Hfu. destruct fuel as [|fu]; [lia|].
  induction roots as [|r t IH]; intros st nl Hrs HI.
  - exists st, nl. split; [reflexivity|]. split; [exact HI|]. split; [apply Step_refl|].
    intros r [].
  - cbn [for_roots]. unfold phase2 at 1. cbn [fst snd]. rewrite revisit_alloc.
    destruct (Hrs r) as [Hr Hv]; [left; reflexivity|].
    destruct (alloc1_spec n ch _ st nl r HI Hr Hv) as (st1 & nl1 & E1 & HI1 & HS1 & H01).
    rewrite E1. cbn [bind].
    destruct (IH st1 nl1) as (st3 & nl3 & E3 & HI3 & HS3 & HV3); [|exact HI1|].
    { intros r' Hr'. destruct (Hrs r') as [A B]; [right; exact Hr'|]. split; [exact A|].
      destruct HS1 as (_ & V & _). apply V. exact B. }
    exists st3, nl3. split; [exact E3|]. split; [exact HI3|]. split.
    + refine (Step_trans (S r) n n _ _ _ _ _ HS1 HS3); lia.
    + intros r' [<-|Hr'].
      * destruct HS3 as (_ & _ & A & _). rewrite A; exact H01.
      * apply HV3. exact Hr'.
Qed.

(** *** what the final invariant says *)
Inductive reach (roots : list nat) : nat -> Prop :=
| reach_root r : In r roots -> reach roots r
| reach_child i c : reach roots i -> In c (ch i) -> reach roots c.

Lemma Inv_in_nl st nl i : Inv st nl -> (In i nl <-> (0 <= nw st i)%Z).
Proof.
  intros [(_ & _ & NL) _]. split.
  - intros Hin. destruct (In_nth_error _ _ Hin) as [k Hk]. apply NL in Hk. lia.
  - intros H0. apply nth_error_In with (n := Z.to_nat (nw st i)). apply NL. lia.
Qed.

Lemma Inv_NoDup st nl : Inv st nl -> NoDup nl.
Proof.
  intros [(_ & _ & NL) _]. apply NoDup_nth_error. intros i j Hi E.
  destruct (nth_error nl i) as [a|] eqn:Ea; [|apply nth_error_None in Ea; lia].
  symmetry in E. apply NL in Ea. apply NL in E. lia.
Qed.

Lemma Inv_reach st nl roots :
  Inv st nl -> (forall r, In r roots -> (0 <= nw st r)%Z) ->
  forall i, reach roots i -> (0 <= nw st i)%Z.
Proof.
  intros [_ CP] Hr i Hi. induction Hi as [r Hin|i c _ IH Hc]; [auto|].
  destruct (CP i) as (P1 & _); [tauto|]. destruct P1 as [_ A]; [right; exact IH|]. auto.
Qed.

Lemma Inv_refs st nl i :
  Inv st nl -> (0 <= nw st i)%Z ->
  length (rf st i) = length (ch i) /\
  forall j, j < length (ch i) ->
    nth j (rf st i) 0 = newidx st (nth j (ch i) 0) /\
    (0 <= nw st (nth j (ch i) 0%nat))%Z /\
    newidx st (nth j (ch i) 0) < newidx st i.
Proof.
  intros [_ CP] H0. destruct (CP i) as (P1 & _ & P3); [tauto|].
  destruct P1 as [E A]; [right; exact H0|].
  split; [rewrite E, map_length; reflexivity|].
  intros j Hj.
  assert (Hin : In (nth j (ch i) 0) (ch i)) by (apply nth_In; exact Hj).
  split; [|split].
  - rewrite E. rewrite nth_indep with (d' := newidx st 0) by (rewrite map_length; exact Hj).
    apply map_nth.
  - apply A. exact Hin.
  - specialize (P3 H0 _ Hin). specialize (A _ Hin). unfold newidx. lia.
Qed.

End Main.
