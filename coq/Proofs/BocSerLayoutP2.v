(** C01 — the bytes emitted by the serialiser model are the BOC layout, part 2:
    the output phase.  For ANY cell-info array [st] and emitted list [nl] whose
    entries point to well-formed payload cells and whose references point to
    smaller new indices (what import + re-ordering guarantee, part 3), the
    bytes written after [importRoots] are exactly
    [layout (out_variant ..) (out_cells ..) (out_roots ..)], and that layout
    satisfies [layout_ok]. *)
From Coq Require Import List NArith ZArith Arith Bool Lia.
From Tongo Require Import Lib.Bits Lib.Res Spec.Crc32c Model.BitString Model.BocParse Model.CellHash
  Model.BocSer Spec.BocLayout Proofs.BocParseP Proofs.BocLayoutP Proofs.BocSerLayoutP1.
Import ListNotations.

(** what the input cells must satisfy beyond [dag_wf]: a 3-bit level mask and a
    type byte consistent with the data (what the parser produces for every cell
    it accepts as exotic with at least one full data byte) *)
Definition node_ok (nd : node) : Prop :=
  (n_mask nd < 8)%N /\
  (if n_special nd
   then 8 <= length (n_bits nd) /\ n_type nd = first_byte (n_bits nd) /\ n_type nd <> 0%N
   else n_type nd = 0%N).

Section OutL.
Variable dag : list node.

(* the cell written for a cell-info: payload of the input cell, references
   replaced by the emitted positions [n - 1 - new index] *)
Definition out_node (n : nat) (ci : cinfo) : node :=
  match nth_error dag (ci_node ci) with
  | Some nd => mknode (n_special nd) (n_type nd) (n_mask nd) (n_bits nd)
                      (map (fun r => n - 1 - r) (ci_refs ci))
  | None => mknode false 0 0 [] []
  end.

(* emitted order: reverse allocation order *)
Definition out_cells (st : list cinfo) (nl : list nat) : list node :=
  map (out_node (length nl)) (rev (map (get_ci st) nl)).

Definition out_roots (n : nat) (rootidx : list nat) : list nat := map (fun r => n - 1 - r) rootidx.

Definition out_size (nl : list nat) : nat := byte_len (N.of_nat (length nl)).

Definition out_data (st : list cinfo) (nl : list nat) : bytes :=
  concat (map (fun c => enc_cell (out_size nl) c []) (out_cells st nl)).

Definition out_off (st : list cinfo) (nl : list nat) : nat :=
  byte_len (N.of_nat (length (out_data st nl))).

(* the offsets table as the model computes it (index i = allocation order) *)
Definition out_offsets (st : list cinfo) (nl : list nat) (cacheBits : bool) : list N :=
  let infos := map (get_ci st) nl in
  snd (fold_left (s_step cacheBits)
         (rev (combine infos (map (s_repr dag (out_size nl) (length nl)) infos))) (0%N, [])).

Definition out_variant (st : list cinfo) (nl : list nat) (idx hasCrc cacheBits : bool) : variant :=
  mkvariant 0 idx hasCrc cacheBits (out_size nl) (out_off st nl) 0
            (s_index idx (out_off st nl) (out_offsets st nl cacheBits))
            (repeat [] (length nl)).

(* hypothesis on the k-th allocated cell-info *)
Definition info_ok (k : nat) (ci : cinfo) : Prop :=
  exists nd, nth_error dag (ci_node ci) = Some nd /\ node_ok nd /\
             length (n_bits nd) <= 1023 /\ length (ci_refs ci) <= 4 /\
             Forall (fun r => r < k) (ci_refs ci).

Definition infos_ok (infos : list cinfo) : Prop :=
  forall k ci, nth_error infos k = Some ci -> info_ok k ci.

Lemma infos_ok_tail c t : infos_ok (c :: t) ->
  forall k ci, nth_error t k = Some ci -> info_ok (S k) ci.
Proof. intros H k ci Hk. apply (H (S k) ci). exact Hk. Qed.

(** *** cell bodies *)
Lemma reps_enc size n : forall infos b,
  (forall k ci, nth_error infos k = Some ci -> info_ok (b + k) ci) ->
  map (s_repr dag size n) infos = map (fun c => enc_cell size c []) (map (out_node n) infos).
Proof.
  induction infos as [|ci t IH]; intros b H; [reflexivity|].
  cbn [map]. f_equal.
  - destruct (H 0 ci eq_refl) as (nd & End & [Hm _] & _ & Hr & _).
    unfold s_repr, out_node. rewrite End. apply repr_is_enc_cell; assumption.
  - apply (IH (S b)). intros k c Hk. replace (S b + k) with (b + S k) by lia. apply H. exact Hk.
Qed.

Lemma combine_repeat_nil size : forall cells : list node,
  map (fun p => enc_cell size (fst p) (snd p)) (combine cells (repeat [] (length cells)))
  = map (fun c => enc_cell size c []) cells.
Proof.
  induction cells as [|c t IH]; [reflexivity|].
  cbn [length repeat combine map fst snd]. rewrite IH. reflexivity.
Qed.

Lemma out_cells_length st nl : length (out_cells st nl) = length nl.
Proof. unfold out_cells. rewrite map_length, rev_length, map_length. reflexivity. Qed.

Lemma reps_data st nl :
  infos_ok (map (get_ci st) nl) ->
  concat (rev (map (s_repr dag (out_size nl) (length nl)) (map (get_ci st) nl))) = out_data st nl.
Proof.
  intros H. rewrite (reps_enc _ _ _ 0) by exact H.
  unfold out_data, out_cells. rewrite <- !map_rev. reflexivity.
Qed.

Lemma cells_data_out st nl idx hasCrc cacheBits :
  cells_data (out_variant st nl idx hasCrc cacheBits) (out_cells st nl) = out_data st nl.
Proof.
  unfold cells_data, out_variant. cbn [v_size v_stored].
  rewrite <- (out_cells_length st nl), combine_repeat_nil. reflexivity.
Qed.

(** *** [cells_ok] of the emitted cells *)
Lemma cells_ok_nth n size : forall cells i,
  (forall k c, nth_error cells k = Some c -> cell_ok n (i + k) size c []) ->
  cells_ok n i size cells (repeat [] (length cells)).
Proof.
  induction cells as [|c t IH]; intros i H; [exact I|].
  cbn [length repeat cells_ok]. split.
  - specialize (H 0 c eq_refl). rewrite Nat.add_0_r in H. exact H.
  - apply IH. intros k c' Hk. replace (S i + k) with (i + S k) by lia. apply H. exact Hk.
Qed.

Lemma out_node_ok n size k ci :
  k < n -> info_ok k ci -> cell_ok n (n - 1 - k) size (out_node n ci) [].
Proof.
  intros Hk (nd & End & [Hm Hty] & Hb & Hr & Hlt).
  unfold out_node. rewrite End. unfold cell_ok.
  cbn [n_bits n_refs n_mask n_special n_type]. rewrite map_length.
  split; [exact Hb|]. split; [exact Hr|]. split.
  { apply Forall_forall. intros x Hx. apply in_map_iff in Hx. destruct Hx as (r & <- & Hin).
    rewrite Forall_forall in Hlt. specialize (Hlt r Hin). cbv beta in Hlt. lia. }
  split; [exact Hm|]. split; [exact Hty|]. split; [left; reflexivity|constructor].
Qed.

Lemma nth_error_rev {A} (l : list A) k :
  k < length l -> nth_error (rev l) k = nth_error l (length l - 1 - k).
Proof.
  intros Hk.
  destruct (nth_error l (length l - 1 - k)) as [x|] eqn:E.
  - rewrite (nth_error_nth' (rev l) x) by (rewrite rev_length; exact Hk).
    rewrite rev_nth by exact Hk.
    rewrite (nth_error_nth' l x) in E by lia. injection E as E.
    f_equal. replace (length l - S k) with (length l - 1 - k) by lia. exact E.
  - apply nth_error_None in E. lia.
Qed.

Lemma out_cells_ok st nl size :
  infos_ok (map (get_ci st) nl) ->
  cells_ok (length nl) 0 size (out_cells st nl) (repeat [] (length nl)).
Proof.
  intros H. rewrite <- (out_cells_length st nl) at 2.
  apply cells_ok_nth. intros p c Hp. cbn [Nat.add].
  unfold out_cells in Hp. rewrite nth_error_map in Hp.
  set (infos := map (get_ci st) nl) in *.
  assert (Hl : length infos = length nl) by (unfold infos; apply map_length).
  destruct (nth_error (rev infos) p) as [ci|] eqn:E; [|discriminate].
  injection Hp as <-.
  assert (Hpl : p < length infos).
  { rewrite <- (rev_length infos). apply nth_error_Some. congruence. }
  rewrite nth_error_rev in E by exact Hpl.
  specialize (H _ _ E).
  replace p with (length nl - 1 - (length infos - 1 - p)) at 1 by lia.
  apply out_node_ok; [lia|exact H].
Qed.

(** *** sizes *)
Lemma enc_cell_len n i size c :
  cell_ok n i size c [] -> length (enc_cell size c []) <= 130 + 4 * size.
Proof.
  intros (Hb & Hr & _). unfold enc_cell. cbv zeta. cbn [length app].
  rewrite app_length, enc_data_length.
  fold (be_list size (n_refs c)). rewrite be_list_length.
  assert ((length (n_bits c) + 7) / 8 <= 128).
  { apply Nat.lt_succ_r. apply Nat.div_lt_upper_bound; lia. }
  nia.
Qed.

Lemma cells_len n size : forall cells i,
  cells_ok n i size cells (repeat [] (length cells)) ->
  length (concat (map (fun c => enc_cell size c []) cells)) <= (130 + 4 * size) * length cells.
Proof.
  induction cells as [|c t IH]; intros i H; [cbn; lia|].
  cbn [length repeat cells_ok] in H. destruct H as [Hc Ht].
  cbn [map concat length]. rewrite app_length.
  pose proof (enc_cell_len _ _ _ _ Hc). specialize (IH _ Ht). lia.
Qed.

Lemma out_size_small nl : (N.of_nat (length nl) < 2 ^ 24)%N -> 1 <= out_size nl <= 3.
Proof.
  intros H. unfold out_size. split; [apply byte_len_pos|].
  apply byte_len_le; [lia|]. exact H.
Qed.

Lemma out_data_len st nl :
  infos_ok (map (get_ci st) nl) -> (N.of_nat (length nl) < 2 ^ 24)%N ->
  length (out_data st nl) <= 142 * length nl.
Proof.
  intros H Hn. pose proof (out_size_small nl Hn) as Hs.
  pose proof (out_cells_ok st nl (out_size nl) H) as Hok.
  rewrite <- (out_cells_length st nl) in Hok at 2.
  pose proof (cells_len _ _ _ _ Hok) as Hl. rewrite out_cells_length in Hl.
  fold (out_data st nl) in Hl. nia.
Qed.

Lemma out_off_small st nl :
  infos_ok (map (get_ci st) nl) -> (N.of_nat (length nl) < 2 ^ 24)%N ->
  1 <= out_off st nl <= 4.
Proof.
  intros H Hn. unfold out_off. split; [apply byte_len_pos|].
  apply byte_len_le; [lia|].
  pose proof (out_data_len st nl H Hn) as Hl.
  change (256 ^ N.of_nat 4)%N with 4294967296%N. change (2 ^ 24)%N with 16777216%N in Hn. lia.
Qed.

(** *** the offsets *)
Lemma out_total st nl cacheBits :
  infos_ok (map (get_ci st) nl) ->
  fst (fold_left (s_step cacheBits)
         (rev (combine (map (get_ci st) nl)
                       (map (s_repr dag (out_size nl) (length nl)) (map (get_ci st) nl)))) (0%N, []))
  = N.of_nat (length (out_data st nl)).
Proof.
  intros H. set (infos := map (get_ci st) nl). set (reps := map _ infos).
  destruct (s_step_fold cacheBits (rev (combine infos reps)) 0%N []) as [A _].
  rewrite A. rewrite map_rev. unfold bytes. rewrite concat_rev_length. fold bytes.
  rewrite map_snd_combine by (unfold reps; rewrite map_length; reflexivity).
  rewrite <- (concat_rev_length reps). unfold reps, infos. rewrite reps_data by exact H. lia.
Qed.

Lemma out_offsets_length st nl cacheBits : length (out_offsets st nl cacheBits) = length nl.
Proof.
  unfold out_offsets. cbv zeta. set (infos := map (get_ci st) nl). set (reps := map _ infos).
  destruct (s_step_fold cacheBits (rev (combine infos reps)) 0%N []) as [_ B].
  rewrite B. rewrite rev_length, combine_length. unfold reps. rewrite map_length.
  unfold infos. rewrite map_length. cbn [length]. lia.
Qed.

Lemma flat_be_length w (l : list N) : length (flat_map (be w) l) = w * length l.
Proof.
  induction l as [|x t IH]; cbn [flat_map length]; [lia|].
  rewrite app_length, be_length, IH. lia.
Qed.

Lemma flat_be_bytes w (l : list N) : Forall is_byte (flat_map (be w) l).
Proof.
  induction l as [|x t IH]; cbn [flat_map]; [constructor|].
  apply Forall_app. split; [apply be_bytes|exact IH].
Qed.

Lemma s_index_be idx w offs : s_index idx w offs = if idx then flat_map (be w) (rev offs) else [].
Proof.
  unfold s_index. destruct idx; [|reflexivity].
  apply flat_map_ext'. intros x _. apply be_n_be.
Qed.

(** *** the output phase is the layout *)
Lemma layout_generic i c h sz off ab ix stored cells roots :
  layout (mkvariant 0 i c h sz off ab ix stored) cells roots =
  let data := cells_data (mkvariant 0 i c h sz off ab ix stored) cells in
  let body :=
    (magic_reach ++ [((if i then 128 else 0) + (if c then 64 else 0)
                      + (if h then 32 else 0) + N.of_nat sz)%N])
    ++ [N.of_nat off]
    ++ be sz (N.of_nat (length cells)) ++ be sz (N.of_nat (length roots))
    ++ be sz ab ++ be off (N.of_nat (length data))
    ++ flat_map (fun r => be sz (N.of_nat r)) roots
    ++ (if i then ix else [])
    ++ data in
  if c then body ++ rev (be 4 (crc32c body)) else body.
Proof. reflexivity. Qed.

Definition body_len (v : variant) (cells : list node) (roots : list nat) : nat :=
  length (layout v cells roots) - (if has_crc v then 4 else 0).

Theorem ser_out_is_layout st nl rootidx idx hasCrc cacheBits :
  infos_ok (map (get_ci st) nl) -> (N.of_nat (length nl) < 2 ^ 24)%N ->
  let v := out_variant st nl idx hasCrc cacheBits in
  let cells := out_cells st nl in
  let roots := out_roots (length nl) rootidx in
  ser_out dag st nl rootidx idx hasCrc cacheBits =
  if (s_capacity (length nl) <? 8 * N.of_nat (body_len v cells roots))%N then Err ESer
  else Ok (layout v cells roots).
Proof.
  intros H Hn v cells roots.
  pose proof (out_size_small nl Hn) as Hs. pose proof (out_off_small st nl H Hn) as Ho.
  unfold ser_out. cbv zeta. rewrite map_length.
  fold (out_size nl). rewrite out_total by exact H. fold (out_off st nl).
  fold (out_offsets st nl cacheBits). rewrite reps_data by exact H.
  set (body := s_header _ _ _ _ _ _ _ _ ++ _ ++ _).
  assert (Hbody : layout v cells roots = if hasCrc then body ++ rev (be 4 (crc32c body)) else body).
  { unfold v, out_variant. rewrite layout_generic. cbv zeta.
    fold (out_variant st nl idx hasCrc cacheBits). unfold cells. rewrite cells_data_out. fold cells.
    assert (Eb : (magic_reach ++ [((if idx then 128 else 0) + (if hasCrc then 64 else 0)
                                  + (if cacheBits then 32 else 0) + N.of_nat (out_size nl))%N])
                 ++ [N.of_nat (out_off st nl)]
                 ++ be (out_size nl) (N.of_nat (length cells)) ++ be (out_size nl) (N.of_nat (length roots))
                 ++ be (out_size nl) 0 ++ be (out_off st nl) (N.of_nat (length (out_data st nl)))
                 ++ flat_map (fun r => be (out_size nl) (N.of_nat r)) roots
                 ++ (if idx then s_index idx (out_off st nl) (out_offsets st nl cacheBits) else [])
                 ++ out_data st nl = body).
    { unfold body, s_header. rewrite <- !app_assoc. f_equal. f_equal.
      { f_equal. unfold s_flags. rewrite Nat.mod_small by lia. reflexivity. }
      cbn [app]. f_equal.
      { rewrite Nat.mod_small by lia. reflexivity. }
      rewrite !be_n_be. unfold cells. rewrite out_cells_length. f_equal.
      unfold roots, out_roots. rewrite map_length. f_equal. f_equal. f_equal.
      rewrite flat_map_map. f_equal.
      { apply flat_map_ext'. intros r _. symmetry. apply be_n_be. }
      f_equal. destruct idx; reflexivity. }
    rewrite Eb. reflexivity. }
  assert (Hlen : body_len v cells roots = length body).
  { unfold body_len. rewrite Hbody. replace (has_crc v) with hasCrc by reflexivity.
    destruct hasCrc; [|lia]. rewrite app_length, rev_length, be_length. lia. }
  rewrite Hlen. destruct (_ <? _)%N; [reflexivity|].
  rewrite Hbody, be_n_be. reflexivity.
Qed.

Theorem out_layout_ok st nl rootidx idx hasCrc cacheBits :
  infos_ok (map (get_ci st) nl) -> (N.of_nat (length nl) < 2 ^ 24)%N ->
  length rootidx < 256 -> Forall (fun r => r < length nl) rootidx ->
  layout_ok (out_variant st nl idx hasCrc cacheBits) (out_cells st nl) (out_roots (length nl) rootidx).
Proof.
  intros H Hn Hrc Hri.
  pose proof (out_size_small nl Hn) as Hs. pose proof (out_off_small st nl H Hn) as Ho.
  unfold layout_ok. cbv zeta. rewrite cells_data_out, out_cells_length.
  set (v := out_variant st nl idx hasCrc cacheBits).
  change (v_magic v) with 0. change (v_size v) with (out_size nl).
  change (v_off v) with (out_off st nl). change (v_absent v) with 0%N.
  change (v_stored v) with (repeat (@nil N) (length nl)).
  change (has_idx v) with idx.
  change (v_index v) with (s_index idx (out_off st nl) (out_offsets st nl cacheBits)).
  cbn [Nat.eqb].
  assert (Hp : (256 ^ 1 <= 256 ^ N.of_nat (out_size nl))%N) by (apply N.pow_le_mono_r; lia).
  split; [lia|]. split; [lia|]. split; [lia|]. split; [lia|].
  split; [apply byte_len_fits|].
  split; [unfold out_roots; rewrite map_length; lia|].
  split; [lia|].
  split; [apply byte_len_fits|].
  split.
  { unfold out_roots. apply Forall_forall. intros x Hx. apply in_map_iff in Hx.
    destruct Hx as (r & <- & Hin). rewrite Forall_forall in Hri. specialize (Hri r Hin).
    cbv beta in Hri. lia. }
  split; [apply out_cells_ok; exact H|].
  rewrite s_index_be.
  split.
  - intros ->.
    rewrite flat_be_length, rev_length, out_offsets_length. reflexivity.
  - destruct idx; [apply flat_be_bytes|constructor].
Qed.

End OutL.
