(** C15: the data decoders of every wallet version on ALL well-formed on-chain
    data of that version (any seqno, ids, key, flag and any dictionary of
    plugins / extensions / old queries), not only on the initial data. *)
From Coq Require Import List NArith ZArith Arith Bool Lia Permutation.
From Tongo Require Import Lib.Bits Lib.Res Model.BocParse Model.CellHash Spec.ReprHash Model.Wallet
  Model.WalletSend Proofs.WalletP Proofs.WalletHlP.
From Tongo Require Spec.Dict Model.Hashmap Proofs.HashmapSort Proofs.HashmapP Proofs.HashmapP2.
Import ListNotations.

(* a dictionary as the contract can hold it: distinct keys of the key width,
   every value at least as long as the library's value type reads *)
Definition wf_dict (n vw : nat) (kvs : list (bits * Dict.cell)) : Prop :=
  NoDup (map fst kvs) /\ Dict.keys_len n kvs /\
  Forall (fun kv => match snd kv with Dict.Cell vb _ => (vw <= length vb)%nat end) kvs.

(* the HashmapE field of a data cell: hme_empty$0, or hme_root$1 and a reference
   to the serialised dictionary *)
Definition dict_field (n : nat) (kvs : list (bits * Dict.cell)) (bit : bits) (refs : list cell) : Prop :=
  match kvs with
  | [] => bit = [false] /\ refs = []
  | _ => exists root, Hashmap.encode Hashmap.venc_any n kvs = Ok root /\ bit = [true] /\ refs = [of_dict root]
  end.

Lemma dict_keys_wf n vw kvs bit refs :
  wf_dict n vw kvs -> dict_field n kvs bit refs ->
  dict_keys n vw bit refs = Ok (map fst (Hashmap.bsort kvs)).
Proof.
  intros (Hnd & Hkl & Hv) Hf. unfold dict_keys, dict_field in *. destruct kvs as [|kv kvs'].
  - destruct Hf as (-> & ->). reflexivity.
  - destruct Hf as (root & Hr & -> & ->).
    rewrite (take_all 1) by reflexivity. cbn [bind fst snd nth]. rewrite to_dict_of_dict.
    rewrite (HashmapP.encode_decode_dict Dict.cell Hashmap.venc_any Hashmap.vdec_any HashmapP2.vcodec_any
               n (kv :: kvs') root Hnd Hkl ltac:(discriminate) Hr).
    cbn [bind].
    assert (E : forallb (fun kv0 : bits * Dict.cell =>
                           match snd kv0 with Dict.Cell vb _ => negb (short vw vb) end)
                        (Hashmap.bsort (kv :: kvs')) = true).
    { apply forallb_forall. intros x Hx.
      pose proof (Permutation_Forall (HashmapSort.bsort_perm _ (kv :: kvs')) Hv) as Hv'.
      rewrite Forall_forall in Hv'. specialize (Hv' x Hx). destruct (snd x) as [vb rs].
      rewrite short_spec. apply negb_true_iff, Nat.ltb_ge. exact Hv'. }
    rewrite E. reflexivity.
Qed.

(** every well-formed data cell of a version decodes to its fields; the keys
    come back in ascending bit order *)
Theorem decode_wellformed_data s (a t : N) (pk : bits) (flag : bool) (wid80 : bits) kvs bit refs :
  length pk = 256%nat -> length wid80 = 80%nat ->
  let keys := map fst (Hashmap.bsort kvs) in
  (decode_data V3R1 (ocell (u32 s ++ u32 a ++ pk) []) =
     Ok (mkwd (s mod 4294967296) (a mod 4294967296) pk false 0 []) /\
   decode_data V3R2 (ocell (u32 s ++ u32 a ++ pk) []) =
     Ok (mkwd (s mod 4294967296) (a mod 4294967296) pk false 0 [])) /\
  (wf_dict 264 0 kvs -> dict_field 264 kvs bit refs ->
   decode_data V4R1 (ocell (u32 s ++ u32 a ++ pk ++ bit) refs) =
     Ok (mkwd (s mod 4294967296) (a mod 4294967296) pk false 0 keys) /\
   decode_data V4R2 (ocell (u32 s ++ u32 a ++ pk ++ bit) refs) =
     Ok (mkwd (s mod 4294967296) (a mod 4294967296) pk false 0 keys)) /\
  (wf_dict 256 8 kvs -> dict_field 256 kvs bit refs ->
   decode_data V5Beta (ocell (bits_of 33 s ++ wid80 ++ pk ++ bit) refs) =
     Ok (mkwd (s mod 8589934592) (N_of_bits wid80) pk false 0 keys)) /\
  (wf_dict 256 1 kvs -> dict_field 256 kvs bit refs ->
   decode_data V5R1 (ocell ([flag] ++ u32 s ++ u32 a ++ pk ++ bit) refs) =
     Ok (mkwd (s mod 4294967296) (a mod 4294967296) pk flag 0 keys)) /\
  (wf_dict 64 0 kvs -> dict_field 64 kvs bit refs ->
   decode_data HLV2R2 (ocell (u32 a ++ u64 t ++ pk ++ bit) refs) =
     Ok (mkwd 0 (a mod 4294967296) pk false (t mod 18446744073709551616) keys)).
Proof.
  intros Hpk Hw keys. unfold decode_data. cbn [cdata crefs ocell].
  split; [|split; [|split; [|split]]].
  - split; rewrite (take_app_n 32) by apply u32_len; cbn [bind fst snd];
      rewrite (take_app_n 32) by apply u32_len; cbn [bind fst snd];
      rewrite (take_all 256) by exact Hpk; cbn [bind fst snd]; rewrite !N_u32_mod; reflexivity.
  - intros Hd Hf. split; rewrite (take_app_n 32) by apply u32_len; cbn [bind fst snd];
      rewrite (take_app_n 32) by apply u32_len; cbn [bind fst snd];
      rewrite (take_app_n 256) by exact Hpk; cbn [bind fst snd];
      rewrite (dict_keys_wf _ _ _ _ _ Hd Hf); cbn [bind]; rewrite !N_u32_mod; reflexivity.
  - intros Hd Hf. rewrite (take_app_n 33) by apply bits_of_length. cbn [bind fst snd].
    rewrite (take_app_n 80) by exact Hw. cbn [bind fst snd].
    rewrite (take_app_n 256) by exact Hpk. cbn [bind fst snd].
    rewrite (dict_keys_wf _ _ _ _ _ Hd Hf). cbn [bind]. rewrite N_of_bits_bits_of. reflexivity.
  - intros Hd Hf. rewrite (take_app_n 1) by reflexivity. cbn [bind fst snd].
    rewrite (take_app_n 32) by apply u32_len. cbn [bind fst snd].
    rewrite (take_app_n 32) by apply u32_len. cbn [bind fst snd].
    rewrite (take_app_n 256) by exact Hpk. cbn [bind fst snd].
    rewrite (dict_keys_wf _ _ _ _ _ Hd Hf). cbn [bind nth]. rewrite !N_u32_mod. reflexivity.
  - intros Hd Hf. rewrite (take_app_n 32) by apply u32_len. cbn [bind fst snd].
    rewrite (take_app_n 64) by apply u64_len. cbn [bind fst snd].
    rewrite (take_app_n 256) by exact Hpk. cbn [bind fst snd].
    rewrite (dict_keys_wf _ _ _ _ _ Hd Hf). cbn [bind]. rewrite N_u32_mod.
    unfold u64. rewrite N_of_bits_bits_of. reflexivity.
Qed.

(** hence NextMessageParams' seqno is the stored one on every well-formed data
    cell of a seqno-bearing version *)
Theorem seqno_of_wellformed_data s (a : N) (pk : bits) (flag : bool) (wid80 : bits) kvs bit refs :
  (s < 4294967296)%N -> length pk = 256%nat -> length wid80 = 80%nat ->
  seqno_of_data V3R1 (ocell (u32 s ++ u32 a ++ pk) []) = Ok s /\
  seqno_of_data V3R2 (ocell (u32 s ++ u32 a ++ pk) []) = Ok s /\
  (wf_dict 264 0 kvs -> dict_field 264 kvs bit refs ->
   seqno_of_data V4R1 (ocell (u32 s ++ u32 a ++ pk ++ bit) refs) = Ok s /\
   seqno_of_data V4R2 (ocell (u32 s ++ u32 a ++ pk ++ bit) refs) = Ok s) /\
  (wf_dict 256 8 kvs -> dict_field 256 kvs bit refs ->
   seqno_of_data V5Beta (ocell (bits_of 33 s ++ wid80 ++ pk ++ bit) refs) = Ok s) /\
  (wf_dict 256 1 kvs -> dict_field 256 kvs bit refs ->
   seqno_of_data V5R1 (ocell ([flag] ++ u32 s ++ u32 a ++ pk ++ bit) refs) = Ok s).
Proof.
  intros Hs Hpk Hw.
  destruct (decode_wellformed_data s a 0 pk flag wid80 kvs bit refs Hpk Hw) as ((D1 & D2) & D4 & D5b & D5 & _).
  unfold seqno_of_data.
  assert (M : (s mod 4294967296 = s)%N) by (apply N.mod_small; exact Hs).
  split; [rewrite D1; cbn [bind wd_seqno]; rewrite M; reflexivity|].
  split; [rewrite D2; cbn [bind wd_seqno]; rewrite M; reflexivity|].
  split; [|split].
  - intros Hd Hf. destruct (D4 Hd Hf) as (E1 & E2). rewrite E1, E2. cbn [bind wd_seqno]. rewrite M. auto.
  - intros Hd Hf. rewrite (D5b Hd Hf). cbn [bind wd_seqno].
    rewrite (N.mod_small s 8589934592) by lia. rewrite M. reflexivity.
  - intros Hd Hf. rewrite (D5 Hd Hf). cbn [bind wd_seqno]. rewrite M. reflexivity.
Qed.
