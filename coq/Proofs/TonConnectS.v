(** C19 — the payload is bound to the server's FULL secret: GeneratePayload / CheckPayload
    round trip, rejection of payloads made under any other key. *)
From Coq Require Import String Ascii List NArith ZArith Bool Lia.
From Tongo Require Import Lib.Bits Lib.Res Model.TonConnect Proofs.TonConnectP Proofs.TonConnectQ Proofs.TonConnectA.
Import ListNotations.
Local Open Scope Z_scope.

Definition is_byte (x : N) : Prop := (x < 256)%N.

Lemma nib_hexdigit n : (n < 16)%N -> nib (hexdigit n) = Some n.
Proof.
  intros Hn.
  assert (Hc : (n = 0 \/ n = 1 \/ n = 2 \/ n = 3 \/ n = 4 \/ n = 5 \/ n = 6 \/ n = 7 \/ n = 8 \/ n = 9 \/
               n = 10 \/ n = 11 \/ n = 12 \/ n = 13 \/ n = 14 \/ n = 15)%N) by lia.
  repeat (destruct Hc as [Hc|Hc]; [subst n; reflexivity | ]). subst. reflexivity.
Qed.

Lemma hex_roundtrip l : Forall is_byte l -> hex_decode (hex_encode l) = Some l.
Proof.
  induction 1 as [|x l Hx _ IH]; [reflexivity|]. unfold is_byte in Hx.
  cbn [hex_encode hex_decode].
  rewrite nib_hexdigit by (apply N.div_lt_upper_bound; lia).
  rewrite nib_hexdigit by (apply N.mod_upper_bound; lia).
  rewrite IH. f_equal. f_equal. symmetry. apply N.div_mod. lia.
Qed.

Lemma Forall_firstn' {A} (P : A -> Prop) n : forall l, Forall P l -> Forall P (firstn n l).
Proof.
  induction n as [|n IH]; intros l Hl; [constructor|].
  destruct Hl as [|x l Hx Hl]; cbn; [constructor|]. constructor; auto.
Qed.

Lemma mid8 {A} (a b c : list A) :
  length a = 8%nat -> length b = 8%nat -> firstn 8 (skipn 8 ((a ++ b) ++ c)) = b.
Proof.
  intros Ha Hb. rewrite <- app_assoc, skipn_app, Ha, Nat.sub_diag. rewrite skipn_all2 by lia.
  cbn [app skipn]. rewrite firstn_app, Hb, Nat.sub_diag. rewrite firstn_all2 by lia.
  cbn [firstn]. apply app_nil_r.
Qed.

Lemma le64_bytes z : Forall is_byte (le64 z).
Proof. unfold le64. repeat constructor; apply byte_at_lt. Qed.
Lemma be64_bytes z : Forall is_byte (be64 z).
Proof. unfold be64. apply Forall_rev. apply le64_bytes. Qed.
Lemma be64_length z : length (be64 z) = 8%nat.
Proof. unfold be64. rewrite rev_length. reflexivity. Qed.

Lemma u64_digits u : 0 <= u < 18446744073709551616 ->
  ((((((((u / 72057594037927936) mod 256 * 256 + (u / 281474976710656) mod 256) * 256 +
        (u / 1099511627776) mod 256) * 256 + (u / 4294967296) mod 256) * 256 +
      (u / 16777216) mod 256) * 256 + (u / 65536) mod 256) * 256 + (u / 256) mod 256) * 256 + (u / 1) mod 256) = u.
Proof. intros Hu. Z.div_mod_to_equations. lia. Qed.

Lemma be_val_be64 z : be_val (be64 z) = z mod 2 ^ 64.
Proof.
  unfold be64, le64, be_val. cbn [rev app fold_left]. unfold byte_at.
  set (u := z mod 2 ^ 64). assert (Hu : 0 <= u < 2 ^ 64) by (apply Z.mod_pos_bound; lia).
  rewrite !Z2N.id by (apply Z.mod_pos_bound; lia).
  change (2 ^ (8 * 7)) with 72057594037927936. change (2 ^ (8 * 6)) with 281474976710656.
  change (2 ^ (8 * 5)) with 1099511627776. change (2 ^ (8 * 4)) with 4294967296.
  change (2 ^ (8 * 3)) with 16777216. change (2 ^ (8 * 2)) with 65536.
  change (2 ^ (8 * 1)) with 256. change (2 ^ (8 * 0)) with 1.
  change (2 ^ 64) with 18446744073709551616 in Hu.
  rewrite Z.mul_0_l, Z.add_0_l. apply u64_digits. exact Hu.
Qed.

Section Payload.
  Variable hmac : bytes -> bytes -> bytes.
  Hypothesis hmac_bytes : forall k m, Forall is_byte (hmac k m).
  Hypothesis hmac_len : forall k m, (16 <= length (hmac k m))%nat.

  Definition payload_body (nonce : bytes) (lifetime now : Z) : bytes := nonce ++ be64 ((now + lifetime) / giga).

  (* CheckPayload (any server s2, any clock) on the payload GeneratePayload made under s1 *)
  Theorem check_generated_payload s1 s2 nonce lt1 now1 lt2 now2 :
    length nonce = 8%nat -> Forall is_byte nonce ->
    let body := payload_body nonce lt1 now1 in
    check_payload hmac s2 lt2 now2 (generate_payload hmac s1 nonce lt1 now1) =
      if beqb (firstn 16 (hmac s1 body)) (firstn 16 (hmac s2 body))
      then Ok (negb (expired now2 (to_int64 (((now1 + lt1) / giga) mod 2 ^ 64)) lt2))
      else Ok false.
  Proof.
    intros Hn Hb body. unfold generate_payload. fold (payload_body nonce lt1 now1). fold body.
    assert (Hlb : length body = 16%nat).
    { unfold body, payload_body. rewrite app_length, be64_length. lia. }
    assert (Hf : firstn 32 (body ++ hmac s1 body) = body ++ firstn 16 (hmac s1 body)).
    { rewrite firstn_app, Hlb. rewrite firstn_all2 by lia. reflexivity. }
    rewrite Hf. unfold check_payload. rewrite hex_roundtrip.
    2:{ apply Forall_app. split.
        - unfold body, payload_body. apply Forall_app. split; [exact Hb|apply be64_bytes].
        - apply Forall_firstn'. apply hmac_bytes. }
    assert (Hl1 : length (firstn 16 (hmac s1 body)) = 16%nat).
    { rewrite firstn_length. specialize (hmac_len s1 body). lia. }
    rewrite app_length, Hlb, Hl1. cbn [Nat.add Nat.eqb negb].
    change (Nat.eqb 32 32) with true. cbn [negb].
    assert (Hfb : firstn 16 (body ++ firstn 16 (hmac s1 body)) = body).
    { rewrite firstn_app, Hlb. rewrite firstn_all2 by lia. cbn. apply app_nil_r. }
    rewrite Hfb.
    assert (Hl2 : (length (hmac s2 body) <? 16)%nat = false) by (apply Nat.ltb_ge; apply hmac_len).
    rewrite Hl2.
    assert (Hsk : skipn 16 (body ++ firstn 16 (hmac s1 body)) = firstn 16 (hmac s1 body)).
    { rewrite skipn_app, Hlb. rewrite skipn_all2 by lia. reflexivity. }
    rewrite Hsk. destruct (beqb _ _); cbn [negb]; [|reflexivity].
    assert (Hts : firstn 8 (skipn 8 (body ++ firstn 16 (hmac s1 body))) = be64 ((now1 + lt1) / giga)).
    { unfold body, payload_body. apply mid8; [exact Hn|apply be64_length]. }
    rewrite Hts, be_val_be64. reflexivity.
  Qed.

  (* a payload issued under another key is rejected: the only thing that can make a foreign
     payload pass is a collision of the truncated MACs *)
  Corollary payload_of_other_secret_rejected s1 s2 nonce lt1 now1 lt2 now2 :
    length nonce = 8%nat -> Forall is_byte nonce ->
    firstn 16 (hmac s1 (payload_body nonce lt1 now1)) <> firstn 16 (hmac s2 (payload_body nonce lt1 now1)) ->
    check_payload hmac s2 lt2 now2 (generate_payload hmac s1 nonce lt1 now1) = Ok false.
  Proof.
    intros Hn Hb Hd. rewrite check_generated_payload by assumption. cbv zeta.
    rewrite beqb_neq by exact Hd. reflexivity.
  Qed.

  (* own payloads are accepted for [lifetime] seconds, whatever the secret (any length) *)
  Corollary generated_payload_accepted s nonce lt now1 now2 :
    length nonce = 8%nat -> Forall is_byte nonce ->
    0 <= lt <= 9223372036 -> 0 <= now1 -> now1 + lt < 2 ^ 33 * giga -> 0 <= now2 < 2 ^ 33 * giga ->
    now2 <= ((now1 + lt) / giga + lt) * giga ->
    check_payload hmac s lt now2 (generate_payload hmac s nonce lt now1) = Ok true.
  Proof.
    intros Hn Hb Hl H1 H1b H2 Hle. rewrite check_generated_payload by assumption. cbv zeta.
    rewrite beqb_refl.
    assert (Ht : 0 <= (now1 + lt) / giga < 2 ^ 33).
    { unfold giga in *. split; [apply Z.div_pos; lia|apply Z.div_lt_upper_bound; lia]. }
    rewrite Z.mod_small by (change (2 ^ 33) with 8589934592 in Ht; change (2 ^ 64) with 18446744073709551616; lia).
    unfold to_int64. replace ((now1 + lt) / giga <? 2 ^ 63) with true
      by (symmetry; apply Z.ltb_lt; change (2 ^ 33) with 8589934592 in Ht; change (2 ^ 63) with 9223372036854775808; lia).
    rewrite expired_spec by (auto; lia).
    replace (now2 >? ((now1 + lt) / giga + lt) * giga) with false; [reflexivity|].
    symmetry. rewrite Z.gtb_ltb. apply Z.ltb_ge. exact Hle.
  Qed.

  (* ... and for no longer: more than [lt] seconds (+ the [lt] nanoseconds GeneratePayload adds)
     after it was issued the payload is rejected — the lifetime is counted once *)
  Corollary generated_payload_rejected_after_lifetime s nonce lt now1 now2 :
    length nonce = 8%nat -> Forall is_byte nonce ->
    0 <= lt <= 9223372036 -> 0 <= now1 -> now1 + lt < 2 ^ 33 * giga -> 0 <= now2 < 2 ^ 33 * giga ->
    now1 + lt + lt * giga < now2 ->
    check_payload hmac s lt now2 (generate_payload hmac s nonce lt now1) = Ok false.
  Proof.
    intros Hn Hb Hl H1 H1b H2 Hgt. rewrite check_generated_payload by assumption. cbv zeta.
    rewrite beqb_refl.
    assert (Ht : 0 <= (now1 + lt) / giga < 2 ^ 33).
    { unfold giga in *. split; [apply Z.div_pos; lia|apply Z.div_lt_upper_bound; lia]. }
    assert (Hfl : (now1 + lt) / giga * giga <= now1 + lt).
    { unfold giga. pose proof (Z.mul_div_le (now1 + lt) 1000000000 ltac:(lia)). lia. }
    rewrite Z.mod_small by (change (2 ^ 33) with 8589934592 in Ht; change (2 ^ 64) with 18446744073709551616; lia).
    unfold to_int64. replace ((now1 + lt) / giga <? 2 ^ 63) with true
      by (symmetry; apply Z.ltb_lt; change (2 ^ 33) with 8589934592 in Ht; change (2 ^ 63) with 9223372036854775808; lia).
    rewrite expired_spec by (auto; lia).
    replace (now2 >? ((now1 + lt) / giga + lt) * giga) with true; [reflexivity|].
    symmetry. rewrite Z.gtb_ltb. apply Z.ltb_lt. lia.
  Qed.
End Payload.

(** * The payload text is exactly 64 hexadecimal digits: nothing may follow or precede them *)
Definition is_hex_digit (c : N) : Prop := nib c <> None.

Lemma hex_decode_all_hex h : forall b, hex_decode h = Some b -> Forall is_hex_digit h.
Proof.
  induction h as [| a | a c t IH] using pair_ind; intros b Hd.
  - constructor.
  - discriminate.
  - cbn [hex_decode] in Hd.
    destruct (nib a) eqn:Ea; [|discriminate]. destruct (nib c) eqn:Ec; [|discriminate].
    destruct (hex_decode t) as [r|] eqn:Et; [|discriminate].
    constructor; [unfold is_hex_digit; congruence|]. constructor; [unfold is_hex_digit; congruence|].
    eapply IH. reflexivity.
Qed.

Theorem accepted_payload_text_exact hmac secret lifetime now payload :
  check_payload hmac secret lifetime now payload = Ok true ->
  length payload = 64%nat /\ Forall is_hex_digit payload.
Proof.
  intros Hc. apply check_payload_accept_inv in Hc as (b & Hh & Hl & _).
  split.
  - rewrite (hex_decode_length _ _ Hh), Hl. reflexivity.
  - eapply hex_decode_all_hex. exact Hh.
Qed.

(* a genuine payload followed (or preceded) by anything is rejected *)
Corollary payload_with_tail_rejected hmac secret lifetime now payload tail :
  length payload = 64%nat -> tail <> [] ->
  check_payload hmac secret lifetime now (payload ++ tail) <> Ok true /\
  check_payload hmac secret lifetime now (tail ++ payload) <> Ok true.
Proof.
  intros Hl Ht. split; intros Hc; apply accepted_payload_text_exact in Hc as [Hlen _];
    rewrite app_length, Hl in Hlen; destruct tail; [contradiction|cbn in Hlen; lia|contradiction|cbn in Hlen; lia].
Qed.
