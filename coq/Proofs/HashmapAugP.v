(** Proofs about Model/HashmapAug.v: counting leaves with the size-only label
    parser agrees with the number of entries for every valid dictionary (plain
    or augmented) with ANY label form per edge; decoding an augmented dictionary
    returns its mapping; CloneKeepingSubsetOfKeys is the restriction of the
    mapping to the requested keys. *)
From Coq Require Import List NArith Arith Lia Bool Sorted Permutation.
From Tongo Require Import Lib.Bits Lib.Res Spec.Dict Spec.DictAug Model.Hashmap Model.HashmapAug
  Proofs.DictP Proofs.HashmapPut Proofs.HashmapSort Proofs.HashmapP.
Import ListNotations.

Lemma ttl_length {V} (t : pt V) p : length (tree_to_list p t) = length (tree_to_list [] t).
Proof. rewrite (ttl_prefix V t p). apply addp_length. Qed.

(** ** countLeafs *)
Section Count.
Variable V : Type.
Variable venc : V -> bits * list cell.

Lemma count_fork_step m lbl rest (lc rc : cell) refs :
  (length lbl < m)%nat ->
  forall f,
  count_leafs m (Cell (enc_label f m lbl ++ rest) (lc :: rc :: refs)) =
    (do a <- count_leafs (m - length lbl - 1) lc;
     do b <- count_leafs (m - length lbl - 1) rc; Ok (a + b)%N).
Proof.
  intros Hlen f. cbn [count_leafs].
  rewrite load_label_size_enc by lia. cbn [bind fst].
  replace (N.of_nat (length lbl) <? N.of_nat m)%N with true by (symmetry; apply N.ltb_lt; lia).
  rewrite Nat2N.id.
  replace (m - (1 + length lbl))%nat with (m - length lbl - 1)%nat by lia. reflexivity.
Qed.

Lemma count_leaf_step m lbl rest refs f :
  length lbl = m -> count_leafs m (Cell (enc_label f m lbl ++ rest) refs) = Ok 1%N.
Proof.
  intros Hlen. cbn [count_leafs].
  rewrite load_label_size_enc by lia. cbn [bind fst].
  replace (N.of_nat (length lbl) <? N.of_nat m)%N with false by (symmetry; apply N.ltb_ge; lia).
  reflexivity.
Qed.

Theorem count_leafs_cells (t : apt V) : forall m c,
  wf_pt m (erase t) -> cells_of venc m t = Ok c ->
  count_leafs m c = Ok (N.of_nat (length (tree_to_list [] (erase t)))).
Proof.
  induction t as [f lbl v|f lbl l IHl r IHr]; intros m c Hwf Hc.
  - cbn [cells_of] in Hc. apply mk_cell_ok in Hc. subst c. cbn [erase wf_pt] in Hwf.
    apply count_leaf_step. exact Hwf.
  - cbn [cells_of] in Hc.
    apply bind_ok in Hc. destruct Hc as (lc & Hlc & Hc).
    apply bind_ok in Hc. destruct Hc as (rc & Hrc & Hc).
    apply mk_cell_ok in Hc. subst c. cbn [erase wf_pt] in Hwf.
    destruct Hwf as (Hlen & Hwl & Hwr).
    pose proof (count_fork_step m lbl [] lc rc [] Hlen f) as E. rewrite app_nil_r in E. rewrite E. clear E.
    rewrite (IHl _ _ Hwl Hlc). cbn [bind]. rewrite (IHr _ _ Hwr Hrc). cbn [bind].
    cbn [erase tree_to_list app]. rewrite app_length.
    rewrite (ttl_length (erase l) (lbl ++ [false])), (ttl_length (erase r) (lbl ++ [true])). f_equal. lia.
Qed.

(* hashmapAugExtraCountLeafs on a HashmapE *)
Theorem count_leafs_e_cells n (t : option (apt V)) c :
  (forall a, t = Some a -> wf_pt n (erase a)) ->
  cells_of_e venc n t = Ok c ->
  count_leafs_e n c =
    Ok (N.of_nat (length (match t with Some a => tree_to_list [] (erase a) | None => [] end))).
Proof.
  intros Hw Hc. destruct t as [a|]; cbn [cells_of_e] in Hc.
  - apply bind_ok in Hc. destruct Hc as (c' & Hc' & Hc). apply mk_cell_ok in Hc. subst c.
    cbn [count_leafs_e]. apply count_leafs_cells; auto.
  - apply mk_cell_ok in Hc. subst c. reflexivity.
Qed.
End Count.

(** ** augmented dictionaries *)
Section AugP.
Variables X V : Type.
Variable venc : V -> bits * list cell.
Variable vdec : bits -> list cell -> option V.
Variable xenc : X -> bits * list cell.
Variable xdec : bits -> list cell -> option (X * bits * list cell).
Hypothesis vcodec : forall v, vdec (fst (venc v)) (snd (venc v)) = Some v.
(* the extra is followed by something: prefix law *)
Hypothesis xcodec : forall x b r,
  xdec (fst (xenc x) ++ b) (snd (xenc x) ++ r) = Some (x, b, r).

Theorem count_leafs_cells_aug (t : aapt X V) : forall m c,
  wf_pt m (erase_aug t) -> cells_of_aug venc xenc m t = Ok c ->
  count_leafs m c = Ok (N.of_nat (length (tree_to_list [] (erase_aug t)))).
Proof.
  induction t as [f lbl x v|f lbl x l IHl r IHr]; intros m c Hwf Hc.
  - cbn [cells_of_aug] in Hc. apply mk_cell_ok in Hc. subst c. cbn [erase_aug wf_pt] in Hwf.
    apply count_leaf_step. exact Hwf.
  - cbn [cells_of_aug] in Hc.
    apply bind_ok in Hc. destruct Hc as (lc & Hlc & Hc).
    apply bind_ok in Hc. destruct Hc as (rc & Hrc & Hc).
    apply mk_cell_ok in Hc. subst c. cbn [erase_aug wf_pt] in Hwf.
    destruct Hwf as (Hlen & Hwl & Hwr).
    rewrite count_fork_step by exact Hlen.
    rewrite (IHl _ _ Hwl Hlc). cbn [bind]. rewrite (IHr _ _ Hwr Hrc). cbn [bind].
    cbn [erase_aug tree_to_list app]. rewrite app_length.
    rewrite (ttl_length (erase_aug l) (lbl ++ [false])), (ttl_length (erase_aug r) (lbl ++ [true])). f_equal. lia.
Qed.

Lemma map_inner_aug_cells (t : aapt X V) : forall N m prefix c,
  wf_pt m (erase_aug t) -> forms_valid_aug t -> (length prefix + m = N)%nat ->
  cells_of_aug venc xenc m t = Ok c ->
  map_inner_aug vdec xdec N m c prefix = Ok (tree_to_list prefix (erase_aug t)).
Proof.
  induction t as [f lbl x v|f lbl x l IHl r IHr]; intros N m prefix c Hwf Hfv HN Hc.
  - cbn [cells_of_aug] in Hc. apply mk_cell_ok in Hc. subst c.
    cbn [erase_aug wf_pt forms_valid_aug] in *. cbn [map_inner_aug].
    rewrite load_label_enc by (auto; lia). cbn [bind].
    replace (length (prefix ++ lbl) <? N)%nat with false
      by (symmetry; apply Nat.ltb_ge; rewrite app_length; lia).
    rewrite xcodec. rewrite vcodec.
    rewrite firstn_all2 by (rewrite app_length; lia). reflexivity.
  - cbn [cells_of_aug] in Hc.
    apply bind_ok in Hc. destruct Hc as (lc & Hlc & Hc).
    apply bind_ok in Hc. destruct Hc as (rc & Hrc & Hc).
    apply mk_cell_ok in Hc. subst c.
    cbn [erase_aug wf_pt forms_valid_aug] in *.
    destruct Hwf as (Hlen & Hwl & Hwr). destruct Hfv as (Hf & Hfl & Hfr).
    cbn [map_inner_aug].
    rewrite load_label_enc by (auto; lia). cbn [bind].
    replace (length (prefix ++ lbl) <? N)%nat with true
      by (symmetry; apply Nat.ltb_lt; rewrite app_length; lia).
    replace (m - (1 + length lbl))%nat with (m - length lbl - 1)%nat by lia.
    rewrite (IHl N (m - length lbl - 1)%nat ((prefix ++ lbl) ++ [false]) lc); auto;
      [|rewrite !app_length; cbn [length]; lia].
    cbn [bind].
    rewrite (IHr N (m - length lbl - 1)%nat ((prefix ++ lbl) ++ [true]) rc); auto;
      [|rewrite !app_length; cbn [length]; lia].
    cbn [bind].
    rewrite <- (app_nil_r (fst (xenc x))), <- (app_nil_r (snd (xenc x))). rewrite xcodec.
    cbn [tree_to_list]. rewrite <- !app_assoc. reflexivity.
Qed.

Theorem decode_aug_e_any_label_form n (t : option (aapt X V)) (x : X) c :
  (forall a, t = Some a -> wf_pt n (erase_aug a) /\ forms_valid_aug a) ->
  cells_of_aug_e venc xenc n t x = Ok c ->
  decode_aug_e vdec xdec n c =
    Ok (match t with Some a => tree_to_list [] (erase_aug a) | None => [] end) /\
  count_leafs_e n c =
    Ok (N.of_nat (length (match t with Some a => tree_to_list [] (erase_aug a) | None => [] end))).
Proof.
  intros Hw Hc. destruct t as [a|]; cbn [cells_of_aug_e] in Hc.
  - apply bind_ok in Hc. destruct Hc as (c' & Hc' & Hc). apply mk_cell_ok in Hc. subst c.
    destruct (Hw a eq_refl) as [Hwf Hfv]. split.
    + cbn [decode_aug_e]. rewrite (map_inner_aug_cells a n n [] c'); auto. cbn [bind].
      rewrite <- (app_nil_r (fst (xenc x))), <- (app_nil_r (snd (xenc x))). rewrite xcodec. reflexivity.
    + cbn [count_leafs_e]. apply count_leafs_cells_aug; auto.
  - apply mk_cell_ok in Hc. subst c. split; [|reflexivity].
    cbn [decode_aug_e].
    rewrite <- (app_nil_r (fst (xenc x))), <- (app_nil_r (snd (xenc x))). rewrite xcodec. reflexivity.
Qed.
End AugP.

(** ** CloneKeepingSubsetOfKeys *)
Section Clone.
Variable V : Type.
Notation amap := (list (bits * V)).

Lemma clone_in m (keys : list bits) (x : bits * V) :
  In x (clone_subset keys m) <-> In x m /\ existsb (bits_eqb (fst x)) keys = true.
Proof. unfold clone_subset. apply filter_In. Qed.

Lemma clone_sorted keys (m : amap) : sorted m -> sorted (clone_subset keys m).
Proof.
  unfold sorted, clone_subset. induction 1 as [|a t Hs IH Hall]; cbn [filter]; [constructor|].
  destruct (existsb (bits_eqb (fst a)) keys); [|exact IH].
  constructor; [exact IH|].
  apply Forall_forall. intros y Hy. apply filter_In in Hy. destruct Hy as [Hy _].
  rewrite Forall_forall in Hall. apply Hall. exact Hy.
Qed.

Lemma clone_keys_len n keys (m : amap) : keys_len n m -> keys_len n (clone_subset keys m).
Proof.
  unfold keys_len. intros H. rewrite Forall_forall in *. intros x Hx.
  apply clone_in in Hx. apply H. exact (proj1 Hx).
Qed.

Lemma existsb_eqb_sym k k0 (keys : list bits) :
  bits_eqb k0 k = true -> existsb (bits_eqb k0) keys = existsb (bits_eqb k) keys.
Proof. intros H. apply bits_eqb_eq in H. subst. reflexivity. Qed.

Lemma clone_lookup keys (m : amap) k :
  lookup k (clone_subset keys m) = if existsb (bits_eqb k) keys then lookup k m else None.
Proof.
  unfold clone_subset. induction m as [|[k0 v0] t IH]; cbn [filter lookup fst].
  - destruct (existsb (bits_eqb k) keys); reflexivity.
  - destruct (existsb (bits_eqb k0) keys) eqn:E0; cbn [lookup].
    + destruct (bits_eqb k0 k) eqn:Ek; [|exact IH].
      rewrite <- (existsb_eqb_sym k k0 keys Ek), E0. reflexivity.
    + destruct (bits_eqb k0 k) eqn:Ek; [|exact IH].
      rewrite IH. rewrite <- (existsb_eqb_sym k k0 keys Ek), E0. reflexivity.
Qed.

(** the clone is the restriction of the mapping, again an ascending list, and the
    source is not an output of the operation (it is what it was) *)
Theorem clone_subset_spec n keys (m : amap) :
  sorted m -> keys_len n m ->
  sorted (clone_subset keys m) /\ keys_len n (clone_subset keys m) /\
  (forall k, lookup k (clone_subset keys m) =
             if existsb (bits_eqb k) keys then lookup k m else None) /\
  (forall x, In x (clone_subset keys m) <-> In x m /\ existsb (bits_eqb (fst x)) keys = true).
Proof.
  intros Hs Hl. split; [apply clone_sorted; exact Hs|]. split; [apply clone_keys_len; exact Hl|].
  split; [apply clone_lookup|apply clone_in].
Qed.
End Clone.
