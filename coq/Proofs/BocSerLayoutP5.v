(** C01 — round trip of the serialiser model, part 5: unfolding of cell arrays to
    trees as a relation ([unf], fuel-free view of BocParseP.unfold_at) and the
    theorem that every entry of the import array is emitted at a position that
    unfolds to the same tree as its input cell, provided equal hashes mean equal
    trees on the cells reachable from the roots. *)
From Coq Require Import List NArith ZArith Arith Bool Lia Permutation.
From Tongo Require Import Lib.Bits Lib.Res Model.BocParse Model.CellHash Model.BocSer Spec.BocLayout
  Proofs.BocParseP Proofs.BocLayoutP
  Proofs.BocReorderP1 Proofs.BocReorderP2 Proofs.BocReorderP3 Proofs.BocReorderP4
  Proofs.BocSerLayoutP1 Proofs.BocSerLayoutP2 Proofs.BocSerLayoutP3 Proofs.BocSerLayoutP4.
Import ListNotations.

(** *** [unfold_at] without the nested loop *)
Fixpoint omap {A B} (g : A -> option B) (l : list A) : option (list B) :=
  match l with
  | [] => Some []
  | a :: t => match g a, omap g t with Some x, Some xs => Some (x :: xs) | _, _ => None end
  end.

Lemma unfold_at_S f cells i :
  unfold_at (S f) cells i =
  match nth_error cells i with
  | None => None
  | Some c =>
      match omap (unfold_at f cells) (n_refs c) with
      | Some ts => Some (T (n_special c) (n_type c) (n_mask c) (n_bits c) ts)
      | None => None
      end
  end.
Proof.
  cbn [unfold_at]. destruct (nth_error cells i) as [c|]; [|reflexivity].
  match goal with |- match ?G (n_refs c) with _ => _ end = _ =>
    assert (HG : forall rs, G rs = omap (unfold_at f cells) rs) end.
  { induction rs as [|r t IH]; [reflexivity|]. cbn [omap]. rewrite <- IH. reflexivity. }
  rewrite HG. reflexivity.
Qed.

Lemma omap_Forall2 {A B} (g : A -> option B) : forall l ts,
  omap g l = Some ts <-> Forall2 (fun a x => g a = Some x) l ts.
Proof.
  induction l as [|a t IH]; intros ts; cbn [omap].
  - split; [intros E; injection E as <-; constructor|intros H; inversion H; reflexivity].
  - split.
    + destruct (g a) as [x|] eqn:Ea; [|discriminate].
      destruct (omap g t) as [xs|] eqn:Et; [|discriminate].
      intros E. injection E as <-. constructor; [exact Ea|]. apply IH. reflexivity.
    + intros H. inversion H as [|? x ? xs Ha Ht]; subst. rewrite Ha.
      apply IH in Ht. rewrite Ht. reflexivity.
Qed.

Lemma unfold_mono : forall f cells i t,
  unfold_at f cells i = Some t -> forall f', f <= f' -> unfold_at f' cells i = Some t.
Proof.
  induction f as [|f IH]; intros cells i t E f' Hf; [discriminate|].
  destruct f' as [|f']; [lia|]. rewrite unfold_at_S in E |- *.
  destruct (nth_error cells i) as [c|]; [|discriminate].
  destruct (omap (unfold_at f cells) (n_refs c)) as [ts|] eqn:Eo; [|discriminate].
  injection E as <-.
  assert (Eo' : omap (unfold_at f' cells) (n_refs c) = Some ts).
  { apply omap_Forall2. apply omap_Forall2 in Eo.
    induction Eo as [|a x l xs Ha _ IHl]; constructor; [|exact IHl].
    apply (IH _ _ _ Ha). lia. }
  rewrite Eo'. reflexivity.
Qed.

Lemma Forall2_impl {A B} (P Q : A -> B -> Prop) l l' :
  (forall a b, P a b -> Q a b) -> Forall2 P l l' -> Forall2 Q l l'.
Proof. intros HPQ H. induction H; constructor; auto. Qed.

Definition unf (cells : list node) (i : nat) (t : tree) : Prop :=
  exists f, unfold_at f cells i = Some t.

Lemma unf_fun cells i t t' : unf cells i t -> unf cells i t' -> t = t'.
Proof.
  intros [f E] [f' E'].
  pose proof (unfold_mono _ _ _ _ E (Nat.max f f') ltac:(lia)) as A.
  pose proof (unfold_mono _ _ _ _ E' (Nat.max f f') ltac:(lia)) as B.
  rewrite A in B. injection B as B. exact B.
Qed.

Lemma unf_intro cells i c ts :
  nth_error cells i = Some c -> Forall2 (unf cells) (n_refs c) ts ->
  unf cells i (T (n_special c) (n_type c) (n_mask c) (n_bits c) ts).
Proof.
  intros Ec HF.
  assert (HF' : exists F, Forall2 (fun a x => unfold_at F cells a = Some x) (n_refs c) ts).
  { induction HF as [|a x l xs [f Ha] _ [F IHl]]; [exists 0; constructor|].
    exists (Nat.max f F). constructor.
    - apply (unfold_mono _ _ _ _ Ha). lia.
    - eapply Forall2_impl; [|exact IHl]. intros a' x' E. cbv beta in E |- *. apply (unfold_mono _ _ _ _ E). lia. }
  destruct HF' as [F HF']. exists (S F). rewrite unfold_at_S, Ec.
  apply omap_Forall2 in HF'. rewrite HF'. reflexivity.
Qed.

Lemma unf_inv cells i t :
  unf cells i t ->
  exists c ts, nth_error cells i = Some c /\
               t = T (n_special c) (n_type c) (n_mask c) (n_bits c) ts /\
               Forall2 (unf cells) (n_refs c) ts.
Proof.
  intros [f E]. destruct f as [|f]; [discriminate|]. rewrite unfold_at_S in E.
  destruct (nth_error cells i) as [c|]; [|discriminate].
  destruct (omap (unfold_at f cells) (n_refs c)) as [ts|] eqn:Eo; [|discriminate].
  injection E as <-. exists c, ts. split; [reflexivity|]. split; [reflexivity|].
  apply omap_Forall2 in Eo. eapply Forall2_impl; [|exact Eo].
  intros a x Ha. exists f. exact Ha.
Qed.

Lemma unf_total cells i : dag_wf cells -> i < length cells -> exists t, unf cells i t.
Proof.
  intros Hwf Hi. pose proof (unfold_total cells Hwf (length cells) i Hi ltac:(lia)) as H.
  destruct (unfold_at (length cells) cells i) as [t|] eqn:E; [|contradiction].
  exists t, (length cells). exact E.
Qed.

(* the canonical fuel *)
Lemma unf_full cells i t : dag_wf cells -> i < length cells ->
  unf cells i t -> unfold_at (length cells) cells i = Some t.
Proof.
  intros Hwf Hi Hu. pose proof (unfold_total cells Hwf (length cells) i Hi ltac:(lia)) as H.
  destruct (unfold_at (length cells) cells i) as [t'|] eqn:E; [|contradiction].
  f_equal. apply (unf_fun cells i); [exists (length cells); exact E|exact Hu].
Qed.

(** *** Forall2 helpers *)
Lemma Forall2_comp {A B C} (P : A -> B -> Prop) (Q : B -> C -> Prop) (S : A -> C -> Prop) :
  forall l1 l2 l3,
  Forall2 P l1 l2 -> Forall2 Q l2 l3 ->
  (forall a b c, In a l1 -> In b l2 -> P a b -> Q b c -> S a c) -> Forall2 S l1 l3.
Proof.
  intros l1 l2 l3 H1. revert l3. induction H1 as [|a b l1 l2 Hab _ IH]; intros l3 H2 HS.
  - inversion H2. constructor.
  - inversion H2 as [|? c ? l3' Hbc H2']; subst. constructor.
    + apply (HS a b c); [left; reflexivity|left; reflexivity|exact Hab|exact Hbc].
    + apply IH; [exact H2'|]. intros a' b' c' Ha' Hb'. apply HS; right; assumption.
Qed.

Lemma Forall2_map_left {A B C} (f : A -> B) (S : B -> C -> Prop) l ts :
  Forall2 (fun a t => S (f a) t) l ts -> Forall2 S (map f l) ts.
Proof. intros H. induction H; cbn [map]; constructor; assumption. Qed.

Lemma Forall2_In_r {A B} (P : A -> B -> Prop) l l' b :
  Forall2 P l l' -> In b l' -> exists a, In a l /\ P a b.
Proof.
  intros H. induction H as [|x y l l' Hxy _ IH]; intros Hin; [destruct Hin|].
  destruct Hin as [<-|Hin]; [exists x; split; [left; reflexivity|exact Hxy]|].
  destruct (IH Hin) as (a & Ha & Hp). exists a. split; [right; exact Ha|exact Hp].
Qed.

Lemma Forall2_In_l {A B} (P : A -> B -> Prop) l l' a :
  Forall2 P l l' -> In a l -> exists b, In b l' /\ P a b.
Proof.
  intros H. induction H as [|x y l l' Hxy _ IH]; intros Hin; [destruct Hin|].
  destruct Hin as [<-|Hin]; [exists y; split; [left; reflexivity|exact Hxy]|].
  destruct (IH Hin) as (b & Hb & Hp). exists b. split; [right; exact Hb|exact Hp].
Qed.

(** *** emitted positions unfold to the trees of the input cells *)
Section RT.
Variable dag : list node.
Variable hashes : list (res bytes).
Variable roots : list nat.
Hypothesis Hwf : dag_wf dag.

(* no hash collision on the cells reachable from the roots *)
Definition collision_free : Prop :=
  forall a b h, dreach dag roots a -> dreach dag roots b ->
  hash_of hashes a h -> hash_of hashes b h -> forall t, unf dag a t -> unf dag b t.

Hypothesis Hcf : collision_free.

Lemma dreach_lt c : Forall (fun r => r < length dag) roots -> dreach dag roots c -> c < length dag.
Proof.
  intros Hr H. induction H as [r Hin|i c _ IH Hc].
  - rewrite Forall_forall in Hr. apply Hr. exact Hin.
  - unfold drefs in Hc. destruct (nth_error dag i) as [nd|] eqn:E; [|destruct Hc].
    pose proof (dag_wf_nth _ _ 0 i nd Hwf E) as (_ & _ & Hf). rewrite Forall_forall in Hf.
    specialize (Hf c Hc). cbv beta in Hf. lia.
Qed.

Theorem emitted_same_tree (P Q : Prop) st0 m stf nl cells :
  IS2 dag hashes (dreach dag roots) P Q st0 m -> reorder_pre st0 ->
  emitted_as dag st0 stf nl cells ->
  forall i, i < length st0 -> forall t, unf dag (nodeix st0 i) t -> unf cells (epos stf nl i) t.
Proof.
  intros (HLK & _ & HRC & _) Hpre Hem.
  induction i as [i IH] using lt_wf_ind. intros Hi t Ht.
  destruct (unf_inv _ _ _ Ht) as (nd' & ts & End' & -> & Hts).
  destruct (Hem i Hi) as (nd & End & _ & Ecell). rewrite End' in End. injection End as <-.
  destruct (HLK i Hi) as (nd & h & End & _ & HF2). rewrite End' in End. injection End as <-.
  pose proof (unf_intro cells _ _ ts Ecell) as HU. cbn [n_special n_type n_mask n_bits n_refs] in HU.
  apply HU. apply Forall2_map_left.
  apply (Forall2_comp _ _ _ _ _ _ HF2 Hts).
  intros p c tc Hp Hc (Hpl & Hcl & hc & H1 & H2) Htc.
  destruct (Hpre i Hi) as [_ Hlt]. specialize (Hlt p Hp).
  apply IH; [exact Hlt|exact Hpl|].
  apply (Hcf c (nodeix st0 p) hc); [|apply HRC; exact Hpl|exact H2|exact H1|exact Htc].
  eapply dreach_child; [apply HRC; exact Hi|exact End'|exact Hc].
Qed.

End RT.
