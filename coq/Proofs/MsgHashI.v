(** Proofs for C16, part 4: under collision-freeness of the hash function the
    normalised hash determines the canonical destination encoding and the body
    (its bits, its number of references and what the representation hashes of
    the references contribute). *)
From Coq Require Import List NArith ZArith Arith Lia Bool ZifyNat ZifyN.
From Tongo Require Import Lib.Bits Lib.Res Model.BocParse Model.CellHash Spec.ReprHash
  Proofs.CellHashP Model.MsgHash Spec.MsgCanon Proofs.MsgHashP Proofs.MsgHashN.
Import ListNotations.

(* lia understands / and mod by constants in this file only *)
Local Ltac Zify.zify_post_hook ::= Z.div_mod_to_equations.

(** *** the data bytes with completion tag determine the bits *)
Definition unbytes (l : bytes) : bits := flat_map (bits_of 8) l.

Lemma zeros_app a b : zeros a ++ zeros b = zeros (a + b).
Proof. unfold zeros. symmetry. apply repeat_app. Qed.

Lemma firstn8_pad (l : bits) :
  (length l < 8)%nat -> firstn 8 (l ++ zeros 8) = l ++ zeros (8 - length l).
Proof.
  intros Hl.
  destruct l as [|a [|b [|c [|d [|e [|f [|g [|h t]]]]]]]]; cbn [length] in Hl; try lia; reflexivity.
Qed.

Lemma unbytes_bits_bytes k : forall l,
  (length l <= 8 * k)%nat -> unbytes (bits_bytes k l) = l ++ zeros (8 * k - length l).
Proof.
  induction k as [|k IH]; intros l Hl.
  - destruct l; [reflexivity|cbn [length] in Hl; lia].
  - cbn [bits_bytes unbytes flat_map]. fold (unbytes (bits_bytes k (skipn 8 l))).
    assert (HF : length (firstn 8 (l ++ zeros 8)) = 8%nat).
    { rewrite firstn_length, app_length. unfold zeros. rewrite repeat_length. lia. }
    pose proof (bits_of_N_of_bits (firstn 8 (l ++ zeros 8))) as E. rewrite HF in E. rewrite E.
    rewrite IH by (rewrite skipn_length; lia). rewrite skipn_length.
    destruct (le_lt_dec 8 (length l)) as [Hge|Hlt].
    + rewrite firstn_app. replace (8 - length l)%nat with 0%nat by lia.
      rewrite firstn_O, app_nil_r, app_assoc, firstn_skipn.
      f_equal. f_equal. lia.
    + rewrite (firstn8_pad _ Hlt). rewrite skipn_all2 by lia. cbn [app].
      rewrite <- app_assoc, zeros_app. f_equal. f_equal. lia.
Qed.

Lemma tag_unique i : forall j (x y : bits),
  zeros i ++ true :: x = zeros j ++ true :: y -> x = y.
Proof.
  induction i as [|i IH]; intros [|j] x y E; unfold zeros in *; cbn [repeat app] in E.
  - injection E as <-. reflexivity.
  - discriminate.
  - discriminate.
  - injection E as E. eapply IH. exact E.
Qed.

Lemma rev_zeros' z : rev (zeros z) = zeros z.
Proof.
  induction z as [|z IH]; [reflexivity|].
  unfold zeros in *. cbn [repeat rev]. rewrite IH.
  clear IH. induction z as [|z IH]; [reflexivity|]. cbn [repeat app]. rewrite IH. reflexivity.
Qed.

Lemma tagged_inj (a b : bits) i j : a ++ true :: zeros i = b ++ true :: zeros j -> a = b.
Proof.
  intros E. apply (f_equal (@rev bool)) in E. rewrite !rev_app_distr in E. cbn [rev] in E.
  rewrite !rev_zeros', <- !app_assoc in E. cbn [app] in E.
  apply tag_unique in E. apply (f_equal (@rev bool)) in E. rewrite !rev_involutive in E. exact E.
Qed.

Lemma data_with_tag_length l : length (data_with_tag l) = ((length l + 7) / 8)%nat.
Proof.
  unfold data_with_tag. destruct (Nat.eqb_spec (length l mod 8) 0) as [E|E];
    rewrite bits_bytes_length; lia.
Qed.

Lemma data_with_tag_inj a b :
  d2_byte (length a) = d2_byte (length b) -> data_with_tag a = data_with_tag b -> a = b.
Proof.
  unfold d2_byte. intros Hd E. apply Nat2N.inj in Hd.
  unfold data_with_tag in E.
  destruct (Nat.eqb_spec (length a mod 8) 0) as [Ea|Ea];
    destruct (Nat.eqb_spec (length b mod 8) 0) as [Eb|Eb]; try lia.
  - apply (f_equal unbytes) in E.
    rewrite !unbytes_bits_bytes in E by lia.
    replace (8 * (length a / 8) - length a)%nat with 0%nat in E by lia.
    replace (8 * (length b / 8) - length b)%nat with 0%nat in E by lia.
    unfold zeros in E. cbn [repeat] in E. rewrite !app_nil_r in E. exact E.
  - apply (f_equal unbytes) in E.
    rewrite !unbytes_bits_bytes in E by (rewrite app_length; cbn [length]; lia).
    rewrite <- !app_assoc in E. cbn [app] in E. eapply tagged_inj. exact E.
Qed.

Section I.
Variable H : bytes -> bytes.

(** *** the representation hash of an ordinary cell of level 0 *)
Fixpoint kids_at (j : nat) (rs : list cell) : res (list (bytes * N)) :=
  match rs with
  | [] => Ok []
  | ch :: t =>
      match hd_at H ch j with
      | Ok x => match kids_at j t with Ok xs => Ok (x :: xs) | Err e => Err e | Panic p => Panic p end
      | Err e => Err e
      | Panic p => Panic p
      end
  end.

Lemma own_levels_mask0 sp data n kids i :
  own_levels H sp 0 data n kids i = own_levels H sp 0 data n kids 0.
Proof.
  induction i as [|i IH]; [reflexivity|].
  cbn [own_levels]. rewrite N.bits_0. exact IH.
Qed.

Lemma hd_at_plain data refs i :
  hd_at H (Cell false 0 0 data refs) i =
  do ks <- kids_at 0 refs; level_repr H false 0 data (length refs) 0 None ks.
Proof.
  cbn [hd_at]. change (is_pruned false 0) with false. change (is_merkle false 0) with false. cbv iota.
  rewrite own_levels_mask0. cbn [own_levels].
  match goal with |- bind ?X _ = bind ?Y _ => assert (EX : X = Y) end.
  { induction refs as [|r t IH]; [reflexivity|]. cbn [kids_at]. rewrite <- IH. reflexivity. }
  rewrite EX. reflexivity.
Qed.

Lemma level_repr_ok sp m data n j prev ks h d :
  level_repr H sp m data n j prev ks = Ok (h, d) ->
  h = H ((d1_byte n sp (mask_apply m j) :: d2_byte (length data) ::
          match prev with None => data_with_tag data | Some p => p end)
         ++ flat_map be16 (map snd ks) ++ concat (map fst ks)).
Proof.
  unfold level_repr. destruct prev; intros E;
    match type of E with (if ?c then _ else _) = _ => destruct c; [discriminate|] end;
    injection E as <- _; reflexivity.
Qed.

Definition kid_material (ks : list (bytes * N)) : bytes :=
  flat_map be16 (map snd ks) ++ concat (map fst ks).

Hypothesis H_inj : forall x y, H x = H y -> x = y.

(* two ordinary level-0 cells with few references and the same hash *)
Lemma plain_hash_inj d1 r1 d2 r2 i h dp1 dp2 :
  (length r1 <= 4)%nat -> (length r2 <= 4)%nat ->
  hd_at H (Cell false 0 0 d1 r1) i = Ok (h, dp1) ->
  hd_at H (Cell false 0 0 d2 r2) i = Ok (h, dp2) ->
  d1 = d2 /\ length r1 = length r2 /\
  exists k1 k2, kids_at 0 r1 = Ok k1 /\ kids_at 0 r2 = Ok k2 /\ kid_material k1 = kid_material k2.
Proof.
  intros L1 L2 E1 E2. rewrite hd_at_plain in E1, E2.
  destruct (kids_at 0 r1) as [k1|e|p] eqn:K1; cbn [bind] in E1; try discriminate.
  destruct (kids_at 0 r2) as [k2|e|p] eqn:K2; cbn [bind] in E2; try discriminate.
  apply level_repr_ok in E1. apply level_repr_ok in E2.
  rewrite E1 in E2. apply H_inj in E2. cbn [app] in E2.
  injection E2 as Ed1 Ed2 Erest.
  assert (Hn : length r1 = length r2).
  { unfold d1_byte in Ed1. change (mask_apply 0 0) with 0%N in Ed1.
    rewrite !N.mul_0_r, !N.add_0_r in Ed1.
    rewrite !N.mod_small in Ed1 by lia. lia. }
  assert (Hl : length (data_with_tag d1) = length (data_with_tag d2)).
  { rewrite !data_with_tag_length. unfold d2_byte in Ed2. apply Nat2N.inj in Ed2. lia. }
  destruct (app_eq_app _ _ _ _ Erest) as (l & [(A & B)|(A & B)]).
  - assert (l = []) as ->.
    { apply (f_equal (@length N)) in A. rewrite app_length in A. destruct l; [reflexivity|cbn [length] in A; lia]. }
    rewrite app_nil_r in A. cbn [app] in B.
    split; [apply data_with_tag_inj; congruence|]. split; [exact Hn|].
    exists k1, k2. repeat split. unfold kid_material. congruence.
  - assert (l = []) as ->.
    { apply (f_equal (@length N)) in A. rewrite app_length in A. destruct l; [reflexivity|cbn [length] in A; lia]. }
    rewrite app_nil_r in A. cbn [app] in B.
    split; [apply data_with_tag_inj; congruence|]. split; [exact Hn|].
    exists k1, k2. repeat split. unfold kid_material. congruence.
Qed.

(** equal normalised hashes: same canonical destination bits, same body bits,
    same number of body references contributing the same hash material *)
Theorem normalized_injective d1 d2 (b1 b2 : bits * list cell) h :
  (length (snd b1) <= 4)%nat -> (length (snd b2) <= 4)%nat ->
  repr_hash H (canonical_cell d1 b1) = Ok h ->
  repr_hash H (canonical_cell d2 b2) = Ok h ->
  addr_bits (canon_dest d1) = addr_bits (canon_dest d2) /\
  fst b1 = fst b2 /\ length (snd b1) = length (snd b2) /\
  exists k1 k2, kids_at 0 (snd b1) = Ok k1 /\ kids_at 0 (snd b2) = Ok k2 /\
                kid_material k1 = kid_material k2.
Proof.
  intros L1 L2 E1 E2. unfold repr_hash in E1, E2.
  destruct (hd_at H (canonical_cell d1 b1) 3) as [[h1 dp1]|e|p] eqn:R1; cbn [res_map fst] in E1; try discriminate.
  destruct (hd_at H (canonical_cell d2 b2) 3) as [[h2 dp2]|e|p] eqn:R2; cbn [res_map fst] in E2; try discriminate.
  injection E1 as ->. injection E2 as ->.
  unfold canonical_cell in R1, R2.
  assert (LA : (length [Cell false 0 0 (fst b1) (snd b1)] <= 4)%nat) by (cbn [length]; lia).
  assert (LB : (length [Cell false 0 0 (fst b2) (snd b2)] <= 4)%nat) by (cbn [length]; lia).
  destruct (plain_hash_inj _ _ _ _ _ _ _ _ LA LB R1 R2) as (Hbits & _ & k1 & k2 & K1 & K2 & KM).
  (* the destination bits *)
  assert (Hdest : addr_bits (canon_dest d1) = addr_bits (canon_dest d2)).
  { cbn [app] in Hbits. injection Hbits as Hb. apply app_inv_tail in Hb. exact Hb. }
  split; [exact Hdest|].
  (* the single kid of the root is the body cell *)
  cbn [kids_at] in K1, K2.
  destruct (hd_at H (Cell false 0 0 (fst b1) (snd b1)) 0) as [[bh1 bd1]|e|p] eqn:B1; try discriminate.
  destruct (hd_at H (Cell false 0 0 (fst b2) (snd b2)) 0) as [[bh2 bd2]|e|p] eqn:B2; try discriminate.
  injection K1 as <-. injection K2 as <-.
  unfold kid_material in KM. cbn [map snd fst flat_map concat] in KM. rewrite !app_nil_r in KM.
  assert (Hbh : bh1 = bh2).
  { unfold be16 in KM. cbn [app] in KM. injection KM as _ _ KM. exact KM. }
  subst bh2.
  destruct (plain_hash_inj _ _ _ _ _ _ _ _ L1 L2 B1 B2) as (Hbb & Hn & kk1 & kk2 & KK1 & KK2 & KKM).
  split; [exact Hbb|]. split; [exact Hn|]. exists kk1, kk2. auto.
Qed.

(** *** from hash material to the trees: ordinary cells of level 0 *)
(* an ordinary tree: no exotic cell, level mask 0, type 0, at most 4 references,
   all the way down.  (With pruned branches this is false by design: a pruned
   branch has the level-0 hash of the cell it replaces.) *)
Fixpoint plain (c : cell) : Prop :=
  match c with
  | Cell sp ty m _ refs =>
      sp = false /\ ty = 0%N /\ m = 0%N /\ (length refs <= 4)%nat /\
      (fix all (rs : list cell) : Prop :=
         match rs with [] => True | ch :: t => plain ch /\ all t end) refs
  end.

Lemma plain_all_Forall refs :
  (fix all (rs : list cell) : Prop :=
     match rs with [] => True | ch :: t => plain ch /\ all t end) refs <-> Forall plain refs.
Proof.
  induction refs as [|r t IH]; [split; constructor|]. split.
  - intros (A & B). constructor; [exact A|apply IH; exact B].
  - intros F. inversion F; subst. split; [assumption|apply IH; assumption].
Qed.

Hypothesis H_len : forall x, length (H x) = 32%nat.

Lemma kids_at_Forall2 j rs ks :
  kids_at j rs = Ok ks -> Forall2 (fun r k => hd_at H r j = Ok k) rs ks.
Proof.
  revert ks. induction rs as [|r t IH]; intros ks E; cbn [kids_at] in E.
  - injection E as <-. constructor.
  - destruct (hd_at H r j) as [x|e|p] eqn:Er; try discriminate.
    destruct (kids_at j t) as [xs|e|p]; try discriminate. injection E as <-.
    constructor; [exact Er|apply IH; reflexivity].
Qed.

Lemma plain_hash_len data refs i h d :
  hd_at H (Cell false 0 0 data refs) i = Ok (h, d) -> length h = 32%nat /\ (d < 65536)%N.
Proof.
  rewrite hd_at_plain. destruct (kids_at 0 refs) as [ks|e|p]; cbn [bind]; try discriminate.
  unfold level_repr.
  destruct (negb (length refs =? 0)%nat && (1024 <=? fold_left N.max (map snd ks) 0)%N) eqn:Ec; [discriminate|].
  intros E. injection E as <- <-. split; [apply H_len|].
  destruct (length refs =? 0)%nat; [lia|]. cbn [negb andb] in Ec. apply N.leb_gt in Ec. lia.
Qed.

Lemma be16_inj a b : (a < 65536)%N -> (b < 65536)%N -> be16 a = be16 b -> a = b.
Proof.
  unfold be16. intros Ha Hb E. injection E as E1 E2.
  rewrite (N.mod_small (a / 256) 256) in E1 by (apply N.div_lt_upper_bound; lia).
  rewrite (N.mod_small (b / 256) 256) in E1 by (apply N.div_lt_upper_bound; lia).
  rewrite (N.div_mod a 256), (N.div_mod b 256) by lia. rewrite E1, E2. reflexivity.
Qed.

Lemma app_inv_len {A} (a b c d : list A) : length a = length c -> a ++ b = c ++ d -> a = c /\ b = d.
Proof.
  revert c. induction a as [|x a IH]; intros [|y c] L E; cbn [length] in L; try lia.
  - split; [reflexivity|exact E].
  - cbn [app] in E. injection E as -> E. destruct (IH c ltac:(lia) E) as (-> & ->). split; reflexivity.
Qed.

(* equal material of equally many kids whose hashes are 32 bytes and whose
   depths fit 16 bits: the kids agree pairwise *)
Lemma kid_material_inj : forall k1 k2 : list (bytes * N),
  length k1 = length k2 ->
  Forall (fun k => length (fst k) = 32%nat /\ (snd k < 65536)%N) k1 ->
  Forall (fun k => length (fst k) = 32%nat /\ (snd k < 65536)%N) k2 ->
  kid_material k1 = kid_material k2 -> k1 = k2.
Proof.
  intros k1 k2 Hl F1 F2 E. unfold kid_material in E.
  assert (Lf : forall k : list (bytes * N), length (flat_map be16 (map snd k)) = (2 * length k)%nat).
  { induction k as [|x t IH]; [reflexivity|]. cbn [map flat_map]. rewrite app_length, IH. cbn [be16 length]. lia. }
  assert (LL : length (flat_map be16 (map snd k1)) = length (flat_map be16 (map snd k2))) by (rewrite !Lf; lia).
  destruct (app_inv_len _ _ _ _ LL E) as (A & B). clear E Lf LL.
  revert k2 Hl F2 A B. induction k1 as [|[h1 d1] t1 IH]; intros [|[h2 d2] t2] Hl F2 A B;
    cbn [length] in Hl; try lia; [reflexivity|].
  apply Forall_cons_iff in F1. destruct F1 as ((L1 & D1) & F1').
  apply Forall_cons_iff in F2. destruct F2 as ((L2 & D2) & F2').
  cbn [map flat_map concat fst snd] in *.
  assert (L0 : length (be16 d1) = length (be16 d2)) by reflexivity.
  destruct (app_inv_len _ _ _ _ L0 A) as (Ad & At).
  assert (L3 : length h1 = length h2) by lia.
  destruct (app_inv_len _ _ _ _ L3 B) as (-> & Bt).
  apply be16_inj in Ad; try assumption. subst d2.
  f_equal. apply IH; try assumption. lia.
Qed.

(** equal level-0 hashes of two ordinary trees: the trees are equal *)
Theorem plain_tree_inj : forall c1 c2 i j h d1 d2,
  plain c1 -> plain c2 ->
  hd_at H c1 i = Ok (h, d1) -> hd_at H c2 j = Ok (h, d2) -> c1 = c2.
Proof.
  intros c1. remember (csize c1) as n eqn:Hn. revert c1 Hn.
  induction n as [n IHn] using lt_wf_ind. intros c1 Hn c2 i j h d1 d2 P1 P2 E1 E2.
  destruct c1 as [sp1 ty1 m1 b1 r1], c2 as [sp2 ty2 m2 b2 r2].
  cbn [plain] in P1, P2. destruct P1 as (-> & -> & -> & L1 & A1). destruct P2 as (-> & -> & -> & L2 & A2).
  apply plain_all_Forall in A1. apply plain_all_Forall in A2.
  (* bring both to the same level index: the hash of a level-0 cell does not depend on it *)
  rewrite hd_at_plain in E1, E2. rewrite <- (hd_at_plain b1 r1 0) in E1. rewrite <- (hd_at_plain b2 r2 0) in E2.
  destruct (plain_hash_inj _ _ _ _ _ _ _ _ L1 L2 E1 E2) as (-> & Hlen & k1 & k2 & K1 & K2 & KM).
  f_equal.
  pose proof (kids_at_Forall2 _ _ _ K1) as F1. pose proof (kids_at_Forall2 _ _ _ K2) as F2.
  assert (Q : forall rs ks, Forall plain rs -> Forall2 (fun r k => hd_at H r 0 = Ok k) rs ks ->
                            Forall (fun k => length (fst k) = 32%nat /\ (snd k < 65536)%N) ks).
  { intros rs ks Fp F. induction F as [|r k rs' ks' Hr F' IH]; [constructor|].
    inversion Fp as [|? ? Pr Fp']; subst. constructor; [|apply IH; exact Fp'].
    destruct r as [sp ty m b rr]. cbn [plain] in Pr. destruct Pr as (-> & -> & -> & _).
    destruct k as [hh dd]. cbn [fst snd]. eapply plain_hash_len. exact Hr. }
  assert (Ek : k1 = k2).
  { apply kid_material_inj; try assumption.
    - rewrite <- (Forall2_len _ _ _ F1), <- (Forall2_len _ _ _ F2). exact Hlen.
    - exact (Q _ _ A1 F1).
    - exact (Q _ _ A2 F2). }
  subst k2.
  assert (Hsz : forall ch, In ch r1 -> (csize ch < n)%nat).
  { subst n. clear. intros ch Hin. cbn [csize]. induction r1 as [|x t IH]; [contradiction|].
    destruct Hin as [->|Hin]; [lia|]. specialize (IH Hin). cbn [csize] in IH. lia. }
  clear K1 K2 KM E1 E2 Hlen L1 L2 Hn.
  revert r2 A2 F2. induction F1 as [|x k r1' ks Hx F1' IHf]; intros r2 A2 F2.
  - inversion F2. reflexivity.
  - inversion F2 as [|y ? r2' ? Hy F2']; subst. inversion A1 as [|? ? Px A1']; subst.
    inversion A2 as [|? ? Py A2']; subst. destruct k as [hh dd].
    f_equal.
    + eapply (IHn (csize x) (Hsz x (or_introl eq_refl)) x eq_refl y 0%nat 0%nat hh dd dd); eassumption.
    + apply IHf; try assumption. intros ch Hin. apply Hsz. right. exact Hin.
Qed.

(** message level: a different destination encoding, different body bits or a
    different number of body references give a different Hash(true) *)
Theorem normalized_distinguishes m1 m2 s1 d1 f1 s2 d2 f2 h1 h2 :
  m_info m1 = IExtIn s1 d1 f1 -> m_info m2 = IExtIn s2 d2 f2 ->
  addr_wf d1 -> addr_wf d2 ->
  (length (fst (m_body m1)) <= 1023)%nat -> (length (fst (m_body m2)) <= 1023)%nat ->
  (length (snd (m_body m1)) <= 4)%nat -> (length (snd (m_body m2)) <= 4)%nat ->
  Forall masks_ok (snd (m_body m1)) -> Forall masks_ok (snd (m_body m2)) ->
  hash_cell H (canonical_cell d1 (m_body m1)) = Ok h1 ->
  hash_cell H (canonical_cell d2 (m_body m2)) = Ok h2 ->
  (addr_bits (canon_dest d1) <> addr_bits (canon_dest d2) \/
   fst (m_body m1) <> fst (m_body m2) \/
   length (snd (m_body m1)) <> length (snd (m_body m2))) ->
  msg_hash H true m1 <> msg_hash H true m2.
Proof.
  intros E1 E2 W1 W2 B1 B2 R1 R2 M1 M2 H1 H2 Hdiff Heq.
  destruct (normalized_hash_spec H m1 s1 d1 f1 h1 E1 W1 B1 M1 H1) as (A1 & C1).
  destruct (normalized_hash_spec H m2 s2 d2 f2 h2 E2 W2 B2 M2 H2) as (A2 & C2).
  rewrite A1, A2 in Heq. injection Heq as <-.
  destruct (normalized_injective d1 d2 (m_body m1) (m_body m2) h1 R1 R2 C1 C2) as (X1 & X2 & X3 & _).
  destruct Hdiff as [D|[D|D]]; contradiction.
Qed.

(** with ordinary body reference trees: the bodies are equal as trees *)
Theorem normalized_injective_trees d1 d2 (b1 b2 : bits * list cell) h :
  (length (snd b1) <= 4)%nat -> (length (snd b2) <= 4)%nat ->
  Forall plain (snd b1) -> Forall plain (snd b2) ->
  repr_hash H (canonical_cell d1 b1) = Ok h ->
  repr_hash H (canonical_cell d2 b2) = Ok h ->
  addr_bits (canon_dest d1) = addr_bits (canon_dest d2) /\ b1 = b2.
Proof.
  intros L1 L2 P1 P2 E1 E2.
  destruct (normalized_injective d1 d2 b1 b2 h L1 L2 E1 E2) as (Hd & Hb & Hn & _).
  split; [exact Hd|].
  (* the body cells themselves are ordinary trees with the same level-0 hash *)
  unfold repr_hash in E1, E2.
  destruct (hd_at H (canonical_cell d1 b1) 3) as [[h1 dp1]|e|p] eqn:R1; cbn [res_map fst] in E1; try discriminate.
  destruct (hd_at H (canonical_cell d2 b2) 3) as [[h2 dp2]|e|p] eqn:R2; cbn [res_map fst] in E2; try discriminate.
  injection E1 as ->. injection E2 as ->. unfold canonical_cell in R1, R2.
  assert (Pc : forall (b : bits * list cell), (length (snd b) <= 4)%nat -> Forall plain (snd b) ->
               plain (Cell false 0 0 (fst b) (snd b))).
  { intros b L P. cbn [plain]. repeat split; try assumption. apply plain_all_Forall. exact P. }
  assert (Pr : forall (b : bits * list cell) x, (length (snd b) <= 4)%nat -> Forall plain (snd b) ->
               plain (Cell false 0 0 x [Cell false 0 0 (fst b) (snd b)])).
  { intros b x L P. cbn [plain]. repeat split; try (cbn [length]; lia). apply Pc; assumption. }
  pose proof (plain_tree_inj _ _ _ _ _ _ _ (Pr b1 _ L1 P1) (Pr b2 _ L2 P2) R1 R2) as E.
  injection E as _ E1 E2. destruct b1, b2. cbn [fst snd] in *. congruence.
Qed.

End I.
