(** The harness function that lists the cells of a built proof (Harness/H02.v
    rows_of) evaluates every position with the proved model: the immutable cell
    it returns for a tree is CellHashP.imm_of, and its first row shows that
    cell's mask, level and level-0..3 hashes and depths. *)
From Coq Require Import List NArith Arith Bool.
From Tongo Require Import Lib.Bits Lib.Res Lib.Sx Spec.Sha256 Model.BocParse Model.CellHash Spec.ReprHash
  Proofs.CellHashP Harness.H07 Harness.H02.
Import ListNotations.

Lemma rows_of_is_imm_of : forall c, res_map fst (rows_of c) = imm_of sha256 c.
Proof.
  fix IH 1. intros [special ty m data refs]. cbn [rows_of imm_of].
  assert (Hk : res_map fst
      ((fix go (rs : list cell) : res (list imm * list sx) :=
          match rs with
          | [] => Ok ([], [])
          | ch :: t => do x <- rows_of ch; do xs <- go t; Ok (fst x :: fst xs, snd x ++ snd xs)
          end) refs) =
      (fix go (rs : list cell) : res (list imm) :=
         match rs with
         | [] => Ok []
         | ch :: t => do x <- imm_of sha256 ch; do xs <- go t; Ok (x :: xs)
         end) refs).
  { induction refs as [|ch t IHt]; [reflexivity|].
    rewrite <- (IH ch), <- IHt.
    destruct (rows_of ch) as [x|?|?]; cbn [bind res_map]; try reflexivity.
    match goal with |- context [bind ?X _] => destruct X as [xs|?|?] end; reflexivity. }
  rewrite <- Hk.
  match goal with |- context [bind ?X _] => destruct X as [kids|?|?] end; cbn [bind res_map]; try reflexivity.
  destruct (build_imm sha256 special ty m data (fst kids)); reflexivity.
Qed.

