(** C20 proofs, part 1: facts about the text primitives of Model/JsonText.v. *)
From Coq Require Import List NArith ZArith Bool Lia Arith.
From Tongo Require Import Lib.Bits Lib.Res Model.JsonText.
Import ListNotations.
Local Open Scope N_scope.

Definition bytes_ok (l : list N) : Prop := Forall (fun b => b < 256) l.
Definition all_b (f : N -> bool) (l : list N) : Prop := Forall (fun c => f c = true) l.

(** * finite case analysis on small naturals *)
Lemma N_below (k : nat) d : d < N.of_nat k -> In d (map N.of_nat (seq 0 k)).
Proof.
  intros H. apply in_map_iff. exists (N.to_nat d). split; [apply N2Nat.id|].
  apply in_seq. lia.
Qed.

Lemma check_below (k : nat) (f : N -> bool) :
  forallb f (map N.of_nat (seq 0 k)) = true -> forall d, d < N.of_nat k -> f d = true.
Proof.
  intros H d Hd. rewrite forallb_forall in H. apply H. apply N_below. exact Hd.
Qed.

(** * trim *)
Definition hd_not (f : N -> bool) (l : str) : Prop :=
  match l with [] => True | c :: _ => f c = false end.

Lemma trim_left_all f l : all_b f l -> trim_left f l = [].
Proof.
  induction 1 as [|c l Hc _ IH]; [reflexivity|]. cbn [trim_left]. rewrite Hc. exact IH.
Qed.

Lemma trim_left_hd f l : hd_not f l -> trim_left f l = l.
Proof. destruct l as [|c l]; [reflexivity|]. cbn [hd_not trim_left]. intros ->. reflexivity. Qed.

Lemma trim_left_app f pre l : all_b f pre -> hd_not f l -> trim_left f (pre ++ l) = l.
Proof.
  induction 1 as [|c pre Hc _ IH]; intros Hl.
  - apply trim_left_hd. exact Hl.
  - cbn [app trim_left]. rewrite Hc. apply IH. exact Hl.
Qed.

Lemma all_b_rev f l : all_b f l -> all_b f (rev l).
Proof. apply Forall_rev. Qed.

Lemma trim_mid f pre mid post :
  all_b f pre -> all_b f post -> mid <> [] -> hd_not f mid -> hd_not f (rev mid) ->
  trim f (pre ++ mid ++ post) = mid.
Proof.
  intros Hpre Hpost Hne Hh Hl. unfold trim, frev. rewrite <- !rev_alt.
  rewrite (trim_left_app f pre (mid ++ post) Hpre).
  2:{ destruct mid as [|c m]; [congruence|]. exact Hh. }
  rewrite rev_app_distr.
  rewrite (trim_left_app f (rev post) (rev mid) (all_b_rev _ _ Hpost) Hl).
  apply rev_involutive.
Qed.

Lemma trim_all f l : all_b f l -> trim f l = [].
Proof. intros H. unfold trim. rewrite (trim_left_all f l H). reflexivity. Qed.

Lemma trim_id f l : l <> [] -> hd_not f l -> hd_not f (rev l) -> trim f l = l.
Proof.
  intros Hne Hh Hl. pose proof (trim_mid f [] l [] (Forall_nil _) (Forall_nil _) Hne Hh Hl) as H.
  cbn [app] in H. rewrite app_nil_r in H. exact H.
Qed.

Lemma hd_not_rev_snoc f l c : f c = false -> hd_not f (rev (l ++ [c])).
Proof. intros H. rewrite rev_app_distr. cbn [rev app hd_not]. exact H. Qed.

(* text between two quotes, itself without quotes at its ends *)
Lemma trim_quotes_quote s :
  hd_not is_quote s -> hd_not is_quote (rev s) -> trim_quotes (quote s) = s.
Proof.
  intros Hh Hl. unfold trim_quotes, quote.
  destruct s as [|c s'] eqn:Es.
  - apply trim_all. repeat constructor.
  - rewrite <- Es in *.
    change (ch_quote :: s ++ [ch_quote]) with ([ch_quote] ++ s ++ [ch_quote]).
    apply trim_mid; try (repeat constructor); try assumption. rewrite Es. discriminate.
Qed.

(** * decimal *)
Lemma dec_value_app l1 : forall l2 acc,
  dec_value acc (l1 ++ l2) =
  match dec_value acc l1 with Some v => dec_value v l2 | None => None end.
Proof.
  induction l1 as [|c l1 IH]; intros l2 acc; [reflexivity|].
  cbn [app dec_value]. destruct (is_digit c); [apply IH|reflexivity].
Qed.

Lemma is_digit_48 d : d < 10 -> is_digit (48 + d) = true.
Proof.
  intros H. unfold is_digit. apply andb_true_intro. split; apply N.leb_le; lia.
Qed.

Lemma is_digit_range c : is_digit c = true -> 48 <= c <= 57.
Proof. unfold is_digit. intros H. apply andb_prop in H. destruct H as [H1 H2]. apply N.leb_le in H1, H2. lia. Qed.

Lemma dec_value_digit acc d : d < 10 -> dec_value acc [48 + d] = Some (acc * 10 + d).
Proof.
  intros H. cbn [dec_value]. rewrite (is_digit_48 d H). f_equal. lia.
Qed.

Lemma dec_rev_value f : forall n, n < 10 ^ N.of_nat f ->
  dec_value 0 (rev (dec_rev f n)) = Some n.
Proof.
  induction f as [|f IH]; intros n Hn.
  - change (N.of_nat 0) with 0 in Hn. rewrite N.pow_0_r in Hn.
    assert (n = 0) by lia. subst n. reflexivity.
  - cbn [dec_rev]. destruct (N.ltb_spec n 10) as [Hlt|Hge].
    + cbn [rev app]. rewrite dec_value_digit by exact Hlt. f_equal.
    + cbn [rev]. rewrite dec_value_app. rewrite IH.
      * assert (Hm : n mod 10 < 10) by (apply N.mod_lt; lia).
        rewrite dec_value_digit by exact Hm. f_equal.
        pose proof (N.div_mod n 10 ltac:(lia)). lia.
      * rewrite Nat2N.inj_succ, N.pow_succ_r' in Hn.
        apply N.div_lt_upper_bound; lia.
Qed.

Lemma dec_rev_digits f : forall n, all_b is_digit (dec_rev f n).
Proof.
  induction f as [|f IH]; intros n; [constructor|].
  cbn [dec_rev]. destruct (N.ltb_spec n 10).
  - constructor; [apply is_digit_48; assumption|constructor].
  - constructor; [apply is_digit_48; apply N.mod_lt; lia|apply IH].
Qed.

Lemma pos_size_bound p : N.pos p < 2 ^ N.of_nat (Pos.size_nat p).
Proof.
  induction p as [p IH|p IH|]; cbn [Pos.size_nat]; rewrite ?Nat2N.inj_succ, ?N.pow_succ_r'.
  - change (N.pos p~1) with (2 * N.pos p + 1). lia.
  - change (N.pos p~0) with (2 * N.pos p). lia.
  - cbn. lia.
Qed.

Lemma size_bound n : n < 2 ^ N.of_nat (N.size_nat n).
Proof. destruct n as [|p]; [cbn; lia|apply pos_size_bound]. Qed.

Lemma pow2_le_pow10 k : 2 ^ k <= 10 ^ k.
Proof. apply N.pow_le_mono_l. lia. Qed.

Lemma fuel_enough n : n < 10 ^ N.of_nat (S (N.size_nat n)).
Proof.
  rewrite Nat2N.inj_succ, N.pow_succ_r'.
  pose proof (size_bound n). pose proof (pow2_le_pow10 (N.of_nat (N.size_nat n))). lia.
Qed.

Lemma print_N_value n : dec_value 0 (print_N n) = Some n.
Proof. apply dec_rev_value. apply fuel_enough. Qed.

Lemma print_N_digits n : all_b is_digit (print_N n).
Proof. apply all_b_rev. apply dec_rev_digits. Qed.

Lemma dec_rev_nonempty f n : dec_rev (S f) n <> [].
Proof. cbn [dec_rev]. destruct (n <? 10); discriminate. Qed.

Lemma print_N_nonempty n : print_N n <> [].
Proof.
  unfold print_N. intros H. apply (f_equal (@rev N)) in H. rewrite rev_involutive in H.
  cbn [rev] in H. exact (dec_rev_nonempty _ _ H).
Qed.

Lemma parse_udec_print n : parse_udec (print_N n) = Some n.
Proof.
  unfold parse_udec. pose proof (print_N_nonempty n) as Hne. pose proof (print_N_value n) as Hv.
  destruct (print_N n); [congruence|exact Hv].
Qed.

(* no leading zero: the text of 0 is the single digit 0, any other starts with 1..9 *)
Lemma dec_rev_head f : forall n, n < 10 ^ N.of_nat f -> 0 < n ->
  exists d rest, rev (dec_rev f n) = d :: rest /\ 49 <= d <= 57 /\ all_b is_digit rest.
Proof.
  induction f as [|f IH]; intros n Hn Hpos.
  - change (N.of_nat 0) with 0 in Hn. rewrite N.pow_0_r in Hn. lia.
  - cbn [dec_rev]. destruct (N.ltb_spec n 10) as [Hlt|Hge].
    + exists (48 + n), []. cbn [rev app]. repeat split; try lia. constructor.
    + rewrite Nat2N.inj_succ, N.pow_succ_r' in Hn.
      assert (Hq : n / 10 < 10 ^ N.of_nat f) by (apply N.div_lt_upper_bound; lia).
      assert (Hq0 : 0 < n / 10).
      { apply N.div_str_pos. lia. }
      destruct (IH (n / 10) Hq Hq0) as (d & rest & Hr & Hd & Hrest).
      exists d, (rest ++ [48 + n mod 10]). cbn [rev]. rewrite Hr. repeat split; try lia.
      apply Forall_app. split; [exact Hrest|].
      constructor; [apply is_digit_48; apply N.mod_lt; lia|constructor].
Qed.

Lemma print_N_zero : print_N 0 = [48].
Proof. reflexivity. Qed.

Lemma print_N_head n : 0 < n ->
  exists d rest, print_N n = d :: rest /\ 49 <= d <= 57 /\ all_b is_digit rest.
Proof. intros H. apply dec_rev_head; [apply fuel_enough|exact H]. Qed.

Lemma print_N_hd_digit n : exists d rest, print_N n = d :: rest /\ is_digit d = true.
Proof.
  pose proof (print_N_digits n) as Hd. pose proof (print_N_nonempty n) as Hne.
  destruct (print_N n) as [|d rest]; [congruence|]. exists d, rest. split; [reflexivity|].
  inversion Hd; assumption.
Qed.

Lemma digit_not_sign d : is_digit d = true -> (d =? ch_minus) = false /\ (d =? ch_plus) = false.
Proof.
  intros H. apply is_digit_range in H. unfold ch_minus, ch_plus.
  split; apply N.eqb_neq; lia.
Qed.

Lemma parse_sdec_print_N n : parse_sdec (print_N n) = Some (false, n).
Proof.
  destruct (print_N_hd_digit n) as (d & rest & E & Hd).
  pose proof (parse_udec_print n) as Hp. unfold parse_sdec. rewrite E in *.
  destruct (digit_not_sign d Hd) as [-> ->]. rewrite Hp. reflexivity.
Qed.

Lemma parse_sdec_print_Z z :
  parse_sdec (print_Z z) = Some ((z <? 0)%Z, Z.abs_N z).
Proof.
  destruct z as [|p|p]; cbn [print_Z].
  - apply parse_sdec_print_N.
  - apply parse_sdec_print_N.
  - unfold parse_sdec. rewrite N.eqb_refl. rewrite parse_udec_print. reflexivity.
Qed.

Lemma parse_uint_print w v : v < 2 ^ w -> parse_uint w (print_N v) = Ok v.
Proof.
  intros H. unfold parse_uint. rewrite parse_udec_print.
  destruct (N.ltb_spec v (2 ^ w)); [reflexivity|lia].
Qed.

Lemma pow2_split w : 1 <= w -> 2 ^ w = 2 * 2 ^ (w - 1).
Proof.
  intros H. replace w with (N.succ (w - 1)) at 1 by lia. apply N.pow_succ_r'.
Qed.

Lemma parse_int_print w z : 1 <= w ->
  (- Z.of_N (2 ^ (w - 1)) <= z < Z.of_N (2 ^ (w - 1)))%Z ->
  parse_int w (print_Z z) = Ok z.
Proof.
  intros Hw Hz. unfold parse_int. rewrite parse_sdec_print_Z.
  pose proof (pow2_split w Hw) as H2. pose proof (pow2_pos (w - 1)) as Hp.
  set (c := 2 ^ (w - 1)) in *.
  destruct (Z.ltb_spec z 0) as [Hneg|Hnn].
  - assert (Hv : Z.abs_N z <= c) by lia.
    rewrite N.min_l by lia.
    destruct (N.leb_spec (Z.abs_N z) c); [|lia]. f_equal. lia.
  - assert (Hv : Z.abs_N z < c) by lia.
    rewrite N.min_l by lia.
    destruct (N.ltb_spec (Z.abs_N z) c); [|lia]. f_equal. lia.
Qed.

Lemma parse_big_print z : parse_big (print_Z z) = Ok z.
Proof.
  unfold parse_big. rewrite parse_sdec_print_Z.
  destruct (Z.ltb_spec z 0); f_equal; lia.
Qed.

Lemma print_Z_chars z : all_b (fun c => is_digit c || (c =? ch_minus)) (print_Z z).
Proof.
  assert (Hd : forall n, all_b (fun c => is_digit c || (c =? ch_minus)) (print_N n)).
  { intros n. eapply Forall_impl; [|apply print_N_digits]. cbn. intros a ->. reflexivity. }
  destruct z as [|p|p]; cbn [print_Z]; try apply Hd.
  constructor; [reflexivity|apply Hd].
Qed.

(** * hexadecimal *)
Definition hex_pair_check (b : N) : bool :=
  match hex_val (hex_lower (b / 16)), hex_val (hex_lower (b mod 16)) with
  | Some x, Some y => x * 16 + y =? b
  | _, _ => false
  end.

Lemma hex_pair_all : forallb hex_pair_check (map N.of_nat (seq 0 256)) = true.
Proof. vm_compute. reflexivity. Qed.

Lemma hex_decode_print bs : bytes_ok bs -> hex_decode (print_hex bs) = Some bs.
Proof.
  induction 1 as [|b bs Hb _ IH]; [reflexivity|].
  unfold print_hex in *. cbn [flat_map hex_byte app hex_decode].
  pose proof (check_below 256 hex_pair_check hex_pair_all b Hb) as Hc.
  unfold hex_pair_check in Hc.
  destruct (hex_val (hex_lower (b / 16))) as [x|]; [|discriminate].
  destruct (hex_val (hex_lower (b mod 16))) as [y|]; [|discriminate].
  rewrite IH. apply N.eqb_eq in Hc. rewrite Hc. reflexivity.
Qed.

Definition is_hex_lower (c : N) : bool := is_digit c || ((97 <=? c) && (c <=? 102)).

Lemma hex_lower_char : forallb (fun d => is_hex_lower (hex_lower d)) (map N.of_nat (seq 0 16)) = true.
Proof. vm_compute. reflexivity. Qed.

Lemma print_hex_chars bs : bytes_ok bs -> all_b is_hex_lower (print_hex bs).
Proof.
  induction 1 as [|b bs Hb _ IH]; [constructor|].
  unfold print_hex in *. cbn [flat_map hex_byte app].
  constructor; [|constructor; [|exact IH]].
  - apply (check_below 16 _ hex_lower_char). apply N.div_lt_upper_bound; lia.
  - apply (check_below 16 _ hex_lower_char). apply N.mod_lt. lia.
Qed.

Lemma print_hex_length bs : length (print_hex bs) = (2 * length bs)%nat.
Proof. induction bs as [|b bs IH]; [reflexivity|]. unfold print_hex in *. cbn [flat_map hex_byte app length]. lia. Qed.

Lemma hex_val_lower d : d < 16 -> hex_val (hex_lower d) = Some d.
Proof.
  intros H.
  assert (Hc : forallb (fun d => match hex_val (hex_lower d) with Some x => x =? d | None => false end)
                 (map N.of_nat (seq 0 16)) = true) by (vm_compute; reflexivity).
  pose proof (check_below 16 _ Hc d H) as Hd. cbv beta in Hd.
  destruct (hex_val (hex_lower d)); [|discriminate]. apply N.eqb_eq in Hd. congruence.
Qed.

Lemma hex_val_upper d : d < 16 -> hex_val (hex_upper d) = Some d.
Proof.
  intros H.
  assert (Hc : forallb (fun d => match hex_val (hex_upper d) with Some x => x =? d | None => false end)
                 (map N.of_nat (seq 0 16)) = true) by (vm_compute; reflexivity).
  pose proof (check_below 16 _ Hc d H) as Hd. cbv beta in Hd.
  destruct (hex_val (hex_upper d)); [|discriminate]. apply N.eqb_eq in Hd. congruence.
Qed.

Lemma hexn_value_app l1 : forall l2 acc,
  hexn_value acc (l1 ++ l2) =
  match hexn_value acc l1 with Some v => hexn_value v l2 | None => None end.
Proof.
  induction l1 as [|c l1 IH]; intros l2 acc; [reflexivity|].
  cbn [app hexn_value]. destruct (hex_val c); [apply IH|reflexivity].
Qed.

Lemma hexn_rev_value f : forall n, n < 16 ^ N.of_nat f ->
  hexn_value 0 (rev (hexn_rev f n)) = Some n.
Proof.
  induction f as [|f IH]; intros n Hn.
  - change (N.of_nat 0) with 0 in Hn. rewrite N.pow_0_r in Hn.
    assert (n = 0) by lia. subst n. reflexivity.
  - cbn [hexn_rev]. destruct (N.ltb_spec n 16) as [Hlt|Hge].
    + cbn [rev app hexn_value]. rewrite hex_val_lower by exact Hlt. f_equal.
    + cbn [rev]. rewrite hexn_value_app. rewrite IH.
      * assert (Hm : n mod 16 < 16) by (apply N.mod_lt; lia).
        cbn [hexn_value]. rewrite hex_val_lower by exact Hm. f_equal.
        pose proof (N.div_mod n 16 ltac:(lia)). lia.
      * rewrite Nat2N.inj_succ, N.pow_succ_r' in Hn.
        apply N.div_lt_upper_bound; lia.
Qed.

Lemma fuel_enough16 n : n < 16 ^ N.of_nat (S (N.size_nat n)).
Proof.
  rewrite Nat2N.inj_succ, N.pow_succ_r'.
  pose proof (size_bound n).
  assert (2 ^ N.of_nat (N.size_nat n) <= 16 ^ N.of_nat (N.size_nat n)) by (apply N.pow_le_mono_l; lia).
  lia.
Qed.

Lemma hexn_rev_nonempty f n : hexn_rev (S f) n <> [].
Proof. cbn [hexn_rev]. destruct (n <? 16); discriminate. Qed.

Lemma hexn_rev_chars f : forall n, all_b is_hex_lower (hexn_rev f n).
Proof.
  induction f as [|f IH]; intros n; [constructor|].
  cbn [hexn_rev]. destruct (N.ltb_spec n 16).
  - constructor; [|constructor]. apply (check_below 16 _ hex_lower_char). assumption.
  - constructor; [|apply IH]. apply (check_below 16 _ hex_lower_char). apply N.mod_lt. lia.
Qed.

Lemma print_hex_N_chars n : all_b is_hex_lower (print_hex_N n).
Proof. apply all_b_rev. apply hexn_rev_chars. Qed.

Lemma parse_uint_hex64_print n : n < 2 ^ 64 -> parse_uint_hex64 (print_hex_N n) = Ok n.
Proof.
  intros H. unfold parse_uint_hex64, print_hex_N.
  pose proof (hexn_rev_value _ n (fuel_enough16 n)) as Hv.
  destruct (rev (hexn_rev (S (N.size_nat n)) n)) as [|c l] eqn:E.
  - apply (f_equal (@rev N)) in E. rewrite rev_involutive in E. cbn [rev] in E.
    exfalso. exact (hexn_rev_nonempty _ _ E).
  - rewrite Hv. destruct (N.ltb_spec n (2 ^ 64)); [reflexivity|lia].
Qed.

(** * UTF-8: ASCII text decodes to itself *)
Definition ascii (l : str) : Prop := Forall (fun c => c < 128) l.

Lemma runes_ascii l : ascii l -> runes l = l.
Proof.
  induction 1 as [|c l Hc _ IH]; [reflexivity|].
  cbn [runes]. destruct (N.ltb_spec c 128); [|lia]. rewrite IH. reflexivity.
Qed.

Lemma encode_rune_ascii c : c < 128 -> encode_rune c = [c].
Proof.
  intros H. unfold encode_rune, in_rng.
  destruct (N.ltb_spec 1114111 c); [lia|].
  destruct (N.leb_spec 55296 c); [lia|]. cbn [orb andb].
  destruct (N.ltb_spec c 128); [reflexivity|lia].
Qed.

Lemma utf8_fix_ascii l : ascii l -> utf8_fix l = l.
Proof.
  intros H. unfold utf8_fix. rewrite (runes_ascii l H).
  induction H as [|c l Hc _ IH]; [reflexivity|].
  cbn [flat_map]. rewrite (encode_rune_ascii c Hc). cbn [app]. rewrite IH. reflexivity.
Qed.

Lemma json_plain_ascii l : all_b json_plain l -> ascii l.
Proof.
  apply Forall_impl. intros c H. unfold json_plain in H.
  assert (Hc : (c <? 127) = true).
  { repeat (apply andb_prop in H; destruct H as [H ?]). assumption. }
  apply N.ltb_lt in Hc. lia.
Qed.

(** * split on a separator *)
Lemma split_on_nonempty sep s : split_on sep s <> [].
Proof.
  induction s as [|c s IH]; [discriminate|]. cbn [split_on].
  destruct (c =? sep); [discriminate|]. destruct (split_on sep s); discriminate.
Qed.

Lemma split_on_nosep sep a : Forall (fun c => c <> sep) a -> split_on sep a = [a].
Proof.
  induction 1 as [|c a Hc _ IH]; [reflexivity|]. cbn [split_on].
  destruct (N.eqb_spec c sep); [contradiction|]. rewrite IH. reflexivity.
Qed.

Lemma split_on_app sep a b : Forall (fun c => c <> sep) a ->
  split_on sep (a ++ sep :: b) = a :: split_on sep b.
Proof.
  induction 1 as [|c a Hc _ IH].
  - cbn [app split_on]. rewrite N.eqb_refl. reflexivity.
  - cbn [app split_on]. destruct (N.eqb_spec c sep); [contradiction|]. rewrite IH. reflexivity.
Qed.

(** * go_slice *)
Lemma go_slice_mid (p m q : str) :
  go_slice (length p) (length (p ++ m ++ q) - length q) (p ++ m ++ q) = Ok m.
Proof.
  unfold go_slice. rewrite !app_length.
  replace (length p + (length m + length q) - length q)%nat with (length p + length m)%nat by lia.
  destruct (Nat.leb_spec (length p) (length p + length m)); [|lia].
  destruct (Nat.leb_spec (length p + length m) (length p + (length m + length q))); [|lia].
  cbn [andb]. f_equal.
  rewrite skipn_app, skipn_all, Nat.sub_diag. cbn [app skipn].
  replace (length p + length m - length p)%nat with (length m) by lia.
  rewrite firstn_app, firstn_all, Nat.sub_diag. cbn [firstn]. apply app_nil_r.
Qed.

Lemma go_slice_from (p m : str) : go_slice (length p) (length (p ++ m)) (p ++ m) = Ok m.
Proof.
  pose proof (go_slice_mid p m []) as H. rewrite app_nil_r in H. cbn [length] in H.
  rewrite Nat.sub_0_r in H. exact H.
Qed.

Lemma go_slice_no_panic lo hi s : (lo <= hi <= length s)%nat -> exists r, go_slice lo hi s = Ok r.
Proof.
  intros [H1 H2]. unfold go_slice.
  destruct (Nat.leb_spec lo hi); [|lia]. destruct (Nat.leb_spec hi (length s)); [|lia].
  eexists. reflexivity.
Qed.

Lemma has_prefix_app p s : has_prefix p (p ++ s) = Some s.
Proof. induction p as [|c p IH]; [destruct s; reflexivity|]. cbn [app has_prefix]. rewrite N.eqb_refl. exact IH. Qed.

Lemma has_prefix_length p : forall s r, has_prefix p s = Some r -> s = p ++ r.
Proof.
  induction p as [|c p IH]; intros s r H.
  - destruct s; cbn in H; injection H as <-; reflexivity.
  - destruct s as [|d s]; [discriminate|]. cbn [has_prefix] in H.
    destruct (N.eqb_spec c d); [|discriminate]. subst d. cbn [app]. f_equal. apply IH. exact H.
Qed.
