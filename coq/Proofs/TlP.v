(** The model of tl/decoder.go and of the generated UnmarshalTL bodies never
    panics, and its allocation obeys a potential argument: with
    K = max (2^24 + 4) (2^30 * E), E the largest vector element size,
        alloc + K * (unread bytes)
    never grows, except by at most K at the step that fails.  Hence
    alloc <= K * (length input + 1).  K is huge on purpose: it is what the code
    guarantees (a 4-byte vector count c makes Go allocate c * E bytes). *)
From Coq Require Import String List NArith PArith Arith Lia Bool.
From Tongo Require Import Lib.Bits Lib.Res Spec.TlWire Model.Tl Model.TlMatch.
Import ListNotations.
Local Open Scope N_scope.

Definition bytes_ok (l : bytes) : Prop := Forall (fun b => b < 256) l.
Definition phi (K : N) (s : st) : N := alloc s + K * N.of_nat (length (inp s)).

Definition safe {A} (K : N) (m : M A) : Prop :=
  forall s, bytes_ok (inp s) ->
    bytes_ok (inp (snd (m s))) /\
    (forall p, fst (m s) <> Panic p) /\
    phi K (snd (m s)) <= phi K s + (if is_ok (fst (m s)) then 0 else K).

Lemma bytes_ok_firstn n l : bytes_ok l -> bytes_ok (firstn n l).
Proof.
  revert l; induction n as [|n IH]; intros l H; cbn [firstn]; [constructor|].
  destruct l as [|a l]; [constructor|]. inversion H; subst. constructor; auto. apply IH; assumption.
Qed.
Lemma bytes_ok_skipn n l : bytes_ok l -> bytes_ok (skipn n l).
Proof.
  revert l; induction n as [|n IH]; intros l H; cbn [skipn]; [exact H|].
  destruct l as [|a l]; [constructor|]. inversion H; subst. apply IH; assumption.
Qed.

Lemma le_num_bound l : bytes_ok l -> le_num l < 256 ^ N.of_nat (length l).
Proof.
  induction l as [|b t IH]; intros H.
  - cbn. lia.
  - inversion H as [|? ? Hb Ht]; subst. specialize (IH Ht).
    cbn [le_num length]. rewrite Nat2N.inj_succ, N.pow_succ_r'. lia.
Qed.

Lemma safe_ret {A} K (a : A) : safe K (mret a).
Proof. intros s Hs; cbn. repeat split; auto; try discriminate. lia. Qed.

Lemma safe_fail {A} K e : safe K (@mfail A e).
Proof. intros s Hs; cbn. repeat split; auto; try discriminate. lia. Qed.

Lemma safe_bind {A B} K (m : M A) (k : A -> M B) :
  safe K m -> (forall a, safe K (k a)) -> safe K (mbind m k).
Proof.
  intros Hm Hk s Hs. unfold mbind. specialize (Hm s Hs).
  destruct (m s) as [[a|e|p] s1]; cbn [fst snd is_ok] in *.
  - destruct Hm as (H1 & _ & H3). specialize (Hk a s1 H1).
    destruct Hk as (K1 & K2 & K3). repeat split; auto. lia.
  - destruct Hm as (H1 & _ & H3). repeat split; auto. discriminate.
  - destruct Hm as (_ & H2 & _). exfalso. apply (H2 p). reflexivity.
Qed.

Lemma skipn_len n (l : bytes) : short n l = false ->
  N.of_nat (length l) = N.of_nat n + N.of_nat (length (skipn n l)).
Proof.
  rewrite short_spec. intros H. apply Nat.ltb_ge in H. rewrite skipn_length. lia.
Qed.

Lemma firstn_len n (l : bytes) : short n l = false -> length (firstn n l) = n.
Proof.
  rewrite short_spec. intros H. apply Nat.ltb_ge in H. apply firstn_length_le; exact H.
Qed.

(* reading never allocates; the continuation only sees well-formed chunks *)
Lemma safe_read {A} K n (k : bytes -> M A) :
  (forall b, length b = n -> bytes_ok b -> safe K (k b)) ->
  safe K (mbind (read_full n) k).
Proof.
  intros Hk s Hs. unfold mbind, read_full.
  destruct (short n (inp s)) eqn:Hsh; cbn [fst snd is_ok inp alloc].
  - split; [apply Forall_nil|split; [discriminate|]]. unfold phi; cbn [inp alloc length]. lia.
  - set (s1 := mkst (skipn n (inp s)) (alloc s) (peak s)).
    assert (H1 : bytes_ok (inp s1)) by (apply bytes_ok_skipn; exact Hs).
    specialize (Hk (firstn n (inp s)) (firstn_len _ _ Hsh) (bytes_ok_firstn _ _ Hs) s1 H1).
    destruct Hk as (K1 & K2 & K3). repeat split; auto.
    assert (phi K s1 <= phi K s).
    { unfold phi, s1; cbn [inp alloc]. rewrite (skipn_len _ _ Hsh). lia. }
    lia.
Qed.

Lemma safe_readN {A} K n (k : bytes -> M A) :
  (forall b, bytes_ok b -> safe K (k b)) ->
  safe K (mbind (read_fullN n) k).
Proof.
  intros Hk s Hs. unfold mbind, read_fullN.
  destruct (N.of_nat (length (inp s)) <? n) eqn:Hlt; cbn [fst snd is_ok inp alloc].
  - split; [apply Forall_nil|split; [discriminate|]]. unfold phi; cbn [inp alloc length]. lia.
  - apply (safe_read K (N.to_nat n) k); auto.
Qed.

(* make(c*esz) followed by a read of n bytes: the request is paid for by the
   bytes the read consumes, or by the failure allowance *)
Lemma safe_make_read {A} K c esz n (k : bytes -> M A) :
  c * esz <= max_alloc -> c * esz <= K -> c * esz <= K * N.of_nat n ->
  (forall b, length b = n -> bytes_ok b -> safe K (k b)) ->
  safe K (mbind (make c esz) (fun _ => mbind (read_full n) k)).
Proof.
  intros Hmax HK Hn Hk s Hs. unfold mbind at 1. unfold make.
  destruct (N.ltb_spec max_alloc (c * esz)) as [H|_]; [lia|].
  unfold mbind, read_full. cbn [inp alloc peak].
  destruct (short n (inp s)) eqn:Hsh; cbn [fst snd is_ok inp alloc].
  - split; [apply Forall_nil|split; [discriminate|]]. unfold phi; cbn [inp alloc length]. lia.
  - set (s1 := mkst (skipn n (inp s)) (alloc s + c * esz) (N.max (peak s) (c * esz))).
    assert (H1 : bytes_ok (inp s1)) by (apply bytes_ok_skipn; exact Hs).
    specialize (Hk (firstn n (inp s)) (firstn_len _ _ Hsh) (bytes_ok_firstn _ _ Hs) s1 H1).
    destruct Hk as (K1 & K2 & K3). repeat split; auto.
    assert (phi K s1 <= phi K s).
    { unfold phi, s1; cbn [inp alloc]. rewrite (skipn_len _ _ Hsh). lia. }
    lia.
Qed.

Lemma safe_make_readN {A} K c n (k : bytes -> M A) :
  c <= max_alloc -> c <= K -> c <= K * n ->
  (forall b, bytes_ok b -> safe K (k b)) ->
  safe K (mbind (make c 1) (fun _ => mbind (read_fullN n) k)).
Proof.
  intros Hmax HK Hn Hk s Hs.
  destruct (N.of_nat (length (inp s)) <? n) eqn:Hlt.
  - unfold mbind, make. rewrite N.mul_1_r.
    destruct (N.ltb_spec max_alloc c) as [H|_]; [lia|].
    unfold read_fullN; cbn [inp]. rewrite Hlt. cbn [fst snd is_ok inp alloc].
    split; [apply Forall_nil|split; [discriminate|]]. unfold phi; cbn [inp alloc length]. lia.
  - assert (E : mbind (make c 1) (fun _ => mbind (read_fullN n) k) s
              = mbind (make c 1) (fun _ => mbind (read_full (N.to_nat n)) k) s).
    { unfold mbind at 1 3. unfold make. rewrite N.mul_1_r.
      destruct (max_alloc <? c); [reflexivity|].
      unfold mbind, read_fullN. cbn [inp]. rewrite Hlt. reflexivity. }
    rewrite E. apply safe_make_read; auto; rewrite ?N.mul_1_r, ?N2Nat.id; auto.
Qed.

(* a read of n bytes followed by make(g b * esz): paid for by the n bytes *)
Lemma safe_read_make {A} K n (g : bytes -> N) esz (k : bytes -> M A) :
  (forall b, length b = n -> bytes_ok b ->
             g b * esz <= max_alloc /\ g b * esz <= K * N.of_nat n) ->
  (forall b, safe K (k b)) ->
  safe K (mbind (read_full n) (fun b => mbind (make (g b) esz) (fun _ => k b))).
Proof.
  intros Hg Hk s Hs. unfold mbind, read_full.
  destruct (short n (inp s)) eqn:Hsh; cbn [fst snd is_ok inp alloc].
  - split; [apply Forall_nil|split; [discriminate|]]. unfold phi; cbn [inp alloc length]. lia.
  - destruct (Hg (firstn n (inp s)) (firstn_len _ _ Hsh) (bytes_ok_firstn _ _ Hs)) as [G1 G2].
    set (b := firstn n (inp s)) in *.
    unfold make. cbn [inp alloc peak].
    destruct (N.ltb_spec max_alloc (g b * esz)) as [H|_]; [lia|].
    set (s1 := mkst (skipn n (inp s)) (alloc s + g b * esz) (N.max (peak s) (g b * esz))).
    assert (H1 : bytes_ok (inp s1)) by (apply bytes_ok_skipn; exact Hs).
    destruct (Hk b s1 H1) as (K1 & K2 & K3). repeat split; auto.
    assert (phi K s1 <= phi K s).
    { unfold phi, s1; cbn [inp alloc]. rewrite (skipn_len _ _ Hsh). lia. }
    lia.
Qed.

(** * readByteSlice *)
Definition Kmin : N := 16777220.   (* 2^24 + 4 *)

Lemma read_byte_slice_safe K : Kmin <= K -> safe K read_byte_slice.
Proof.
  intros HK. unfold read_byte_slice, Kmin in *.
  apply safe_read. intros fb Hl Hb.
  destruct (le_num fb <? 254) eqn:H1.
  - apply N.ltb_lt in H1.
    apply safe_make_readN; try (unfold max_alloc; lia).
    + destruct (N.eq_dec (le_num fb) 0) as [->|]; nia.
    + intros data Hd. apply safe_read. intros _ _ _. apply safe_ret.
  - destruct (le_num fb =? 254); [|apply safe_fail].
    apply safe_make_read; try (unfold max_alloc; cbn; lia).
    intros sz Hsz Hszb.
    pose proof (le_num_bound sz Hszb) as Hn. rewrite Hsz in Hn.
    change (256 ^ N.of_nat 3) with 16777216 in Hn.
    apply safe_make_readN; try (unfold max_alloc; lia).
    + destruct (N.eq_dec (le_num sz) 0) as [->|]; nia.
    + intros data Hd. apply safe_read. intros _ _ _. apply safe_ret.
Qed.

(** * decodeVector *)
Lemma iter_pos_safe K (D : M value) : safe K D ->
  forall p acc, safe K (iter_pos D p acc).
Proof.
  intros HD p; induction p as [p IH|p IH|]; intros acc; cbn [iter_pos].
  - apply safe_bind; [exact HD|]. intros v. apply safe_bind; [apply IH|]. intros acc'. apply IH.
  - apply safe_bind; [apply IH|]. intros acc'. apply IH.
  - apply safe_bind; [exact HD|]. intros v. apply safe_ret.
Qed.

Definition Kof (E : N) : N := N.max Kmin (1073741824 * E).   (* 2^30 * E *)

Lemma decode_vector_safe E esz (D : M value) :
  E <= 65536 -> esz <= E -> safe (Kof E) D -> safe (Kof E) (decode_vector D esz).
Proof.
  intros HE Hesz HD. unfold decode_vector.
  apply (safe_read_make (Kof E) 4 le_num esz).
  - intros b Hl Hb. pose proof (le_num_bound b Hb) as Hn. rewrite Hl in Hn.
    change (256 ^ N.of_nat 4) with 4294967296 in Hn.
    assert (le_num b * esz <= 4294967296 * E) by nia.
    unfold max_alloc, Kof. split; [nia|].
    change (N.of_nat 4) with 4. lia.
  - intros b. destruct (le_num b) as [|p]; [apply safe_ret|].
    apply safe_bind; [apply iter_pos_safe; exact HD|]. intros acc. apply safe_ret.
Qed.

(** * struct descriptors are hereditary for [slices_ok] *)
Lemma slice_elems_struct f ft fs :
  assoc f fs = Some ft -> incl (slice_elems ft) (slice_elems (GStruct fs)).
Proof.
  induction fs as [|[g gt] fs IH]; cbn [assoc]; [discriminate|].
  intros H. cbn [slice_elems]. destruct (String.eqb f g).
  - inversion H; subst. apply incl_appl, incl_refl.
  - apply incl_appr. exact (IH H).
Qed.

Lemma slices_ok_incl B E a b :
  incl (slice_elems a) (slice_elems b) -> slices_ok B E b = true -> slices_ok B E a = true.
Proof.
  unfold slices_ok. rewrite !forallb_forall. intros Hi Hb x Hx. apply Hb, Hi, Hx.
Qed.

Lemma slices_ok_field B E t path ft :
  slices_ok B E t = true -> field_ty t path = Some ft -> slices_ok B E ft = true.
Proof.
  revert t; induction path as [|f p IH]; intros t Ht H; cbn [field_ty] in H.
  - inversion H; subst; exact Ht.
  - destruct t; try discriminate.
    destruct (assoc f fs) as [gt|] eqn:Ef; [|discriminate].
    apply (IH gt); [|exact H].
    apply (slices_ok_incl B E _ _ (slice_elems_struct _ _ _ Ef) Ht).
Qed.

(** * generated UnmarshalTL bodies *)
Section Bodies.
  Variables (B : bindings) (E : N) (K : N) (D : gty -> M value).
  Hypothesis HD : forall t, slices_ok B E t = true -> safe K (D t).

  Lemma run_uaccess_safe sty pre a r :
    slices_ok B E sty = true -> acc_ok B E a = true -> safe K (run_uaccess D sty pre a r).
  Proof.
    intros Hs Ha. unfold run_uaccess. destruct a as [path tmp].
    destruct (last_of pre path); [|apply safe_fail].
    unfold acc_ok in Ha; cbn [snd] in Ha.
    destruct tmp as [[tt ad]|].
    - apply safe_bind; [apply HD; exact Ha|]. intros v; apply safe_ret.
    - destruct (field_ty sty path) as [ft|] eqn:Ef; [|apply safe_fail].
      apply safe_bind; [apply HD; exact (slices_ok_field _ _ _ _ _ Hs Ef)|].
      intros v; apply safe_ret.
  Qed.

  Lemma run_uaccesses_safe sty pre l : slices_ok B E sty = true ->
    forallb (acc_ok B E) l = true -> forall r, safe K (run_uaccesses D sty pre l r).
  Proof.
    intros Hs; induction l as [|a l IH]; intros Hl r; cbn [run_uaccesses].
    - apply safe_ret.
    - cbn [forallb] in Hl. apply andb_true_iff in Hl as [Ha Hl].
      apply safe_bind; [apply run_uaccess_safe; assumption|]. intros r'. apply IH; exact Hl.
  Qed.

  Lemma run_ustmt_safe sty pre s r : slices_ok B E sty = true ->
    stmt_ok B E s = true -> safe K (run_ustmt D sty pre s r).
  Proof.
    intros Hs Hst. destruct s; cbn [run_ustmt stmt_ok] in *; try apply safe_fail.
    - apply run_uaccess_safe; assumption.
    - destruct (N.testbit (mode_of r m) n); [apply run_uaccesses_safe; assumption|apply safe_ret].
    - apply safe_bind; [apply HD; reflexivity|]. intros v.
      destruct v; try apply safe_fail. destruct (n =? id); [apply safe_ret|apply safe_fail].
    - apply safe_bind; [apply HD; reflexivity|]. intros v.
      destruct v; try apply safe_fail. apply safe_ret.
  Qed.

  Lemma run_ustmts_safe sty pre ss : slices_ok B E sty = true ->
    forallb (stmt_ok B E) ss = true -> forall r, safe K (run_ustmts D sty pre ss r).
  Proof.
    intros Hs; induction ss as [|s ss IH]; intros Hl r; cbn [run_ustmts].
    - apply safe_ret.
    - cbn [forallb] in Hl. apply andb_true_iff in Hl as [Ha Hl].
      apply safe_bind; [apply run_ustmt_safe; assumption|]. intros r'. apply IH; exact Hl.
  Qed.

  Lemma find_ucase_ok id cs c ss :
    forallb (fun c => forallb (stmt_ok B E) (snd c)) cs = true ->
    find_ucase id cs = Some (c, ss) -> forallb (stmt_ok B E) ss = true.
  Proof.
    induction cs as [|[[i c'] ss'] cs IH]; cbn [find_ucase forallb]; [discriminate|].
    intros H F. apply andb_true_iff in H as [H1 H2]. destruct (i =? id).
    - inversion F; subst. exact H1.
    - apply IH; assumption.
  Qed.

  Lemma run_unmarshal_safe b : binding_ok B E b = true -> safe K (run_unmarshal D b).
  Proof.
    unfold binding_ok, run_unmarshal. intros H. apply andb_true_iff in H as [Ht Hu].
    destruct (b_unmarshal b) as [ss|cs]; cbn [ubody_ok] in Hu.
    - apply safe_bind; [apply run_ustmts_safe; assumption|]. intros r; apply safe_ret.
    - apply safe_read. intros tb _ _.
      destruct (find_ucase (le_num tb) cs) as [[c ss]|] eqn:F; [|apply safe_fail].
      apply safe_bind; [apply run_ustmts_safe; [assumption|exact (find_ucase_ok _ _ _ _ Hu F)]|].
      intros r; apply safe_ret.
  Qed.

  Lemma dec_struct_safe fs : slices_ok B E (GStruct fs) = true ->
    forall r, safe K (dec_struct D fs r).
  Proof.
    induction fs as [|[f ft] fs IH]; intros Hs r; cbn [dec_struct].
    - apply safe_ret.
    - apply safe_bind.
      + apply HD. apply (slices_ok_incl B E ft (GStruct ((f, ft) :: fs))); [|exact Hs].
        cbn [slice_elems]. apply incl_appl, incl_refl.
      + intros v. apply IH.
        apply (slices_ok_incl B E (GStruct fs) (GStruct ((f, ft) :: fs))); [|exact Hs].
        cbn [slice_elems]. apply incl_appr, incl_refl.
  Qed.
End Bodies.

(** * the whole decoder *)
Lemma Kof_min E : Kmin <= Kof E.
Proof. unfold Kof. lia. Qed.

Theorem gdec_safe B E : E <= 65536 -> wf_bindings B E = true ->
  forall fuel t, slices_ok B E t = true -> safe (Kof E) (gdec B fuel t).
Proof.
  intros HE HB fuel; induction fuel as [|k IH]; intros t Ht; cbn [gdec]; [apply safe_fail|].
  assert (HK4 : 8 <= Kof E) by (pose proof (Kof_min E); unfold Kmin in *; lia).
  destruct t.
  - apply safe_make_read; [unfold max_alloc; lia | lia | change (N.of_nat 4) with 4; lia |].
    intros b _ _. apply safe_ret.
  - apply safe_make_read; [unfold max_alloc; lia | lia | change (N.of_nat 8) with 8; lia |].
    intros b _ _. apply safe_ret.
  - apply safe_make_read; [unfold max_alloc; lia | lia | change (N.of_nat 4) with 4; lia |].
    intros b _ _.
    destruct (le_num b =? 2574415285); [apply safe_ret|].
    destruct (le_num b =? 3162085175); [apply safe_ret|apply safe_fail].
  - apply safe_bind; [apply read_byte_slice_safe, Kof_min|]. intros b; apply safe_ret.
  - apply safe_bind; [apply read_byte_slice_safe, Kof_min|]. intros b; apply safe_ret.
  - apply safe_read. intros b _ _. apply safe_ret.
  - (* slice *)
    assert (He : gsize B t <= E).
    { unfold slices_ok in Ht. cbn [slice_elems forallb] in Ht.
      apply andb_true_iff in Ht as [H _]. apply N.leb_le; exact H. }
    apply decode_vector_safe; auto. apply IH.
    unfold slices_ok in *. cbn [slice_elems forallb] in Ht.
    apply andb_true_iff in Ht as [_ H]. exact H.
  - apply safe_fail.
  - (* named *)
    destruct (find_binding B n) as [b|] eqn:F; [|apply safe_fail].
    apply (run_unmarshal_safe B E (Kof E) (gdec B k) IH).
    unfold wf_bindings in HB. rewrite forallb_forall in HB. apply HB.
    unfold find_binding in F. apply find_some in F as [F _]. exact F.
  - apply safe_bind; [apply (dec_struct_safe B E (Kof E) (gdec B k) IH); exact Ht|].
    intros r; apply safe_ret.
  - apply safe_fail.
  - apply safe_fail.
Qed.

(** tl.Unmarshal never panics *)
Theorem go_unmarshal_total B E t bs :
  E <= 65536 -> wf_bindings B E = true -> slices_ok B E t = true -> bytes_ok bs ->
  forall p, fst (go_unmarshal B t bs) <> Panic p.
Proof.
  intros HE HB Ht Hb. unfold go_unmarshal.
  destruct (gdec_safe B E HE HB go_fuel t Ht (st0 bs) Hb) as (_ & H & _). exact H.
Qed.

(** the allocation bound that holds *)
Theorem go_unmarshal_alloc B E t bs :
  E <= 65536 -> wf_bindings B E = true -> slices_ok B E t = true -> bytes_ok bs ->
  alloc (snd (go_unmarshal B t bs)) <= Kof E * (N.of_nat (length bs) + 1).
Proof.
  intros HE HB Ht Hb. unfold go_unmarshal.
  destruct (gdec_safe B E HE HB go_fuel t Ht (st0 bs) Hb) as (_ & _ & H).
  unfold phi in H. cbn [st0 inp alloc] in H.
  destruct (is_ok (fst (gdec B go_fuel t (st0 bs)))); lia.
Qed.

(** successful decoding: the allocation is paid by consumed bytes alone *)
Theorem go_unmarshal_alloc_ok B E t bs v s :
  E <= 65536 -> wf_bindings B E = true -> slices_ok B E t = true -> bytes_ok bs ->
  go_unmarshal B t bs = (Ok v, s) ->
  alloc s + Kof E * N.of_nat (length (inp s)) <= Kof E * N.of_nat (length bs).
Proof.
  intros HE HB Ht Hb Hr. unfold go_unmarshal in Hr.
  destruct (gdec_safe B E HE HB go_fuel t Ht (st0 bs) Hb) as (_ & _ & H).
  rewrite Hr in H. cbn [fst snd is_ok] in H. unfold phi in H. cbn [st0 inp alloc] in H. lia.
Qed.
