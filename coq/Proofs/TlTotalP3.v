(** The schema condition of the TL theorems without the rate: [sokw B fuel t]
    says exactly three things about the types reachable from [t] —
      (1) every vector element has a non-empty wire form (a successful decode of
          one element consumes at least one byte),
      (2) 4096 elements of every vector stay below maxAlloc,
      (3) the nesting fits the fuel —
    and it is equivalent to "[sok B rate fuel t] for some rate".  Without (1)
    the decoder is not linear: see [tl_empty_element_not_linear]. *)
From Coq Require Import String List NArith PArith Arith Lia Bool.
From Tongo Require Import Lib.Bits Lib.Res Spec.TlWire Model.Tl Model.TlTotal Proofs.TlTotalP Proofs.TlTotalP2 Proofs.FramingP.
Import ListNotations.
Local Open Scope N_scope.

Fixpoint sokw (B : bindings) (fuel : nat) (t : gty) : bool :=
  match fuel with
  | O => false
  | S k =>
    match t with
    | GSlice e =>
        sokw B k e && (1 <=? ww B k e) && (max_prealloc * gsize B e <=? max_alloc)
    | GNamed n =>
        match find_binding B n with
        | Some b => match b_unmarshal b with
                    | UPlain ss => forallb (stmt_ok (sokw B k) (b_type b) []) ss
                    | USwitch cs => forallb (fun c => forallb (stmt_ok (sokw B k) (b_type b) [snd (fst c)]) (snd c)) cs
                    end
        | None => true
        end
    | GStruct fs => forallb (fun f => sokw B k (snd f)) fs
    | _ => true
    end
  end.

(** ** monotone in the rate *)
Section Lift.
  Variables F G : gty -> bool.
  Hypothesis HFG : forall t, F t = true -> G t = true.
  Lemma acc_ok_impl sty pre a : acc_ok F sty pre a = true -> acc_ok G sty pre a = true.
  Proof. unfold acc_ok. destruct (acc_ty sty pre a) as [[[f ft] bp] | ]; auto. Qed.
  Lemma stmt_ok_impl sty pre s : stmt_ok F sty pre s = true -> stmt_ok G sty pre s = true.
  Proof.
    destruct s; cbn [stmt_ok]; auto using acc_ok_impl.
    rewrite !forallb_forall. intros H x Hx. apply acc_ok_impl. apply H. exact Hx.
  Qed.
  Lemma stmts_ok_impl sty pre ss :
    forallb (stmt_ok F sty pre) ss = true -> forallb (stmt_ok G sty pre) ss = true.
  Proof. rewrite !forallb_forall. intros H x Hx. apply stmt_ok_impl. apply H. exact Hx. Qed.
End Lift.

Lemma sok_mono B r r' : r <= r' -> forall fuel t, sok B r fuel t = true -> sok B r' fuel t = true.
Proof.
  intros Hr. induction fuel as [ | k IH]; intros t; [discriminate|]. cbn [sok].
  destruct t; auto.
  - intros H. apply andb_prop in H. destruct H as [H H3]. apply andb_prop in H. destruct H as [H1 H2].
    rewrite (IH _ H1), H3. cbn [andb]. rewrite andb_true_r.
    apply N.leb_le. apply N.leb_le in H2.
    assert (r * ww B k t <= r' * ww B k t) by (apply N.mul_le_mono_r; exact Hr). lia.
  - destruct (find_binding B n) as [b | ]; [|auto]. destruct (b_unmarshal b) as [ss | cs].
    + apply stmts_ok_impl. exact IH.
    + rewrite !forallb_forall. intros H c Hc. apply (stmts_ok_impl _ _ IH). apply H. exact Hc.
  - rewrite !forallb_forall. intros H f Hf. apply IH. apply H. exact Hf.
Qed.

(** ** [sok] for some rate implies [sokw] *)
Lemma kk_pos B k t : 1 <= kk B (S k) t.
Proof. cbn [kk]. unfold own. lia. Qed.

Lemma sok_sokw B r : forall fuel t, sok B r fuel t = true -> sokw B fuel t = true.
Proof.
  induction fuel as [ | k IH]; intros t; [discriminate|]. cbn [sok sokw].
  destruct t; auto.
  - intros H. apply andb_prop in H. destruct H as [H H3]. apply andb_prop in H. destruct H as [H1 H2].
    rewrite (IH _ H1), H3. cbn [andb]. rewrite andb_true_r.
    apply N.leb_le. apply N.leb_le in H2.
    destruct k as [ | k']; [discriminate|].
    pose proof (kk_pos B k' t).
    destruct (N.eq_dec (ww B (S k') t) 0) as [E | E]; [rewrite E, N.mul_0_r in H2; lia | lia].
  - destruct (find_binding B n) as [b | ]; [|auto]. destruct (b_unmarshal b) as [ss | cs].
    + apply stmts_ok_impl. exact IH.
    + rewrite !forallb_forall. intros H c Hc. apply (stmts_ok_impl _ _ IH). apply H. exact Hc.
  - rewrite !forallb_forall. intros H f Hf. apply IH. apply H. exact Hf.
Qed.

(** ** [sokw] implies [sok] for some rate *)
Section Exists.
  Variable B : bindings.
  Variable k : nat.
  Hypothesis IH : forall t, sokw B k t = true -> exists r, sok B r k t = true.

  Lemma acc_ex sty pre a : acc_ok (sokw B k) sty pre a = true -> exists r, acc_ok (sok B r k) sty pre a = true.
  Proof.
    unfold acc_ok. destruct (acc_ty sty pre a) as [[[f ft] bp] | ]; [apply IH | exists 0; reflexivity].
  Qed.

  Lemma list_ex {A} (P : N -> A -> bool) (l : list A) :
    (forall r r' x, r <= r' -> P r x = true -> P r' x = true) ->
    (forall x, In x l -> exists r, P r x = true) -> exists r, forallb (P r) l = true.
  Proof.
    intros Hm. induction l as [ | x l IHl]; intros H; [exists 0; reflexivity|].
    destruct (H x (or_introl eq_refl)) as [r1 H1].
    destruct IHl as [r2 H2]; [intros y Hy; apply H; right; exact Hy|].
    exists (N.max r1 r2). cbn [forallb].
    rewrite (Hm r1 _ x (N.le_max_l _ _) H1). cbn [andb].
    rewrite forallb_forall in *. intros y Hy. apply (Hm r2); [apply N.le_max_r | apply H2; exact Hy].
  Qed.

  Lemma acc_mono sty pre r r' a : r <= r' -> acc_ok (sok B r k) sty pre a = true -> acc_ok (sok B r' k) sty pre a = true.
  Proof. intros Hr. apply acc_ok_impl. intros t. apply sok_mono. exact Hr. Qed.
  Lemma stmt_mono sty pre r r' s : r <= r' -> stmt_ok (sok B r k) sty pre s = true -> stmt_ok (sok B r' k) sty pre s = true.
  Proof. intros Hr. apply stmt_ok_impl. intros t. apply sok_mono. exact Hr. Qed.

  Lemma stmt_ex sty pre s : stmt_ok (sokw B k) sty pre s = true -> exists r, stmt_ok (sok B r k) sty pre s = true.
  Proof.
    destruct s; cbn [stmt_ok]; try (intros _; exists 0; reflexivity).
    - apply acc_ex.
    - intros H. apply (list_ex (fun r a => acc_ok (sok B r k) sty pre a)).
      + intros r r' x Hr. apply acc_mono. exact Hr.
      + intros x Hx. apply acc_ex. rewrite forallb_forall in H. apply H. exact Hx.
    - apply IH.
    - apply IH.
  Qed.

  Lemma stmts_ex sty pre ss :
    forallb (stmt_ok (sokw B k) sty pre) ss = true -> exists r, forallb (stmt_ok (sok B r k) sty pre) ss = true.
  Proof.
    intros H. apply (list_ex (fun r s => stmt_ok (sok B r k) sty pre s)).
    - intros r r' x Hr. apply stmt_mono. exact Hr.
    - intros x Hx. apply stmt_ex. rewrite forallb_forall in H. apply H. exact Hx.
  Qed.
End Exists.

Theorem sokw_sok B : forall fuel t, sokw B fuel t = true -> exists r, sok B r fuel t = true.
Proof.
  induction fuel as [ | k IH]; intros t; [discriminate|]. cbn [sok sokw].
  destruct t; try (intros _; exists 0; reflexivity).
  - intros H. apply andb_prop in H. destruct H as [H H3]. apply andb_prop in H. destruct H as [H1 H2].
    destruct (IH _ H1) as [r1 Hr1]. apply N.leb_le in H2.
    set (need := kk B k t + (1 + append_charge 1) * gsize B t).
    exists (N.max r1 need).
    rewrite (sok_mono B r1 _ (N.le_max_l _ _) _ _ Hr1), H3. cbn [andb]. rewrite andb_true_r.
    apply N.leb_le.
    assert (N.max r1 need * 1 <= N.max r1 need * ww B k t) by (apply N.mul_le_mono_l; exact H2).
    fold need. lia.
  - destruct (find_binding B n) as [b | ]; [|intros _; exists 0; reflexivity].
    destruct (b_unmarshal b) as [ss | cs].
    + apply stmts_ex. exact IH.
    + intros H.
      apply (list_ex (fun r (c : N * string * list stmt) => forallb (stmt_ok (sok B r k) (b_type b) [snd (fst c)]) (snd c))).
      * intros r r' x Hr. rewrite !forallb_forall. intros Hx s Hs. apply (stmt_mono B k _ _ r r' s Hr). apply Hx. exact Hs.
      * intros x Hx. apply stmts_ex; [exact IH|]. rewrite forallb_forall in H. apply H. exact Hx.
  - intros H. apply (list_ex (fun r (f : string * gty) => sok B r k (snd f))).
    + intros r r' x Hr. apply sok_mono. exact Hr.
    + intros x Hx. apply IH. rewrite forallb_forall in H. apply H. exact Hx.
Qed.

Theorem sokw_iff B fuel t : sokw B fuel t = true <-> exists r, sok B r fuel t = true.
Proof. split; [apply sokw_sok | intros [r H]; apply (sok_sokw B r _ _ H)]. Qed.

(** ** the TL theorems without a rate *)
Theorem tl_decode_total_w B fuel t :
  sokw B fuel t = true -> forall bs p, fst (tl_unmarshal B fuel t bs) <> Panic p.
Proof. intros H. destruct (sokw_sok B _ _ H) as [r Hr]. apply (tl_decode_total B r fuel t Hr). Qed.

Theorem tl_decode_fuel_w B fuel t :
  sokw B fuel t = true -> forall bs, fst (tl_unmarshal B fuel t bs) <> Err EFuel.
Proof. intros H. destruct (sokw_sok B _ _ H) as [r Hr]. apply (tl_decode_fuel B r fuel t Hr). Qed.

Theorem tl_decode_linear_w B fuel t :
  sokw B fuel t = true -> exists a b, forall bs,
  t_alloc (snd (tl_unmarshal B fuel t bs)) + t_steps (snd (tl_unmarshal B fuel t bs))
  <= a * N.of_nat (length bs) + b.
Proof.
  intros H. destruct (sokw_sok B _ _ H) as [r Hr].
  exists (slope r fuel), (kk B fuel t + ee B fuel t). intros bs.
  apply (tl_decode_resources B r fuel t Hr).
Qed.

(** ** condition (1) is necessary: a vector whose element has an empty wire form
    makes the decoder loop [count] times on a 4-byte input *)
Definition empty_elem_schema : bindings :=
  [mkbinding "E"%string (GStruct []) MNone (UPlain [])].

Theorem tl_empty_element_not_linear :
  sokw empty_elem_schema 3 (GSlice (GNamed "E"%string)) = false /\
  exists bs, length bs = 4%nat /\
    65536 <= t_steps (snd (tl_unmarshal empty_elem_schema 3 (GSlice (GNamed "E"%string)) bs)).
Proof.
  split; [vm_compute; reflexivity|].
  exists [0; 0; 1; 0]. split; [reflexivity|]. vm_compute. discriminate.
Qed.
