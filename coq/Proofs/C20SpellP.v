(** C20 (round 8): non-canonical spellings of a cell in a cell document.  A cell whose
    descriptor says "last data byte not full" (odd d2) and whose last data byte is 0x80
    (completion tag in the top bit: the overlong form of a byte-aligned string) or 0x00
    (no completion tag) is rejected by the model's SetTopUppedArray, whatever precedes. *)
From Coq Require Import List NArith Arith Lia Bool.
From Tongo Require Import Lib.Bits Lib.Res Model.BocParse.
Import ListNotations.

Lemma bytes_bits_snoc (data : bytes) (b : N) :
  bytes_bits (data ++ [b]) = bytes_bits data ++ bits_of 8 b.
Proof.
  induction data as [|x t IH]; cbn [bytes_bits app].
  - rewrite app_nil_r. reflexivity.
  - rewrite IH, app_assoc. reflexivity.
Qed.

Lemma top_upped_overlong_rejected (data : bytes) :
  top_upped_bits (data ++ [128%N]) false = Err EParse.
Proof.
  unfold top_upped_bits, strip_completion.
  rewrite bytes_bits_snoc, rev_app_distr, app_length, Nat.add_comm.
  reflexivity.
Qed.

Lemma top_upped_untagged_rejected (data : bytes) :
  top_upped_bits (data ++ [0%N]) false = Err EParse.
Proof.
  unfold top_upped_bits, strip_completion.
  rewrite bytes_bits_snoc, rev_app_distr, app_length, Nat.add_comm.
  reflexivity.
Qed.
