(** C11 proofs, part 1: list helpers, readers (segmentation independence of
    io.ReadFull), stream cipher algebra, ParsePacket forward / inversion. *)
From Coq Require Import List NArith Bool Lia Arith.
From Tongo Require Import Lib.Bits Spec.AdnlSpec Model.AdnlT.
Import ListNotations.
Local Open Scope N_scope.

(* ---------- take ---------- *)

Lemma len_cons {A} (b : A) t : len (b :: t) = N.succ (len t).
Proof. unfold len. cbn [length]. lia. Qed.

Lemma len_app {A} (a b : list A) : len (a ++ b) = len a + len b.
Proof. unfold len. rewrite app_length. lia. Qed.

Lemma len_nil_inv {A} (l : list A) : len l = 0 -> l = [].
Proof. destruct l; [reflexivity|]. rewrite len_cons. lia. Qed.

Lemma take_spec {A} (l : list A) : forall n,
  take n l = (firstn (N.to_nat n) l, skipn (N.to_nat n) l, n - len l).
Proof.
  induction l as [|b t IH]; intros n.
  - cbn [take]. rewrite firstn_nil, skipn_nil. unfold len. cbn [length].
    f_equal. lia.
  - cbn [take]. destruct (N.eqb_spec n 0) as [E|E].
    + subst n. cbn. reflexivity.
    + rewrite IH. assert (Hn : N.to_nat n = S (N.to_nat (N.pred n))) by lia.
      rewrite Hn. cbn [firstn skipn]. rewrite len_cons. f_equal. lia.
Qed.

Lemma take_app_exact {A} (a b : list A) n :
  len a = n -> take n (a ++ b) = (a, b, 0).
Proof.
  intros E. rewrite take_spec. subst n. unfold len. rewrite Nat2N.id.
  rewrite firstn_app_exact, skipn_app_exact. f_equal.
  rewrite app_length. lia.
Qed.

(* ---------- bytes_eqb, le32, fit ---------- *)

Lemma bytes_eqb_eq a : forall b, bytes_eqb a b = true <-> a = b.
Proof.
  induction a as [|x a IH]; intros [|y b]; cbn [bytes_eqb]; split; intros E;
    try reflexivity; try discriminate.
  - apply andb_true_iff in E. destruct E as [E1 E2].
    apply N.eqb_eq in E1. apply IH in E2. congruence.
  - injection E as -> ->. rewrite N.eqb_refl. cbn. apply IH. reflexivity.
Qed.

Lemma bytes_eqb_refl a : bytes_eqb a a = true.
Proof. apply bytes_eqb_eq. reflexivity. Qed.

Lemma bytes_eqb_neq a b : a <> b -> bytes_eqb a b = false.
Proof.
  intros E. destruct (bytes_eqb a b) eqn:B; [|reflexivity].
  apply bytes_eqb_eq in B. contradiction.
Qed.

Lemma of_le32_le32 n : n < 4294967296 -> of_le32 (le32 n) = n.
Proof.
  intros Hn. unfold le32, of_le32.
  replace (n / 65536) with (n / 256 / 256) by (rewrite N.div_div by lia; reflexivity).
  replace (n / 16777216) with (n / 256 / 256 / 256)
    by (rewrite !N.div_div by lia; reflexivity).
  pose proof (N.div_mod n 256 ltac:(lia)) as E1.
  pose proof (N.div_mod (n / 256) 256 ltac:(lia)) as E2.
  pose proof (N.div_mod (n / 256 / 256) 256 ltac:(lia)) as E3.
  assert (Hq : n / 256 / 256 / 256 < 256).
  { rewrite !N.div_div by lia. apply N.div_lt_upper_bound; lia. }
  rewrite (N.mod_small (n / 256 / 256 / 256) 256) by exact Hq.
  lia.
Qed.

Lemma le32_length n : length (le32 n) = 4%nat.
Proof. reflexivity. Qed.

Lemma fit_exact n l : length l = n -> fit n l = l.
Proof. intros E. unfold fit. subst n. apply firstn_app_exact. Qed.

Lemma fit_length n l : length (fit n l) = n.
Proof.
  unfold fit. rewrite firstn_length, app_length, repeat_length. lia.
Qed.

(* ---------- read_full ---------- *)

Definition nonempty {A} (l : list A) : bool := negb (match l with [] => true | _ => false end).

Lemma concat_tail_reader (x : list N) (rr : reader) :
  concat (match x with [] => rr | _ => x :: rr end) = x ++ concat rr.
Proof. destruct x; reflexivity. Qed.

Lemma app_split_len {A} (a b c d : list A) :
  a ++ b = c ++ d -> (length a <= length c)%nat ->
  exists m, c = a ++ m /\ b = m ++ d.
Proof.
  revert c. induction a as [|x a IH]; intros c E L.
  - exists c. cbn in *. auto.
  - destruct c as [|y c]; [cbn in L; lia|].
    cbn in E. injection E as -> E. cbn in L.
    destruct (IH c E ltac:(lia)) as [m [-> ->]]. exists m. auto.
Qed.

Lemma read_full_ok (r : reader) : forall n got a rest,
  len a = n -> concat r = a ++ rest ->
  exists r', read_full n r got = RdOk a r' /\ concat r' = rest.
Proof.
  induction r as [|seg rr IH]; intros n got a rest La E.
  - cbn in E. symmetry in E. apply app_eq_nil in E. destruct E as [-> ->].
    assert (Hn : n = 0) by (unfold len in La; cbn in La; lia).
    rewrite Hn. cbn. eauto.
  - destruct (N.eqb_spec n 0) as [Z|NZ].
    + rewrite Z in La |- *. apply len_nil_inv in La. subst a. cbn [read_full].
      rewrite N.eqb_refl. eexists; split; [reflexivity|exact E].
    + cbn [read_full]. destruct (N.eqb_spec n 0) as [Z|_]; [contradiction|].
      rewrite take_spec. cbn [concat] in E.
      destruct (N.leb_spec n (len seg)) as [LE|GT].
      * (* the segment suffices *)
        replace (n - len seg) with 0 by lia. rewrite N.eqb_refl.
        symmetry in E.
        destruct (app_split_len a rest seg (concat rr) E) as [m [Hs Hr]].
        { unfold len in *. lia. }
        assert (Hk : N.to_nat n = length a) by (unfold len in La; lia).
        rewrite Hk, Hs, firstn_app_exact, skipn_app_exact.
        eexists; split; [reflexivity|]. rewrite concat_tail_reader. auto.
      * destruct (N.eqb_spec (n - len seg) 0) as [Z|_]; [lia|].
        destruct (app_split_len seg (concat rr) a rest E) as [m [Hs Hr]].
        { unfold len in *. lia. }
        rewrite firstn_all2 by (unfold len in GT; lia).
        destruct (IH (n - len seg) (got || nonempty seg)%bool m rest) as [r' [R C]].
        { subst a. rewrite len_app in La. lia. }
        { exact Hr. }
        unfold nonempty in R. rewrite R. subst a. eauto.
Qed.

Lemma read_full_short (r : reader) : forall n got,
  len (concat r) < n ->
  read_full n r got = if (got || nonempty (concat r))%bool then RdUnexp else RdEof.
Proof.
  induction r as [|seg rr IH]; intros n got L.
  - cbn [concat] in *. unfold len in L. cbn [length] in L.
    cbn [read_full]. destruct (N.eqb_spec n 0) as [Z|_]; [lia|].
    cbn. rewrite orb_false_r. reflexivity.
  - cbn [concat] in L. rewrite len_app in L.
    cbn [read_full]. destruct (N.eqb_spec n 0) as [Z|_]; [lia|].
    rewrite take_spec.
    destruct (N.eqb_spec (n - len seg) 0) as [Z|_]; [lia|].
    rewrite firstn_all2 by (unfold len in L; lia).
    rewrite IH by lia. cbn [concat]. unfold nonempty.
    destruct seg, (concat rr), got; reflexivity.
Qed.

(* complete characterisation by the flat stream *)
Lemma firstn_skipn_len {A} (l : list A) n :
  n <= len l -> len (firstn (N.to_nat n) l) = n.
Proof. intros L. unfold len in *. rewrite firstn_length. lia. Qed.

Lemma read_full_inv r n got a r' :
  read_full n r got = RdOk a r' -> len a = n /\ concat r = a ++ concat r'.
Proof.
  intros R. destruct (N.leb_spec n (len (concat r))) as [LE|GT].
  - destruct (read_full_ok r n got (firstn (N.to_nat n) (concat r)) (skipn (N.to_nat n) (concat r)))
      as [r0 [R0 C0]].
    + apply firstn_skipn_len. exact LE.
    + symmetry. apply firstn_skipn.
    + rewrite R in R0. injection R0 as -> ->. split.
      * apply firstn_skipn_len. exact LE.
      * rewrite C0. symmetry. apply firstn_skipn.
  - rewrite read_full_short in R by exact GT.
    destruct (got || nonempty (concat r))%bool; discriminate.
Qed.

Definition rd_equiv (x y : rd_res) : Prop :=
  match x, y with
  | RdOk a r, RdOk b r' => a = b /\ concat r = concat r'
  | RdEof, RdEof => True
  | RdUnexp, RdUnexp => True
  | _, _ => False
  end.

(* io.ReadFull does not see segment boundaries *)
Lemma read_full_seg r1 r2 n got :
  concat r1 = concat r2 -> rd_equiv (read_full n r1 got) (read_full n r2 got).
Proof.
  intros E. destruct (N.leb_spec n (len (concat r1))) as [LE|GT].
  - set (a := firstn (N.to_nat n) (concat r1)).
    set (rest := skipn (N.to_nat n) (concat r1)).
    assert (La : len a = n) by (apply firstn_skipn_len; exact LE).
    assert (Ec : concat r1 = a ++ rest) by (symmetry; apply firstn_skipn).
    destruct (read_full_ok r1 n got a rest La Ec) as [x [-> Cx]].
    rewrite E in Ec.
    destruct (read_full_ok r2 n got a rest La Ec) as [y [-> Cy]].
    cbn. split; congruence.
  - rewrite (read_full_short r1) by exact GT.
    rewrite (read_full_short r2) by (rewrite <- E; exact GT).
    rewrite E. destruct (got || nonempty (concat r2))%bool; exact I.
Qed.

(* ---------- stream cipher ---------- *)

Section Cipher.
  Variable H : list N -> list N.
  Variable cstate : Type.
  Variable next : cstate -> N * cstate.

  Notation xor_stream := (xor_stream cstate next).

  Lemma xor_stream_app a : forall s b,
    xor_stream s (a ++ b) =
    let '(oa, s1) := xor_stream s a in
    let '(ob, s2) := xor_stream s1 b in (oa ++ ob, s2).
  Proof.
    induction a as [|x a IH]; intros s b.
    - cbn. destruct (xor_stream s b); reflexivity.
    - cbn [app AdnlT.xor_stream]. destruct (next s) as [k s1].
      rewrite IH. destruct (xor_stream s1 a) as [oa s2].
      destruct (xor_stream s2 b) as [ob s3]. reflexivity.
  Qed.

  Lemma xor_stream_app_eq s a b oa s1 ob s2 :
    xor_stream s a = (oa, s1) -> xor_stream s1 b = (ob, s2) ->
    xor_stream s (a ++ b) = (oa ++ ob, s2).
  Proof. intros E1 E2. rewrite xor_stream_app, E1, E2. reflexivity. Qed.

  Lemma xor_stream_length a : forall s, length (fst (xor_stream s a)) = length a.
  Proof.
    induction a as [|x a IH]; intros s; [reflexivity|].
    cbn [AdnlT.xor_stream]. destruct (next s) as [k s1].
    specialize (IH s1). destruct (xor_stream s1 a) as [o s2]. cbn in *. lia.
  Qed.

  Lemma xor_stream_length_eq s a c s' : xor_stream s a = (c, s') -> length c = length a.
  Proof. intros E. pose proof (xor_stream_length a s) as L. rewrite E in L. exact L. Qed.

  (* the state after n bytes depends only on n *)
  Lemma xor_stream_state a : forall b s,
    length a = length b -> snd (xor_stream s a) = snd (xor_stream s b).
  Proof.
    induction a as [|x a IH]; intros [|y b] s L; try discriminate; [reflexivity|].
    cbn [AdnlT.xor_stream]. destruct (next s) as [k s1].
    specialize (IH b s1 ltac:(cbn in L; lia)).
    destruct (xor_stream s1 a), (xor_stream s1 b). exact IH.
  Qed.

  Lemma lxor_invol b k : N.lxor (N.lxor b k) k = b.
  Proof. rewrite N.lxor_assoc, N.lxor_nilpotent, N.lxor_0_r. reflexivity. Qed.

  (* decrypting with the same state undoes encrypting *)
  Lemma xor_stream_invol a : forall s c s',
    xor_stream s a = (c, s') -> xor_stream s c = (a, s').
  Proof.
    induction a as [|x a IH]; intros s c s' E.
    - cbn in E. injection E as <- <-. reflexivity.
    - cbn [AdnlT.xor_stream] in E. destruct (next s) as [k s1] eqn:Nx.
      destruct (xor_stream s1 a) as [o s2] eqn:X. injection E as <- <-.
      cbn [AdnlT.xor_stream]. rewrite Nx, (IH s1 o s2 X), lxor_invol. reflexivity.
  Qed.

  Lemma xor_stream_inj s a b c s1 s2 :
    xor_stream s a = (c, s1) -> xor_stream s b = (c, s2) -> a = b.
  Proof.
    intros E1 E2. apply xor_stream_invol in E1. apply xor_stream_invol in E2.
    congruence.
  Qed.

  (* splitting a ciphertext along a split of its plaintext *)
  Lemma xor_stream_split s a b c s' :
    xor_stream s (a ++ b) = (c, s') ->
    exists ca cb s1, c = ca ++ cb /\ xor_stream s a = (ca, s1) /\ xor_stream s1 b = (cb, s').
  Proof.
    rewrite xor_stream_app. destruct (xor_stream s a) as [ca s1].
    destruct (xor_stream s1 b) as [cb s2] eqn:Xb. intros E. injection E as <- <-.
    exists ca, cb, s1. auto.
  Qed.
End Cipher.
