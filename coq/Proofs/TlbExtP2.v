(** Extension layer, part 2: the decoder inverts the declarative serialisation;
    round trip. *)
From Coq Require Import List NArith ZArith Arith Lia Bool.
From Tongo Require Import Lib.Bits Lib.Res Proofs.BitStringW Proofs.BitStringR Model.TlbCore Proofs.TlbCoreP Model.TlbExt Proofs.TlbExtP.
Import ListNotations.

Theorem xdec_inverts_spec : forall fuel t v u bs rs tb tr,
  xwf fuel t = true -> xhas_type fuel t v = true ->
  xspec fuel t v u = Some (bs, rs) ->
  tail_ok (xtail fuel t) tb tr ->
  xdec fuel t (mks (bs ++ tb) (rs ++ tr)) = Ok (v, mks tb tr).
Proof.
  induction fuel as [|f IH]; intros t v u bs rs tb tr Hwf Hty Hsp Htl; [discriminate|].
  destruct t; cbn [xwf xhas_type xspec xdec xtail] in *.
  - (* XBase *) apply dec_inverts_spec; assumption.
  - (* XSnake *) destruct v; try discriminate. injection Hsp as Hsp.
    destruct Htl as [Htl|(-> & ->)]; [discriminate|].
    pose proof (get_snake_spec u l) as Hg. rewrite Hsp in Hg. exact Hg.
  - (* XLenBytes *) destruct v; try discriminate.
    apply andb_true_iff in Hty. destruct Hty as (Hm & Hn).
    rewrite Hm in Hsp. cbn [negb] in Hsp. injection Hsp as <- <-.
    apply Nat.eqb_eq in Hm. apply N.ltb_lt in Hn.
    rewrite <- app_assoc. rewrite take_bits_app' by apply bits_of_length.
    cbn [bind fst snd].
    rewrite N_of_bits_bits_of_small by exact Hn. rewrite Nat2N.id.
    assert (Hl : (8 * (length l / 8))%nat = length l).
    { pose proof (Nat.div_mod (length l) 8 ltac:(lia)). lia. }
    change (length l / 8)%nat with (fst (Nat.divmod (length l) 7 0 7)) in Hl.
    rewrite Hl. cbn [app]. rewrite take_bits_app' by reflexivity. reflexivity.
  - (* XMaybe *) destruct v; try discriminate.
    match goal with o : option value |- _ => destruct o as [x|] end.
    + destruct (xspec f t x (S u)) as [[bs' rs']|] eqn:Es; [|discriminate]. injection Hsp as <- <-.
      change ((true :: bs') ++ tb) with ([true] ++ (bs' ++ tb)).
      rewrite (take_bits_app' 1 [true]) by reflexivity. cbn [bind fst snd nth].
      rewrite (IH _ _ _ _ _ _ _ Hwf Hty Es Htl). reflexivity.
    + injection Hsp as <- <-. rewrite (take_bits_app' 1 [false]) by reflexivity. reflexivity.
  - (* XEither *) apply andb_true_iff in Hwf. destruct Hwf as (Hw1 & Hw2).
    assert (Ht1 : tail_ok (xtail f t1) tb tr).
    { destruct Htl as [Htl|Htl]; [left|right; exact Htl]. apply orb_false_iff in Htl. tauto. }
    assert (Ht2 : tail_ok (xtail f t2) tb tr).
    { destruct Htl as [Htl|Htl]; [left|right; exact Htl]. apply orb_false_iff in Htl. tauto. }
    destruct v; try discriminate.
    match goal with r : bool |- _ => destruct r end.
    + destruct (xspec f t2 v (S u)) as [[bs' rs']|] eqn:Es; [|discriminate]. injection Hsp as <- <-.
      change ((true :: bs') ++ tb) with ([true] ++ (bs' ++ tb)).
      rewrite (take_bits_app' 1 [true]) by reflexivity. cbn [bind fst snd nth].
      rewrite (IH _ _ _ _ _ _ _ Hw2 Hty Es Ht2). reflexivity.
    + destruct (xspec f t1 v (S u)) as [[bs' rs']|] eqn:Es; [|discriminate]. injection Hsp as <- <-.
      change ((false :: bs') ++ tb) with ([false] ++ (bs' ++ tb)).
      rewrite (take_bits_app' 1 [false]) by reflexivity. cbn [bind fst snd nth].
      rewrite (IH _ _ _ _ _ _ _ Hw1 Hty Es Ht1). reflexivity.
  - (* XEitherRef *) destruct v; try discriminate.
    match goal with r : bool |- _ => destruct r end.
    + destruct (xspec f t v 0) as [[bs' rs']|] eqn:Es; [|discriminate]. injection Hsp as <- <-.
      rewrite (take_bits_app' 1 [true]) by reflexivity. cbn [bind fst snd nth app take_ref sr sb].
      unfold open. cbn [ct_bits ct_refs].
      rewrite <- (app_nil_r bs'), <- (app_nil_r rs').
      rewrite (IH _ _ _ _ _ [] [] Hwf Hty Es); [reflexivity|right; auto].
    + destruct (xspec f t v (S u)) as [[bs' rs']|] eqn:Es; [|discriminate]. injection Hsp as <- <-.
      change ((false :: bs') ++ tb) with ([false] ++ (bs' ++ tb)).
      rewrite (take_bits_app' 1 [false]) by reflexivity. cbn [bind fst snd nth].
      rewrite (IH _ _ _ _ _ _ _ Hwf Hty Es Htl). reflexivity.
  - (* XRef *) destruct (xspec f t v 0) as [[bs' rs']|] eqn:Es; [|discriminate]. injection Hsp as <- <-.
    cbn [app take_ref sr sb bind fst snd]. unfold open. cbn [ct_bits ct_refs].
    rewrite <- (app_nil_r bs'), <- (app_nil_r rs').
    rewrite (IH _ _ _ _ _ [] [] Hwf Hty Es); [reflexivity|right; auto].
  - (* XMaybeRef *) destruct v; try discriminate.
    match goal with o : option value |- _ => destruct o as [x|] end.
    + destruct (xspec f t x 0) as [[bs' rs']|] eqn:Es; [|discriminate]. injection Hsp as <- <-.
      rewrite (take_bits_app' 1 [true]) by reflexivity. cbn [bind fst snd nth app take_ref sr sb].
      unfold open. cbn [ct_bits ct_refs].
      rewrite <- (app_nil_r bs'), <- (app_nil_r rs').
      rewrite (IH _ _ _ _ _ [] [] Hwf Hty Es); [reflexivity|right; auto].
    + injection Hsp as <- <-. rewrite (take_bits_app' 1 [false]) by reflexivity. reflexivity.
  - (* XStruct *) destruct v; try discriminate.
    apply andb_true_iff in Hwf. destruct Hwf as (Hall & Hnt).
    assert (Hgen : forall acc,
      (fix go (fs : list xty) (s : slc) (acc : list value) : res (value * slc) :=
         match fs with
         | [] => Ok (VStruct (rev acc), s)
         | t1 :: ft => do y <- xdec f t1 s; go ft (snd y) (fst y :: acc)
         end) fs (mks (bs ++ tb) (rs ++ tr)) acc = Ok (VStruct (rev acc ++ vs), mks tb tr)).
    { revert vs u bs rs Hty Hsp Hall Hnt Htl.
      induction fs as [|t1 ft IHf]; intros vs u bs rs Hty Hsp Hall Hnt Htl acc; destruct vs as [|v1 vt]; try discriminate.
      - injection Hsp as <- <-. rewrite app_nil_r. reflexivity.
      - apply andb_true_iff in Hty. destruct Hty as (Hty1 & Hty2).
        cbn [forallb] in Hall. apply andb_true_iff in Hall. destruct Hall as (Hw1 & Hw2).
        destruct (xspec f t1 v1 u) as [[b1 r1]|] eqn:E1; [|discriminate].
        match type of Hsp with match ?X with _ => _ end = _ => destruct X as [[b2 r2]|] eqn:E2; [|discriminate] end.
        injection Hsp as <- <-. rewrite <- !app_assoc.
        destruct ft as [|t2 ft'].
        + destruct vt; [|discriminate]. injection E2 as <- <-. cbn [app].
          rewrite (IH _ _ _ _ _ _ _ Hw1 Hty1 E1 Htl). cbn [bind fst snd rev].
          reflexivity.
        + apply andb_true_iff in Hnt. destruct Hnt as (Hn1 & Hn2).
          apply negb_true_iff in Hn1.
          rewrite (IH _ _ _ _ _ _ _ Hw1 Hty1 E1 (or_introl Hn1)). cbn [bind fst snd].
          rewrite (IHf vt _ b2 r2 Hty2 E2 Hw2 Hn2 Htl).
          cbn [rev]. rewrite <- app_assoc. reflexivity. }
    rewrite Hgen. reflexivity.
  - (* XSum *) destruct v; try discriminate.
    apply andb_true_iff in Hwf. destruct Hwf as (Hall & Hpf).
    destruct (nth_error alts k) as [[[len val] t']|] eqn:En; [|discriminate].
    destruct (xspec f t' v (u + len)) as [[bs' rs']|] eqn:Es; [|discriminate]. injection Hsp as <- <-.
    cbn [snd] in Hty.
    destruct (nth_error_split alts k En) as (pre & post & Halts & Hk).
    subst alts.
    rewrite forallb_app in Hall. apply andb_true_iff in Hall. destruct Hall as (Hpre & Hk').
    cbn [forallb] in Hk'. apply andb_true_iff in Hk'. destruct Hk' as (Hkk & _).
    apply andb_true_iff in Hkk. destruct Hkk as (Hwk & Hvk). cbn [fst snd] in Hwk, Hvk.
    apply N.ltb_lt in Hvk.
    assert (Htk : tail_ok (xtail f t') tb tr).
    { destruct Htl as [Htl|Htl]; [left|right; exact Htl].
      rewrite existsb_app in Htl. apply orb_false_iff in Htl. destruct Htl as (_ & Htl).
      cbn [existsb snd] in Htl. apply orb_false_iff in Htl. tauto. }
    set (S := bits_of len val ++ bs' ++ tb).
    assert (HS : (bits_of len val ++ bs') ++ tb = S) by (unfold S; rewrite <- app_assoc; reflexivity).
    rewrite HS.
    assert (Hloop : forall j pre',
      forallb (fun a => xwf f (snd a) && (snd (fst a) <? 2 ^ N.of_nat (fst (fst a)))%N) pre' = true ->
      forallb (fun u => negb (is_prefix (bits_of len val) u) && negb (is_prefix u (bits_of len val)))
              (map xtag_bits pre') = true ->
      (fix go (k : nat) (alts : list (nat * N * xty)) : res (value * slc) :=
         match alts with
         | [] => Err ETlb
         | (len, val, t') :: rest =>
             if short len (sb (mks S (rs' ++ tr))) then go (Datatypes.S k) rest
             else if N.eqb (N_of_bits (firstn len (sb (mks S (rs' ++ tr))))) val then
               do y <- xdec f t' (mks (skipn len (sb (mks S (rs' ++ tr)))) (sr (mks S (rs' ++ tr))));
               Ok (VSum k (fst y), snd y)
             else go (Datatypes.S k) rest
         end) j (pre' ++ (len, val, t') :: post) = Ok (VSum (j + length pre') v, mks tb tr)).
    { intros j pre'. revert j. induction pre' as [|[[la va] ta] pre'' IHp]; intros j Hwp Hfree.
      - cbn [app sb sr length]. rewrite Nat.add_0_r.
        unfold S at 1. rewrite short_spec, !app_length, bits_of_length.
        destruct (Nat.ltb_spec (len + (length bs' + length tb)) len); [lia|].
        unfold S at 1. assert (Hl : length (bits_of len val) = len) by apply bits_of_length.
        rewrite <- Hl at 1. rewrite firstn_app_exact.
        rewrite N_of_bits_bits_of_small by exact Hvk. rewrite N.eqb_refl.
        unfold S. rewrite <- Hl at 1. rewrite skipn_app_exact.
        rewrite (IH _ _ _ _ _ _ _ Hwk Hty Es Htk). reflexivity.
      - cbn [app]. cbn [forallb map] in Hwp, Hfree.
        apply andb_true_iff in Hwp. destruct Hwp as (Hwa & Hwp).
        apply andb_true_iff in Hwa. destruct Hwa as (_ & Hva). cbn [fst snd] in Hva. apply N.ltb_lt in Hva.
        apply andb_true_iff in Hfree. destruct Hfree as (Hfa & Hfree).
        apply andb_true_iff in Hfa. destruct Hfa as (Hf1 & Hf2).
        apply negb_true_iff in Hf1. apply negb_true_iff in Hf2.
        unfold xtag_bits in Hf1, Hf2. cbn [fst snd] in Hf1, Hf2.
        cbn [sb].
        assert (Hnext : (fix go (k : nat) (alts : list (nat * N * xty)) : res (value * slc) :=
         match alts with
         | [] => Err ETlb
         | (len, val, t') :: rest =>
             if short len (sb (mks S (rs' ++ tr))) then go (Datatypes.S k) rest
             else if N.eqb (N_of_bits (firstn len (sb (mks S (rs' ++ tr))))) val then
               do y <- xdec f t' (mks (skipn len (sb (mks S (rs' ++ tr)))) (sr (mks S (rs' ++ tr))));
               Ok (VSum k (fst y), snd y)
             else go (Datatypes.S k) rest
         end) (Datatypes.S j) (pre'' ++ (len, val, t') :: post) = Ok (VSum (j + length ((la, va, ta) :: pre'')) v, mks tb tr)).
        { rewrite (IHp (Datatypes.S j) Hwp Hfree). cbn [length]. do 3 f_equal. lia. }
        destruct (short la S) eqn:Esh; [exact Hnext|].
        destruct (N.eqb_spec (N_of_bits (firstn la S)) va) as [Heq|Hne]; [|exact Hnext].
        exfalso.
        rewrite short_spec in Esh. apply Nat.ltb_ge in Esh.
        assert (Hpa : is_prefix (bits_of la va) S = true).
        { apply firstn_is_prefix; [rewrite bits_of_length; exact Esh|].
          rewrite bits_of_length.
          apply N_of_bits_inj; [rewrite firstn_length, bits_of_length; lia|].
          rewrite N_of_bits_bits_of_small by exact Hva. exact Heq. }
        assert (Hpk : is_prefix (bits_of len val) S = true) by (unfold S; apply is_prefix_app).
        destruct (prefixes_comparable _ _ _ Hpk Hpa); congruence. }
    cbn [sb sr].
    assert (Hfree : forallb (fun u => negb (is_prefix (bits_of len val) u) && negb (is_prefix u (bits_of len val)))
                            (map xtag_bits pre) = true).
    { clear - Hpf. rewrite map_app in Hpf. cbn [map] in Hpf.
      induction (map xtag_bits pre) as [|u us IHu]; [reflexivity|].
      cbn [app prefix_free] in Hpf. apply andb_true_iff in Hpf. destruct Hpf as (Hu & Hrest).
      rewrite forallb_app in Hu. apply andb_true_iff in Hu. destruct Hu as (_ & Hu).
      cbn [forallb] in Hu. apply andb_true_iff in Hu. destruct Hu as (Hu & _).
      cbn [forallb]. rewrite (IHu Hrest), andb_true_r.
      unfold xtag_bits in Hu at 1 2. cbn [fst snd] in Hu.
      apply andb_true_iff in Hu. destruct Hu as (H1 & H2). rewrite H1, H2. reflexivity. }
    pose proof (Hloop 0%nat pre Hpre Hfree) as Hl. cbn [sb sr] in Hl.
    rewrite Hl. rewrite Hk. reflexivity.
Qed.

(** round trip at the entry points *)
Theorem xgeneric_roundtrip t v c :
  xwf_ty t = true -> xin_domain t v = true ->
  xencode t v = Ok c ->
  xdecode t c = Ok (v, mks [] []).
Proof.
  unfold xwf_ty, xin_domain, xencode, xdecode. intros Hwf Hty He.
  destruct (xenc (xfuel_of t) t v empty_bld) as [b| |] eqn:E; try discriminate. injection He as <-.
  destruct (xenc_is_spec _ _ _ _ _ E) as (bs & rs & Hs & Hx).
  rewrite (extends_empty _ _ _ Hx). unfold open. cbn [ct_bits ct_refs].
  rewrite <- (app_nil_r bs), <- (app_nil_r rs).
  eapply xdec_inverts_spec; eauto. right. auto.
Qed.

(** prefix law with the fill level of the builder made explicit *)
Theorem xprefix_law fuel t v b b' :
  xwf fuel t = true -> xhas_type fuel t v = true ->
  xenc fuel t v b = Ok b' ->
  exists bs rs,
    bb b' = bb b ++ bs /\ br b' = br b ++ rs /\
    forall tb tr, (xtail fuel t = false \/ (tb = [] /\ tr = [])) ->
      xdec fuel t (mks (bs ++ tb) (rs ++ tr)) = Ok (v, mks tb tr).
Proof.
  intros Hwf Hty He.
  destruct (xenc_is_spec _ _ _ _ _ He) as (bs & rs & Hs & Hb & Hr).
  exists bs, rs. split; [exact Hb|]. split; [exact Hr|].
  intros tb tr Ht. eapply xdec_inverts_spec; eassumption.
Qed.

(** a snake chain carries any bit string, of any length *)
Theorem snake_roundtrip l c :
  xencode XSnake (VBits l) = Ok c -> xdecode XSnake c = Ok (VBits l, mks [] []).
Proof. apply xgeneric_roundtrip; reflexivity. Qed.

(** length-prefixed bytes: the prefix is the number of BYTES that follow *)
Theorem lenbytes_exact fuel w l u :
  (length l mod 8 = 0)%nat ->
  xspec (S fuel) (XLenBytes w) (VBits l) u = Some (bits_of w (N.of_nat (length l / 8)) ++ l, []).
Proof. intros H. cbn [xspec]. apply Nat.eqb_eq in H. rewrite H. reflexivity. Qed.
