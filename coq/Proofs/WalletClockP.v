(** The default expiry of every entry point that builds a signed body is
    now + the lifetime the wallet was configured with (C14, clock as a parameter). *)
From Coq Require Import List NArith ZArith Arith Bool Lia.
From Tongo Require Import Lib.Bits Lib.Res Model.BocParse Model.CellHash Spec.ReprHash Model.Wallet
  Proofs.WalletP Proofs.WalletSigP Proofs.WalletHlP.
Import ListNotations.

Section Clock.
Variable SK : Type.
Variable chash : cell -> res bytes.
Variable sign : SK -> bytes -> bits.
Hypothesis sig_len : forall sk m, length (sign sk m) = 512%nat.

(* CreateMessageBody: an explicit ValidUntil is signed as given, a zero one
   becomes now + the wallet's lifetime; decoding the body shows it *)
Theorem create_message_body_expiry w sk life now cfg ms seqno rnd body :
  modes_ok ms -> sendable (w_ver w) -> (seqno < 4294967296)%N ->
  api_create_message_body SK chash sign w sk life now cfg ms seqno op_signed_external rnd = Ok body ->
  exists d, decode_body (w_ver w) body = Ok d /\ d_msgs d = ms /\
            d_valid d = unix32 (match cfg with Some v => v | None => expiry now life end).
Proof.
  intros Hm Hs Hq H. unfold api_create_message_body in H.
  destruct (built_body_decodes SK chash sign sig_len _ _ _ _ _ _ _ Hm Hs Hq H) as (d & Hd & D1 & _ & D3 & _).
  exists d. auto.
Qed.

(* with the options: no WithMessageLifetime = 3 minutes, WithMessageLifetime d = d *)
Corollary create_message_body_default_expiry w sk olife now ms seqno rnd body :
  modes_ok ms -> sendable (w_ver w) -> (seqno < 4294967296)%N ->
  api_create_message_body SK chash sign w sk (lifetime_of olife) now None ms seqno op_signed_external rnd = Ok body ->
  exists d, decode_body (w_ver w) body = Ok d /\
            d_valid d = unix32 (match olife with
                                | Some l => (now + l) / 1000000000
                                | None => (now + 180000000000) / 1000000000
                                end)%Z.
Proof.
  intros Hm Hs Hq H. destruct (create_message_body_expiry _ _ _ _ _ _ _ _ _ Hm Hs Hq H) as (d & Hd & _ & Hv).
  exists d. split; [exact Hd|]. rewrite Hv. destruct olife; reflexivity.
Qed.

End Clock.
