(** C01 — cell re-ordering of the serialiser, part 3: the weight passes of
    [reorderCells] change nothing but [ci_wt] / [ci_root] (so the weights are an
    arbitrary assignment as far as the traversal is concerned), and the
    universal theorem [reorder_valid]. *)
From Coq Require Import List NArith ZArith Arith Bool Lia Permutation.
From Tongo Require Import Lib.Bits Lib.Res Model.BocParse Model.BocSer
  Proofs.BocReorderP1 Proofs.BocReorderP2.
Import ListNotations.

(** *** the preparation passes only touch weights and root flags *)
Definition same_cell (c c' : cinfo) : Prop :=
  ci_node c' = ci_node c /\ ci_cache c' = ci_cache c /\ ci_refs c' = ci_refs c /\
  ci_hashcount c' = ci_hashcount c /\ ci_new c' = ci_new c.

Definition same_shape (st st' : list cinfo) : Prop :=
  length st' = length st /\ forall i, same_cell (get_ci st i) (get_ci st' i).

Lemma same_cell_refl c : same_cell c c.
Proof. repeat split. Qed.

Lemma same_cell_trans c1 c2 c3 : same_cell c1 c2 -> same_cell c2 c3 -> same_cell c1 c3.
Proof.
  intros (A1 & A2 & A3 & A4 & A5) (B1 & B2 & B3 & B4 & B5).
  repeat split; congruence.
Qed.

Lemma same_shape_refl st : same_shape st st.
Proof. split; [reflexivity|]. intros i. apply same_cell_refl. Qed.

Lemma same_shape_trans s1 s2 s3 : same_shape s1 s2 -> same_shape s2 s3 -> same_shape s1 s3.
Proof.
  intros [L1 C1] [L2 C2]. split; [congruence|].
  intros i. eapply same_cell_trans; [apply C1|apply C2].
Qed.

Lemma same_shape_set st r c : same_cell (get_ci st r) c -> same_shape st (set_ci st r c).
Proof.
  intros Hc. split; [apply set_ci_length|].
  intros i. destruct (Nat.eq_dec r i) as [->|Hne].
  - destruct (Nat.lt_ge_cases i (length st)) as [Hlt|Hge].
    + rewrite get_set_eq by exact Hlt. exact Hc.
    + unfold set_ci. rewrite set_nth_oob by exact Hge. apply same_cell_refl.
  - rewrite get_set_neq by exact Hne. apply same_cell_refl.
Qed.

Lemma fold_shape_acc {B C} (f : list cinfo * C -> B -> list cinfo * C) st0 :
  (forall acc b, same_shape st0 (fst acc) -> same_shape st0 (fst (f acc b))) ->
  forall l acc, same_shape st0 (fst acc) -> same_shape st0 (fst (fold_left f l acc)).
Proof.
  intros Hf. induction l as [|b t IH]; intros acc Ha; cbn [fold_left]; [exact Ha|].
  apply IH. apply Hf. exact Ha.
Qed.

Lemma fold_shape {B} (f : list cinfo -> B -> list cinfo) :
  (forall s b, same_shape s (f s b)) ->
  forall l s, same_shape s (fold_left f l s).
Proof.
  intros Hf. induction l as [|b t IH]; intros s; cbn [fold_left]; [apply same_shape_refl|].
  eapply same_shape_trans; [apply Hf|apply IH].
Qed.

Lemma pass1_shape st i : same_shape st (pass1_cell st i).
Proof.
  unfold pass1_cell. cbv zeta.
  destruct (fold_left _ (combine _ _) (_, _, _)) as [[c sum] mask].
  destruct (0 <? c); [|apply same_shape_refl].
  apply fold_shape_acc; [|apply same_shape_refl].
  intros [s sm] [j r] Ha. cbn [fst] in *.
  destruct (nth j mask false); [exact Ha|].
  destruct (_ <? _); [|exact Ha]. cbn [fst].
  eapply same_shape_trans; [exact Ha|].
  apply same_shape_set. repeat split.
Qed.

Lemma pass2_shape st i : same_shape st (pass2_cell st i).
Proof.
  unfold pass2_cell. cbv zeta.
  destruct (_ <=? _); apply same_shape_set; repeat split.
Qed.

Definition mark_root (s : list cinfo) (r : nat) : list cinfo := set_ci s r (with_root (get_ci s r)).

Lemma mark_root_shape st r : same_shape st (mark_root st r).
Proof. apply same_shape_set. repeat split. Qed.

(* the state on which the traversal starts *)
Definition prep (st : list cinfo) (roots : list nat) : list cinfo :=
  let n := length st in
  fold_left mark_root roots
    (fold_left pass2_cell (seq 0 n) (fold_left pass1_cell (rev (seq 0 n)) st)).

Lemma prep_shape st roots : same_shape st (prep st roots).
Proof.
  unfold prep. cbv zeta.
  eapply same_shape_trans; [apply (fold_shape pass1_cell pass1_shape)|].
  eapply same_shape_trans; [apply (fold_shape pass2_cell pass2_shape)|].
  apply (fold_shape mark_root mark_root_shape).
Qed.

Lemma reorder_eq st roots :
  reorder st roots =
  let n := length st in
  let st3 := prep st roots in
  if Nat.eqb n 0 then Ok (st3, [], roots) else
  do a <- for_roots (phase1 (4 * n + 8)) (st3, []) roots;
  do b <- for_roots (phase2 (4 * n + 8)) a roots;
  let '(stf, nl) := b in
  Ok (stf, nl, map (newidx stf) roots).
Proof. reflexivity. Qed.

(** *** the theorem *)
(* precondition: the post-order array built by [importCell] *)
Definition reorder_pre (st : list cinfo) : Prop :=
  forall i, i < length st ->
    ci_new (get_ci st i) = (-1)%Z /\ forall c, In c (ci_refs (get_ci st i)) -> c < i.

(* cells reachable from the roots along original references *)
Definition reachable (st : list cinfo) (roots : list nat) : nat -> Prop :=
  reach (rf st) roots.

Definition reorder_post (st : list cinfo) (roots : list nat)
  (stf : list cinfo) (nl : list nat) : Prop :=
  let n := length st in
  length stf = n /\
  (* each cell stored at most once, only cells of the array *)
  NoDup nl /\ (forall i, In i nl -> i < n) /\
  (* the new index of a cell is its position in the emitted list *)
  (forall k i, nth_error nl k = Some i <-> nw stf i = Z.of_nat k) /\
  (* every cell reachable from the roots is stored *)
  (forall i, reachable st roots i -> In i nl) /\
  (* references: same number, j-th reference = new index of the original j-th
     child, which is stored too and has a strictly smaller new index *)
  (forall i, In i nl ->
     length (rf stf i) = length (rf st i) /\
     forall j, j < length (rf st i) ->
       In (nth j (rf st i) 0) nl /\
       nth j (rf stf i) 0 = newidx stf (nth j (rf st i) 0) /\
       newidx stf (nth j (rf st i) 0) < newidx stf i) /\
  (* roots are stored *)
  (forall r, In r roots -> In r nl) /\
  (* the cell payload pointer, cache flag and hash count are untouched *)
  (forall i, ci_node (get_ci stf i) = ci_node (get_ci st i) /\
             ci_cache (get_ci stf i) = ci_cache (get_ci st i) /\
             ci_hashcount (get_ci stf i) = ci_hashcount (get_ci st i)).

Lemma reorder_pre_all st : reorder_pre st ->
  forall i, nw st i = (-1)%Z /\ forall c, In c (rf st i) -> c < i.
Proof.
  intros Hp i. destruct (Nat.lt_ge_cases i (length st)) as [Hlt|Hge].
  - apply Hp. exact Hlt.
  - unfold nw, rf, get_ci. rewrite nth_overflow by exact Hge. cbn. split; [reflexivity|tauto].
Qed.

Lemma Inv_init st0 st :
  reorder_pre st0 -> same_shape st0 st -> Inv (length st0) (rf st0) st [].
Proof.
  intros Hp [L C].
  assert (Hnw : forall i, nw st i = (-1)%Z).
  { intros i. destruct (C i) as (_ & _ & _ & _ & E). unfold nw. rewrite E.
    apply (reorder_pre_all st0 Hp i). }
  assert (Hrf : forall i, rf st i = rf st0 i).
  { intros i. destruct (C i) as (_ & _ & E & _). exact E. }
  split.
  - split; [exact L|]. split.
    + intros i. left. apply Hnw.
    + intros k i. rewrite Hnw. split.
      * destruct k; discriminate.
      * lia.
  - intros i _. unfold cellP. rewrite Hnw. split; [|split].
    + intros [H|H]; lia.
    + intros _. apply Hrf.
    + lia.
Qed.

Theorem reorder_valid st roots :
  reorder_pre st -> (forall r, In r roots -> r < length st) ->
  exists stf nl,
    reorder st roots = Ok (stf, nl, map (newidx stf) roots) /\
    reorder_post st roots stf nl.
Proof.
  intros Hp Hr. set (n := length st).
  assert (Hch : forall i c, In c (rf st i) -> c < i).
  { intros i. apply (reorder_pre_all st Hp i). }
  pose proof (prep_shape st roots) as Hsh.
  pose proof (Inv_init st _ Hp Hsh) as HI0. fold n in HI0.
  rewrite reorder_eq. cbv zeta. fold n.
  destruct (Nat.eqb_spec n 0) as [Hn|Hn].
  - (* empty array: no roots *)
    assert (Hroots : roots = []).
    { destruct roots as [|r t]; [reflexivity|]. specialize (Hr r (or_introl eq_refl)). fold n in Hr. lia. }
    subst roots. exists (prep st []), []. split; [reflexivity|].
    destruct Hsh as [L C]. unfold reorder_post. cbv zeta. fold n.
    split; [exact L|]. split; [constructor|]. split; [intros i []|].
    split; [apply HI0|]. split.
    + intros i Hi. exfalso. induction Hi as [r []|i c _ IH Hc]; exact IH.
    + split; [intros i []|]. split; [intros r []|].
      intros i. destruct (C i) as (A1 & A2 & _ & A4 & _). auto.
  - destruct (phase1_spec n (rf st) Hch (4 * n + 8) ltac:(lia) roots _ [] Hr HI0)
      as (st1 & nl1 & E1 & HI1 & HS1 & HV1).
    rewrite E1. cbn [bind].
    destruct (phase2_spec n (rf st) (4 * n + 8) ltac:(lia) roots st1 nl1) as (st2 & nl2 & E2 & HI2 & HS2 & HA2);
      [intros r Hin; split; [apply Hr; exact Hin|apply HV1; exact Hin]|exact HI1|].
    rewrite E2. cbn [bind].
    exists st2, nl2. split; [reflexivity|].
    assert (HS : Step n (prep st roots) st2).
    { refine (Step_trans n n n _ _ _ _ _ HS1 HS2); lia. }
    unfold reorder_post. cbv zeta. fold n.
    split; [apply HI2|].
    split; [apply (Inv_NoDup n (rf st) st2 nl2 HI2)|].
    split.
    { intros i Hi. apply (Inv_in_nl n (rf st) st2 nl2 i HI2) in Hi.
      destruct HI2 as [B _]. exact (base_alloc_in n st2 nl2 i B Hi). }
    split; [apply HI2|].
    split.
    { intros i Hi. apply (Inv_in_nl n (rf st) st2 nl2 i HI2).
      apply (Inv_reach n (rf st) st2 nl2 roots HI2 HA2 i Hi). }
    split.
    { intros i Hi. apply (Inv_in_nl n (rf st) st2 nl2 i HI2) in Hi.
      destruct (Inv_refs n (rf st) st2 nl2 i HI2 Hi) as [HL HJ].
      split; [exact HL|]. intros j Hj. destruct (HJ j Hj) as (A1 & A2 & A3).
      split; [|split; [exact A1|exact A3]].
      apply (Inv_in_nl n (rf st) st2 nl2 _ HI2). exact A2. }
    split.
    { intros r Hin. apply (Inv_in_nl n (rf st) st2 nl2 r HI2). apply HA2. exact Hin. }
    intros i. destruct HS as (_ & _ & _ & S). specialize (S i).
    destruct Hsh as [_ C]. destruct (C i) as (A1 & A2 & _ & A4 & _).
    unfold static in S. injection S as S1 S2 S3 S4 S5 S6.
    repeat split; congruence.
Qed.

(** when every cell is reachable (as after [importCell]) the emitted list is a
    permutation of the array: each cell stored exactly once *)
Corollary reorder_post_permutation st roots stf nl :
  reorder_post st roots stf nl ->
  (forall i, i < length st -> reachable st roots i) ->
  Permutation nl (seq 0 (length st)).
Proof.
  intros (_ & ND & Hlt & _ & Hre & _) Hall.
  apply NoDup_Permutation; [exact ND|apply seq_NoDup|].
  intros i. rewrite in_seq. split.
  - intros Hi. specialize (Hlt i Hi). lia.
  - intros Hi. apply Hre. apply Hall. lia.
Qed.

(** the emitted position of cell [i] is [length nl - 1 - newidx i]: references
    point strictly forward in the emitted order (premise of [parse_layout]) *)
Corollary reorder_post_forward st roots stf nl :
  reorder_post st roots stf nl ->
  forall i, In i nl -> forall j, j < length (rf stf i) ->
    length nl - 1 - newidx stf i < length nl - 1 - nth j (rf stf i) 0 /\
    nth j (rf stf i) 0 < length nl.
Proof.
  intros (_ & _ & _ & NL & _ & Hrefs & _) i Hi j Hj.
  destruct (Hrefs i Hi) as [HL HJ]. rewrite HL in Hj.
  destruct (HJ j Hj) as (A1 & A2 & A3). rewrite A2.
  assert (Hpos : forall a, In a nl -> newidx stf a < length nl).
  { intros a Ha. destruct (In_nth_error _ _ Ha) as [k Hk].
    assert (Hk' := Hk). apply NL in Hk. unfold newidx. rewrite Hk, Nat2Z.id.
    apply nth_error_Some. congruence. }
  specialize (Hpos i Hi). lia.
Qed.

(** *** corollaries stated on [reorder] itself *)
Corollary reorder_no_fuel st roots :
  reorder_pre st -> (forall r, In r roots -> r < length st) ->
  reorder st roots <> Err EFuel.
Proof.
  intros Hp Hr. destruct (reorder_valid st roots Hp Hr) as (stf & nl & E & _).
  rewrite E. discriminate.
Qed.

Corollary reorder_permutation st roots :
  reorder_pre st -> (forall r, In r roots -> r < length st) ->
  (forall i, i < length st -> reachable st roots i) ->
  exists stf nl ri, reorder st roots = Ok (stf, nl, ri) /\ Permutation nl (seq 0 (length st)).
Proof.
  intros Hp Hr Hall. destruct (reorder_valid st roots Hp Hr) as (stf & nl & E & Hpost).
  exists stf, nl, (map (newidx stf) roots). split; [exact E|].
  eapply reorder_post_permutation; eauto.
Qed.

Corollary reorder_forward st roots stf nl ri :
  reorder_pre st -> (forall r, In r roots -> r < length st) ->
  reorder st roots = Ok (stf, nl, ri) ->
  forall i, In i nl -> forall j, j < length (rf stf i) ->
    length nl - 1 - newidx stf i < length nl - 1 - nth j (rf stf i) 0 /\
    nth j (rf stf i) 0 < length nl.
Proof.
  intros Hp Hr E. destruct (reorder_valid st roots Hp Hr) as (stf' & nl' & E' & Hpost).
  rewrite E in E'. injection E' as <- <- _.
  eapply reorder_post_forward; eauto.
Qed.
