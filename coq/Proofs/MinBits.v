(** minBitsRequired (bit smear + de Bruijn table) computes N.size for every
    uint64, provided the 64-entry table passes a finite check (re-checked on
    the table translated from the source on every run). *)
From Coq Require Import List NArith Arith Lia Bool.
From Tongo Require Import Lib.Bits Model.BitString.
Import ListNotations.
Local Open Scope N_scope.

Definition orbits (v : N) (i : N) (n : nat) : bool :=
  existsb (fun d => N.testbit v (i + N.of_nat d)) (seq 0 n).

Lemma orbits_true v i n :
  orbits v i n = true <-> exists d, (d < n)%nat /\ N.testbit v (i + N.of_nat d) = true.
Proof.
  unfold orbits. rewrite existsb_exists. split.
  - intros (d & Hin & Ht). apply in_seq in Hin. exists d. split; [lia|exact Ht].
  - intros (d & Hd & Ht). exists d. split; [apply in_seq; lia|exact Ht].
Qed.

Lemma spread_step v u n k :
  (forall i, N.testbit u i = orbits v i n) -> (k <= n)%nat ->
  forall i, N.testbit (N.lor u (N.shiftr u (N.of_nat k))) i = orbits v i (n + k).
Proof.
  intros Hu Hk i.
  rewrite N.lor_spec, N.shiftr_spec', !Hu.
  apply eq_true_iff_eq. rewrite orb_true_iff, !orbits_true. split.
  - intros [(d & Hd & Ht) | (d & Hd & Ht)].
    + exists d. split; [lia|exact Ht].
    + exists (k + d)%nat. split; [lia|].
      rewrite <- Ht. f_equal. lia.
  - intros (d & Hd & Ht).
    destruct (Nat.lt_ge_cases d n) as [Hlt|Hge].
    + left. exists d. auto.
    + right. exists (d - k)%nat. split; [lia|].
      rewrite <- Ht. f_equal. lia.
Qed.

Lemma smear_bits v i : N.testbit (smear v) i = orbits v i 64.
Proof.
  unfold smear.
  assert (H0 : forall i, N.testbit v i = orbits v i 1).
  { intros j. unfold orbits. cbn [seq existsb]. rewrite orb_false_r. f_equal. lia. }
  pose proof (spread_step v _ 1 1 H0 ltac:(lia)) as H1. cbn [Nat.add] in H1.
  pose proof (spread_step v _ 2 2 H1 ltac:(lia)) as H2. cbn [Nat.add] in H2.
  pose proof (spread_step v _ 4 4 H2 ltac:(lia)) as H3. cbn [Nat.add] in H3.
  pose proof (spread_step v _ 8 8 H3 ltac:(lia)) as H4. cbn [Nat.add] in H4.
  pose proof (spread_step v _ 16 16 H4 ltac:(lia)) as H5. cbn [Nat.add] in H5.
  pose proof (spread_step v _ 32 32 H5 ltac:(lia)) as H6.
  exact (H6 i).
Qed.

Lemma smear_is_ones v :
  0 < v -> v < 2 ^ 64 -> smear v = N.ones (N.size v).
Proof.
  intros Hpos Hlt.
  assert (Hnz : v <> 0) by lia.
  apply N.bits_inj. intros i.
  rewrite smear_bits.
  rewrite N.size_log2 by exact Hnz.
  assert (Hlog : N.log2 v < 64) by (apply N.log2_lt_pow2; lia).
  destruct (N.lt_ge_cases i (N.succ (N.log2 v))) as [Hi|Hi].
  - rewrite N.ones_spec_low by exact Hi.
    apply orbits_true. exists (N.to_nat (N.log2 v - i)). split; [lia|].
    rewrite N2Nat.id. replace (i + (N.log2 v - i)) with (N.log2 v) by lia.
    apply N.bit_log2. exact Hnz.
  - rewrite N.ones_spec_high by exact Hi.
    apply not_true_is_false. intros H. apply orbits_true in H.
    destruct H as (d & _ & Ht).
    assert (N.log2 v < i + N.of_nat d) by lia.
    rewrite N.bits_above_log2 in Ht by assumption. discriminate.
Qed.

Lemma ones_minus_half n :
  0 < n -> N.ones n - N.shiftr (N.ones n) 1 = 2 ^ (n - 1).
Proof.
  intros Hn. rewrite N.shiftr_div_pow2, N.pow_1_r, N.ones_equiv, N.pred_sub.
  replace n with (N.succ (n - 1)) at 1 2 by lia.
  rewrite N.pow_succ_r'.
  pose proof (pow2_pos (n - 1)) as Hp.
  set (P := 2 ^ (n - 1)) in *.
  assert ((2 * P - 1) / 2 = P - 1) as ->.
  { symmetry. apply (N.div_unique _ 2 _ 1); lia. }
  lia.
Qed.

(** the finite table check: for every one-hot input 2^k the lookup yields k *)
Definition debruijn_ok (tab : list nat) : bool :=
  forallb (fun k => Nat.eqb (nth (N.to_nat (N.shiftr ((2 ^ N.of_nat k * debruijn) mod two64) 58)) tab 0%nat) k)
          (seq 0 64).

Theorem min_bits_required_spec tab :
  debruijn_ok tab = true ->
  forall v, v < 2 ^ 64 -> min_bits_required tab v = N.to_nat (N.size v).
Proof.
  intros Hok v Hv. unfold min_bits_required.
  destruct (N.eqb_spec v 0) as [->|Hnz]; [reflexivity|].
  assert (Hpos : 0 < v) by lia.
  rewrite (smear_is_ones v Hpos Hv).
  assert (Hs : 0 < N.size v) by (rewrite N.size_log2 by exact Hnz; lia).
  rewrite (ones_minus_half _ Hs).
  assert (Hlog : N.log2 v < 64) by (apply N.log2_lt_pow2; lia).
  rewrite N.size_log2 by exact Hnz.
  replace (N.succ (N.log2 v) - 1) with (N.log2 v) by lia.
  unfold debruijn_ok in Hok. rewrite forallb_forall in Hok.
  specialize (Hok (N.to_nat (N.log2 v))).
  rewrite N2Nat.id in Hok.
  assert (Hin : In (N.to_nat (N.log2 v)) (seq 0 64)) by (apply in_seq; lia).
  apply Hok in Hin. apply Nat.eqb_eq in Hin. rewrite Hin. lia.
Qed.

(* v <= n < 2^64 fits in the width chosen for the bound n *)
Lemma lim_fits n v : v <= n -> v < 2 ^ N.size n.
Proof.
  intros H. destruct (N.eq_dec n 0) as [->|Hn].
  - assert (v = 0) by lia. subst. cbn. lia.
  - rewrite N.size_log2 by exact Hn.
    pose proof (N.log2_spec n ltac:(lia)). lia.
Qed.
