(** C19 — the address text: the account whose key is looked up is the (zero-padded)
    address inside the signed message. *)
From Coq Require Import String Ascii List NArith ZArith Bool Lia.
From Tongo Require Import Lib.Bits Lib.Res Model.TonConnect Proofs.TonConnectP.
Import ListNotations.
Local Open Scope Z_scope.

Lemma pair_ind {A} (P : list A -> Prop) :
  P [] -> (forall a, P [a]) -> (forall a b t, P t -> P (a :: b :: t)) -> forall l, P l.
Proof.
  intros H0 H1 H2 l. assert (Hb : P l /\ forall a, P (a :: l)).
  { induction l as [|x l [IH1 IH2]]; split; auto. }
  apply Hb.
Qed.

Lemma hex_decode_length h : forall b, hex_decode h = Some b -> length h = (2 * length b)%nat.
Proof.
  induction h as [| a | a c t IH] using pair_ind; intros b Hd.
  - injection Hd as <-. reflexivity.
  - discriminate.
  - cbn [hex_decode] in Hd. destruct (nib a), (nib c), (hex_decode t) as [r|]; try discriminate.
    injection Hd as <-. cbn [length]. rewrite (IH r eq_refl). lia.
Qed.

Lemma hex_decode_zeros j h :
  hex_decode (repeat 48%N (2 * j) ++ h) =
  match hex_decode h with Some b => Some (repeat 0%N j ++ b) | None => None end.
Proof.
  induction j as [|j IH].
  - cbn. destruct (hex_decode h); reflexivity.
  - replace (2 * S j)%nat with (S (S (2 * j))) by lia. cbn [repeat app hex_decode].
    change (nib 48) with (Some 0%N). rewrite IH. destruct (hex_decode h); reflexivity.
Qed.

Lemma split_colon_nonnil l : forall cur, split_colon cur l <> [].
Proof. induction l as [|c t IH]; intros cur; cbn; [discriminate|]. destruct (N.eqb c 58); [discriminate|apply IH]. Qed.

Lemma split_colon_single l : forall cur h, split_colon cur l = [h] -> h = rev cur ++ l /\ index_colon_go cur l = None.
Proof.
  induction l as [|c t IH]; intros cur h Hs; cbn in *.
  - injection Hs as <-. rewrite app_nil_r. auto.
  - destruct (N.eqb c 58).
    + injection Hs as _ Hs. exfalso. exact (split_colon_nonnil _ _ Hs).
    + destruct (IH _ _ Hs) as [-> Hn]. cbn [rev]. rewrite <- app_assoc. auto.
Qed.

Lemma split_colon_two l : forall cur w h, split_colon cur l = [w; h] -> index_colon_go cur l = Some (w, h).
Proof.
  induction l as [|c t IH]; intros cur w h Hs; cbn in *; [discriminate|].
  destruct (N.eqb c 58).
  - injection Hs as <- Hs. apply split_colon_single in Hs as [-> _]. reflexivity.
  - apply IH. exact Hs.
Qed.

(* CheckProof looks the key up for the account (wc, address zero-padded on the left to 32
   bytes); addresses longer than 32 bytes are rejected *)
Theorem convert_account_agree b64 tp pm :
  convert b64 tp = Ok pm ->
  parse_account_id (p_address tp) =
    if (length (m_addr pm) <=? 32)%nat
    then Ok (m_wc pm, repeat 0%N (32 - length (m_addr pm)) ++ m_addr pm)
    else Err EOther.
Proof.
  unfold convert, parse_account_id, index_colon.
  destruct (split_colon [] (p_address tp)) as [|w [|h [|? ?]]] eqn:Es; try discriminate.
  rewrite (split_colon_two _ _ _ _ Es).
  destruct (parse_int32 w) as [wc|]; [|discriminate].
  destruct (hex_decode h) as [ab|] eqn:Eh; [|discriminate].
  destruct (b64 _); [|discriminate]. intros Hp. apply Ok_inj in Hp. subst pm. cbn [m_addr m_wc].
  pose proof (hex_decode_length _ _ Eh) as Hl. unfold pad_hex64. rewrite Hl.
  replace (64 - 2 * length ab)%nat with (2 * (32 - length ab))%nat by lia.
  rewrite hex_decode_zeros, Eh. rewrite app_length, repeat_length.
  destruct (length ab <=? 32)%nat eqn:El.
  - apply Nat.leb_le in El. replace (32 - length ab + length ab)%nat with 32%nat by lia. reflexivity.
  - apply Nat.leb_gt in El. replace (32 - length ab + length ab)%nat with (length ab) by lia.
    destruct (Nat.eqb_spec (length ab) 32); [lia|reflexivity].
Qed.

(* with the canonical 64-digit form the account is exactly the signed address *)
Corollary convert_account_canonical b64 tp pm :
  convert b64 tp = Ok pm -> length (m_addr pm) = 32%nat ->
  parse_account_id (p_address tp) = Ok (m_wc pm, m_addr pm).
Proof. intros Hc Hl. rewrite (convert_account_agree _ _ _ Hc), Hl. reflexivity. Qed.

(* a shortened address that denotes the same account as a signed 32-byte address and whose
   message bytes collide with the signed ones exists only for the all-zero address:
   if 0^n ++ a (n > 0) followed by anything equals a followed by anything, a is all zeros *)
Lemma zeros_prefix (a : bytes) : forall pre r r',
  Forall (eq 0%N) pre -> pre <> [] -> (pre ++ a) ++ r = a ++ r' -> Forall (eq 0%N) a.
Proof.
  induction a as [|x a' IH]; intros pre r r' Hz Hne He; [constructor|].
  destruct pre as [|p pre']; [contradiction|].
  cbn [app] in He. injection He as Hp He. subst p.
  inversion Hz as [|? ? Hx Hz']. subst.
  constructor; [reflexivity|].
  apply (IH (pre' ++ [0%N]) r r').
  - apply Forall_app. split; [assumption|repeat constructor].
  - destruct pre'; discriminate.
  - rewrite <- He. rewrite <- !app_assoc. reflexivity.
Qed.

Theorem short_address_collision_only_zero p1 p2 :
  length (m_addr p1) = 32%nat -> (length (m_addr p2) < 32)%nat ->
  m_addr p1 = repeat 0%N (32 - length (m_addr p2)) ++ m_addr p2 ->      (* same account *)
  message_layout p1 = message_layout p2 ->
  m_addr p1 = repeat 0%N 32.
Proof.
  intros H1 H2 Hacc He. unfold message_layout in He. apply app_inv_head in He.
  apply app_inv_len in He as [_ He]; [|reflexivity].
  rewrite Hacc in He.
  assert (Hz : Forall (eq 0%N) (m_addr p2)).
  { eapply (zeros_prefix _ (repeat 0%N (32 - length (m_addr p2)))).
    - apply Forall_forall. intros x Hx. apply repeat_spec in Hx. auto.
    - destruct (32 - length (m_addr p2))%nat eqn:E; [lia|discriminate].
    - exact He. }
  rewrite Hacc.
  assert (Hr : m_addr p2 = repeat 0%N (length (m_addr p2))).
  { clear - Hz. induction Hz as [|x l Hx _ IH]; cbn; [reflexivity|]. subst x. f_equal. exact IH. }
  rewrite Hr at 2. rewrite <- repeat_app. f_equal. lia.
Qed.
