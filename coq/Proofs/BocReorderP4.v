(** C01 — the import phase of the serialiser ([importCell] / [importRoots]):
    on a forward-referencing cell array the model never runs out of fuel, builds
    a post-order array satisfying the precondition of [reorder_valid], and every
    cell of that array is reachable from the imported roots; hence the emitted
    list is a permutation of the imported cells. *)
From Coq Require Import List NArith ZArith Arith Bool Lia Permutation.
From Tongo Require Import Lib.Bits Lib.Res Model.BocParse Model.CellHash Model.BocSer Proofs.BocParseP
  Proofs.BocReorderP1 Proofs.BocReorderP2 Proofs.BocReorderP3.
Import ListNotations.

Definition icT := list cinfo -> list (bytes * nat) -> nat -> res (list cinfo * list (bytes * nat) * nat).

(** the reference loop of [import_cell] as a top-level fixpoint *)
Section ILoop.
Variable ic : icT.
Fixpoint iloop (rs : list nat) (st : list cinfo) (m : list (bytes * nat))
  (acc : list nat) (sum : nat) : res (list cinfo * list (bytes * nat) * list nat * nat) :=
  match rs with
  | [] => Ok (st, m, rev acc, sum)
  | r :: t =>
      do x <- ic st m r;
      let '(st', m', pos) := x in
      iloop t st' m' (pos :: acc) (sum + ci_wt (get_ci st' pos))%nat
  end.
End ILoop.

(** *** reachability *)
Lemma reach_roots ch R R' i :
  (forall r, In r R -> reach ch R' r) -> reach ch R i -> reach ch R' i.
Proof.
  intros H Hi. induction Hi as [r Hr|i c _ IH Hc]; [auto|].
  eapply reach_child; eauto.
Qed.

Lemma reach_edges ch ch' R i :
  (forall j c, In c (ch j) -> In c (ch' j)) -> reach ch R i -> reach ch' R i.
Proof.
  intros H Hi. induction Hi as [r Hr|i c _ IH Hc]; [apply reach_root; exact Hr|].
  eapply reach_child; eauto.
Qed.

(** *** growth of the import array: old cells keep references and status *)
Definition keeps (st st' : list cinfo) : Prop :=
  length st <= length st' /\
  forall i, i < length st -> rf st' i = rf st i /\ nw st' i = nw st i.

Lemma keeps_refl st : keeps st st.
Proof. split; [lia|]. intros i _. split; reflexivity. Qed.

Lemma keeps_trans s1 s2 s3 : keeps s1 s2 -> keeps s2 s3 -> keeps s1 s3.
Proof.
  intros [L1 K1] [L2 K2]. split; [lia|]. intros i Hi.
  destruct (K1 i Hi) as [A1 B1]. destruct (K2 i ltac:(lia)) as [A2 B2].
  split; congruence.
Qed.

Lemma rf_oob st i : length st <= i -> rf st i = [].
Proof. intros H. unfold rf, get_ci. rewrite nth_overflow by exact H. reflexivity. Qed.

Lemma keeps_edges st st' j c : keeps st st' -> In c (rf st j) -> In c (rf st' j).
Proof.
  intros [L K] Hc. destruct (Nat.lt_ge_cases j (length st)) as [Hlt|Hge].
  - destruct (K j Hlt) as [E _]. rewrite E. exact Hc.
  - rewrite rf_oob in Hc by exact Hge. destruct Hc.
Qed.

Lemma get_app_old st c i : i < length st -> get_ci (st ++ [c]) i = get_ci st i.
Proof. intros H. unfold get_ci. apply app_nth1. exact H. Qed.

Lemma get_app_new st c : get_ci (st ++ [c]) (length st) = c.
Proof. unfold get_ci. rewrite app_nth2, Nat.sub_diag by lia. reflexivity. Qed.

Lemma keeps_app st c : keeps st (st ++ [c]).
Proof.
  split; [rewrite app_length; lia|]. intros i Hi.
  unfold rf, nw. rewrite get_app_old by exact Hi. split; reflexivity.
Qed.

Lemma keeps_cache st pos : keeps st (set_ci st pos (with_cache (get_ci st pos))).
Proof.
  split; [rewrite set_ci_length; lia|]. intros i Hi.
  destruct (Nat.eq_dec pos i) as [->|Hne].
  - rewrite rf_set_eq, nw_set_eq by exact Hi. split; reflexivity.
  - rewrite rf_set_neq, nw_set_neq by exact Hne. split; reflexivity.
Qed.

Lemma pre_cache st pos :
  reorder_pre st -> reorder_pre (set_ci st pos (with_cache (get_ci st pos))).
Proof.
  intros Hp i Hi. rewrite set_ci_length in Hi.
  destruct (keeps_cache st pos) as [_ K]. destruct (K i Hi) as [E1 E2].
  unfold rf, nw in E1, E2. rewrite E1, E2. apply Hp. exact Hi.
Qed.

Lemma pre_app st c :
  reorder_pre st -> ci_new c = (-1)%Z -> (forall r, In r (ci_refs c) -> r < length st) ->
  reorder_pre (st ++ [c]).
Proof.
  intros Hp Hn Hr i Hi. rewrite app_length in Hi. cbn [length] in Hi.
  destruct (Nat.eq_dec i (length st)) as [->|Hne].
  - rewrite get_app_new. split; [exact Hn|exact Hr].
  - rewrite get_app_old by lia. apply Hp. lia.
Qed.

Section Imp.
Variable dag : list node.
Variable hashes : list (res bytes).

(* references point forward in the input array (BOC order) *)
Definition dag_fwd : Prop :=
  forall cell nd, nth_error dag cell = Some nd -> forall r, In r (n_refs nd) -> cell < r.
(* the per-cell hashes are real outcomes of the hasher, not model fuel failures *)
Definition hashes_real : Prop :=
  forall cell e, nth_error hashes cell = Some (Err e) -> e <> EFuel.

Hypothesis Hfwd : dag_fwd.
Hypothesis Hreal : hashes_real.

Lemma import_cell_S f st m cell depth :
  import_cell dag hashes (S f) st m cell depth =
  if (1024 <? depth)%nat then Err EDepth else
  match nth_error hashes cell, nth_error dag cell with
  | Some rh, Some nd =>
      do h <- rh;
      match find_hash h m with
      | Some pos => Ok (set_ci st pos (with_cache (get_ci st pos)), m, pos)
      | None =>
          do y <- iloop (fun st m r => import_cell dag hashes f st m r (S depth))
                        (n_refs nd) st m [] 1%nat;
          let '(st', m', refs, sum) := y in
          let wt := if (255 <? sum)%nat then 255%nat else sum in
          let pos := length st' in
          Ok (st' ++ [mkci cell false wt refs (S (mask_popcount (n_mask nd))) (-1) false],
              (h, pos) :: m', pos)
      end
  | _, _ => Panic PNil
  end.
Proof. reflexivity. Qed.

(* import state: a post-order array and a hash map into it *)
Definition IS (st : list cinfo) (m : list (bytes * nat)) : Prop :=
  reorder_pre st /\ forall h pos, find_hash h m = Some pos -> pos < length st.

Definition ic_post (st : list cinfo) (r : res (list cinfo * list (bytes * nat) * nat)) : Prop :=
  match r with
  | Ok (st', m', pos) =>
      IS st' m' /\ keeps st st' /\ pos < length st' /\
      forall i, length st <= i < length st' -> reach (rf st') [pos] i
  | Err e => e <> EFuel
  | Panic _ => True
  end.

Definition ic_ok (ic : icT) (P : nat -> Prop) : Prop :=
  forall st m r, P r -> IS st m -> ic_post st (ic st m r).

Lemma iloop_spec ic P : ic_ok ic P ->
  forall rs st m acc sum L0,
  (forall r, In r rs -> P r) -> IS st m -> L0 <= length st ->
  (forall p, In p acc -> p < length st) ->
  (forall i, L0 <= i < length st -> reach (rf st) acc i) ->
  match iloop ic rs st m acc sum with
  | Ok (st', m', refs, _) =>
      IS st' m' /\ keeps st st' /\ (forall p, In p refs -> p < length st') /\
      forall i, L0 <= i < length st' -> reach (rf st') refs i
  | Err e => e <> EFuel
  | Panic _ => True
  end.
Proof.
  intros Hic. induction rs as [|r t IH]; intros st m acc sum L0 Hrs HIS HL Hacc Hre.
  - cbn [iloop]. split; [exact HIS|]. split; [apply keeps_refl|]. split.
    + intros p Hp. apply Hacc. apply in_rev. exact Hp.
    + intros i Hi. apply reach_roots with (R := acc); [|apply Hre; exact Hi].
      intros q Hq. apply reach_root. apply in_rev in Hq. exact Hq.
  - cbn [iloop].
    pose proof (Hic st m r (Hrs r (or_introl eq_refl)) HIS) as Hr.
    destruct (ic st m r) as [[[st1 m1] pos]|e|p]; cbn [bind]; [|exact Hr|exact I].
    destruct Hr as (HIS1 & HK1 & Hpos & Hre1).
    pose proof HK1 as [HL1 _].
    specialize (IH st1 m1 (pos :: acc) (sum + ci_wt (get_ci st1 pos)) L0).
    destruct (iloop ic t st1 m1 (pos :: acc) (sum + ci_wt (get_ci st1 pos)))
      as [[[[st2 m2] refs] sum2]|e|p]; [| |exact I].
    + destruct IH as (HIS2 & HK2 & Hrefs & Hre2).
      * intros r' Hr'. apply Hrs. right. exact Hr'.
      * exact HIS1.
      * lia.
      * intros q [<-|Hq]; [exact Hpos|]. specialize (Hacc q Hq). lia.
      * intros i Hi. destruct (Nat.lt_ge_cases i (length st)) as [Hlt|Hge].
        -- apply reach_roots with (R := acc).
           ++ intros q Hq. apply reach_root. right. exact Hq.
           ++ apply reach_edges with (ch := rf st); [intros j c; apply keeps_edges; exact HK1|].
              apply Hre. lia.
        -- apply reach_roots with (R := [pos]).
           ++ intros q [<-|[]]. apply reach_root. left. reflexivity.
           ++ apply Hre1. lia.
      * split; [exact HIS2|]. split; [eapply keeps_trans; eauto|]. split; [exact Hrefs|exact Hre2].
    + apply IH; auto.
      * intros r' Hr'. apply Hrs. right. exact Hr'.
      * lia.
      * intros q [<-|Hq]; [exact Hpos|]. specialize (Hacc q Hq). lia.
      * intros i Hi. destruct (Nat.lt_ge_cases i (length st)) as [Hlt|Hge].
        -- apply reach_roots with (R := acc).
           ++ intros q Hq. apply reach_root. right. exact Hq.
           ++ apply reach_edges with (ch := rf st); [intros j c; apply keeps_edges; exact HK1|].
              apply Hre. lia.
        -- apply reach_roots with (R := [pos]).
           ++ intros q [<-|[]]. apply reach_root. left. reflexivity.
           ++ apply Hre1. lia.
Qed.

Lemma import_cell_spec : forall fuel st m cell depth,
  IS st m -> length dag - cell < fuel ->
  ic_post st (import_cell dag hashes fuel st m cell depth).
Proof.
  induction fuel as [|f IH]; intros st m cell depth HIS Hfu; [lia|].
  rewrite import_cell_S.
  destruct (1024 <? depth); [cbn; discriminate|].
  destruct (nth_error hashes cell) as [rh|] eqn:Eh; [|exact I].
  destruct (nth_error dag cell) as [nd|] eqn:End; [|exact I].
  destruct rh as [h|e|p]; cbn [bind]; [|cbn; eapply Hreal; exact Eh|exact I].
  destruct HIS as [Hpre Hm].
  destruct (find_hash h m) as [pos|] eqn:Ef.
  - cbn [ic_post]. pose proof (Hm h pos Ef) as Hpos.
    split; [split|].
    + apply pre_cache. exact Hpre.
    + intros h' p' Hf. rewrite set_ci_length. eapply Hm; exact Hf.
    + split; [apply keeps_cache|]. rewrite set_ci_length. split; [exact Hpos|]. intros i Hi. lia.
  - assert (Hcell : cell < length dag) by (apply nth_error_Some; congruence).
    assert (Hic : ic_ok (fun st m r => import_cell dag hashes f st m r (S depth)) (fun r => cell < r)).
    { intros st0 m0 r Hr HIS0. apply IH; [exact HIS0|lia]. }
    pose proof (iloop_spec _ _ Hic (n_refs nd) st m [] 1 (length st)
                  (fun r Hr => Hfwd cell nd End r Hr) (conj Hpre Hm) (le_n _)
                  (fun p (Hp : In p []) => match Hp with end)) as HL.
    destruct (iloop _ (n_refs nd) st m [] 1) as [[[[st1 m1] refs] sum]|e|p]; cbn [bind];
      [|apply HL; intros i Hi; lia|exact I].
    destruct HL as ([Hpre1 Hm1] & HK1 & Hrefs & Hre1); [intros i Hi; lia|].
    cbv zeta. cbn [ic_post].
    set (c := mkci cell false _ refs _ (-1) false).
    assert (HK2 : keeps st1 (st1 ++ [c])) by apply keeps_app.
    assert (Hrfc : rf (st1 ++ [c]) (length st1) = refs).
    { unfold rf. rewrite get_app_new. reflexivity. }
    split; [split|].
    + apply pre_app; [exact Hpre1|reflexivity|exact Hrefs].
    + intros h' p' Hf. rewrite app_length. cbn [length]. cbn [find_hash] in Hf.
      destruct (bytes_eqb h h'); [injection Hf as <-; lia|].
      specialize (Hm1 h' p' Hf). lia.
    + split; [eapply keeps_trans; eauto|]. rewrite app_length. cbn [length].
      split; [lia|]. intros i Hi.
      destruct (Nat.eq_dec i (length st1)) as [->|Hne].
      * apply reach_root. left. reflexivity.
      * apply reach_roots with (R := refs).
        -- intros q Hq. apply reach_child with (i := length st1).
           ++ apply reach_root. left. reflexivity.
           ++ rewrite Hrfc. exact Hq.
        -- apply reach_edges with (ch := rf st1); [intros j d; apply keeps_edges; exact HK2|].
           apply Hre1. lia.
Qed.

(** *** importRoots *)
Definition iroots_step (s : list cinfo * list (bytes * nat) * list nat) (r : nat)
  : res (list cinfo * list (bytes * nat) * list nat) :=
  let '(st, m, acc) := s in
  do x <- import_cell dag hashes (S (length dag)) st m r 0;
  let '(st', m', pos) := x in Ok (st', m', acc ++ [pos]).

Lemma import_roots_eq roots :
  import_roots dag hashes roots =
  do a <- for_roots iroots_step ([], [], []) roots;
  let '(st, _, rootpos) := a in reorder st rootpos.
Proof. reflexivity. Qed.

Lemma iroots_spec : forall roots st m acc,
  IS st m -> (forall p, In p acc -> p < length st) ->
  (forall i, i < length st -> reach (rf st) acc i) ->
  match for_roots iroots_step (st, m, acc) roots with
  | Ok (st', m', acc') =>
      IS st' m' /\ (forall p, In p acc' -> p < length st') /\
      forall i, i < length st' -> reach (rf st') acc' i
  | Err e => e <> EFuel
  | Panic _ => True
  end.
Proof.
  induction roots as [|r t IH]; intros st m acc HIS Hacc Hre.
  - cbn [for_roots]. split; [exact HIS|]. split; [exact Hacc|exact Hre].
  - cbn [for_roots]. unfold iroots_step at 1.
    pose proof (import_cell_spec (S (length dag)) st m r 0 HIS ltac:(lia)) as Hr.
    destruct (import_cell dag hashes (S (length dag)) st m r 0) as [[[st1 m1] pos]|e|p];
      cbn [bind]; [|exact Hr|exact I].
    destruct Hr as (HIS1 & HK1 & Hpos & Hre1). pose proof HK1 as [HL1 _].
    apply IH; [exact HIS1| |].
    + intros q Hq. apply in_app_or in Hq. destruct Hq as [Hq|[<-|[]]]; [|exact Hpos].
      specialize (Hacc q Hq). lia.
    + intros i Hi. destruct (Nat.lt_ge_cases i (length st)) as [Hlt|Hge].
      * apply reach_roots with (R := acc).
        -- intros q Hq. apply reach_root. apply in_or_app. left. exact Hq.
        -- apply reach_edges with (ch := rf st); [intros j c; apply keeps_edges; exact HK1|].
           apply Hre. exact Hlt.
      * apply reach_roots with (R := [pos]).
        -- intros q [<-|[]]. apply reach_root. apply in_or_app. right. left. reflexivity.
        -- apply Hre1. lia.
Qed.

(* the import phase alone *)
Definition import_phase (roots : list nat) : res (list cinfo * list (bytes * nat) * list nat) :=
  for_roots iroots_step ([], [], []) roots.

Theorem import_phase_valid roots :
  match import_phase roots with
  | Ok (st, _, rootpos) =>
      reorder_pre st /\ (forall p, In p rootpos -> p < length st) /\
      forall i, i < length st -> reachable st rootpos i
  | Err e => e <> EFuel
  | Panic _ => True
  end.
Proof.
  unfold import_phase.
  pose proof (iroots_spec roots [] [] []) as H.
  destruct (for_roots iroots_step ([], [], []) roots) as [[[st m] rootpos]|e|p].
  - destruct H as ([Hpre _] & Hacc & Hre).
    + split; [intros i Hi; cbn in Hi; lia|]. intros h pos Hf. discriminate.
    + intros p [].
    + intros i Hi. cbn in Hi. lia.
    + split; [exact Hpre|]. split; [exact Hacc|exact Hre].
  - apply H.
    + split; [intros i Hi; cbn in Hi; lia|]. intros h pos Hf. discriminate.
    + intros q [].
    + intros i Hi. cbn in Hi. lia.
  - exact I.
Qed.

(** import followed by re-ordering: never out of fuel; on success every
    imported cell is emitted exactly once with references remapped and
    pointing to smaller new indices *)
Theorem import_roots_valid roots :
  match import_roots dag hashes roots with
  | Ok (stf, nl, rootidx) =>
      exists st m rootpos,
        import_phase roots = Ok (st, m, rootpos) /\
        reorder_pre st /\
        rootidx = map (newidx stf) rootpos /\
        reorder_post st rootpos stf nl /\
        Permutation nl (seq 0 (length st))
  | Err e => e <> EFuel
  | Panic _ => True
  end.
Proof.
  rewrite import_roots_eq. fold (import_phase roots).
  pose proof (import_phase_valid roots) as H.
  destruct (import_phase roots) as [[[st m] rootpos]|e|p]; cbn [bind]; [|exact H|exact I].
  destruct H as (Hpre & Hacc & Hre).
  destruct (reorder_valid st rootpos Hpre Hacc) as (stf & nl & E & Hpost).
  rewrite E. exists st, m, rootpos. split; [reflexivity|]. split; [exact Hpre|].
  split; [reflexivity|]. split; [exact Hpost|].
  eapply reorder_post_permutation; eauto.
Qed.

End Imp.

(** the parser's well-formedness of a cell array implies [dag_fwd] *)
Lemma dag_wf_from_fwd n : forall cells i,
  dag_wf_from n i cells ->
  forall k nd, nth_error cells k = Some nd -> forall r, In r (n_refs nd) -> i + k < r.
Proof.
  induction cells as [|c t IH]; intros i Hwf k nd Hk r Hr.
  - destruct k; discriminate.
  - cbn [dag_wf_from] in Hwf. destruct Hwf as [(_ & _ & Hc) Ht].
    destruct k as [|k]; cbn [nth_error] in Hk.
    + injection Hk as <-. rewrite Forall_forall in Hc. specialize (Hc r Hr). lia.
    + specialize (IH (S i) Ht k nd Hk r Hr). lia.
Qed.

Lemma dag_wf_fwd dag : dag_wf dag -> dag_fwd dag.
Proof.
  intros Hwf cell nd Hk r Hr.
  pose proof (dag_wf_from_fwd _ dag 0 Hwf cell nd Hk r Hr). lia.
Qed.

(** the whole serialiser model never reports fuel exhaustion *)
Theorem serialize_no_fuel dag hashes roots idx hasCrc cacheBits :
  dag_fwd dag -> hashes_real hashes ->
  serialize dag hashes roots idx hasCrc cacheBits <> Err EFuel.
Proof.
  intros Hfwd Hreal. unfold serialize.
  pose proof (import_roots_valid dag hashes Hfwd Hreal roots) as H.
  destruct (import_roots dag hashes roots) as [[[st nl] ri]|e|p]; cbn [bind].
  - cbv zeta. destruct (fold_left _ _ _) as [total offsets].
    destruct (_ <? _)%N; discriminate.
  - intros E. injection E as ->. apply H. reflexivity.
  - discriminate.
Qed.
