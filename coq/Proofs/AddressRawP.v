(** Raw address form  <workchain>:<64 hex>  — parse inverts print for every
    int32 workchain and every 32-byte address; TL form likewise. *)
From Coq Require Import List NArith ZArith Arith Lia Bool.
From Tongo Require Import Lib.Bits Lib.Res Model.Address Proofs.Crc16P Proofs.Base64P.
Import ListNotations.
Local Open Scope N_scope.

Definition is_digit (c : N) : Prop := 48 <= c <= 57.

(** ** decimal *)
Lemma dec_value_app l1 : forall l2 acc,
  dec_value acc (l1 ++ l2)
  = match dec_value acc l1 with Some v => dec_value v l2 | None => None end.
Proof.
  induction l1 as [|c l1 IH]; intros l2 acc; cbn [app dec_value]; [reflexivity|].
  destruct ((48 <=? c) && (c <=? 57)); [apply IH|reflexivity].
Qed.

Lemma dec_value_digit acc d : d < 10 -> dec_value acc [48 + d] = Some (acc * 10 + d).
Proof.
  intros H. cbn [dec_value].
  destruct (N.leb_spec 48 (48 + d)); [|lia].
  destruct (N.leb_spec (48 + d) 57); [|lia].
  cbn [andb]. f_equal. lia.
Qed.

Lemma dec_rev_value f : forall n, n < 10 ^ N.of_nat f ->
  dec_value 0 (rev (dec_rev f n)) = Some n.
Proof.
  induction f as [|f IH]; intros n H.
  - change (10 ^ N.of_nat 0) with 1 in H. assert (n = 0) by lia. subst. reflexivity.
  - cbn [dec_rev]. destruct (N.ltb_spec n 10) as [L|G].
    + cbn [rev app]. rewrite dec_value_digit by exact L. f_equal.
    + cbn [rev]. rewrite dec_value_app.
      rewrite Nat2N.inj_succ, N.pow_succ_r' in H.
      rewrite IH by (apply N.div_lt_upper_bound; lia).
      rewrite dec_value_digit by (apply N.mod_lt; lia). f_equal.
      pose proof (N.div_mod n 10). lia.
Qed.

Lemma dec_rev_digits f : forall n, Forall is_digit (dec_rev f n).
Proof.
  induction f as [|f IH]; intros n; cbn [dec_rev]; [constructor|].
  destruct (N.ltb_spec n 10) as [L|G].
  - repeat constructor; lia.
  - constructor; [|apply IH]. assert (n mod 10 < 10) by (apply N.mod_lt; lia).
    unfold is_digit. set (m := n mod 10) in *. clearbody m. lia.
Qed.

Lemma dec_N_digits n : Forall is_digit (dec_N n).
Proof. unfold dec_N. apply Forall_rev, dec_rev_digits. Qed.

Lemma dec_N_nonempty n : dec_N n <> [].
Proof.
  unfold dec_N. cbn [dec_rev]. destruct (n <? 10); cbn [rev]; intros H;
    apply app_eq_nil in H; destruct H; discriminate.
Qed.

Lemma dec_N_value n : n < 10 ^ 20 -> dec_value 0 (dec_N n) = Some n.
Proof. intros H. unfold dec_N. apply dec_rev_value. exact H. Qed.

Lemma parse_int_dec_Z wc : (- 2 ^ 31 <= wc < 2 ^ 31)%Z -> parse_int 32 (dec_Z wc) = Some wc.
Proof.
  intros H. unfold parse_int, dec_Z.
  destruct wc as [|p|p].
  - vm_compute. reflexivity.
  - pose proof (dec_N_digits (Z.to_N (Z.pos p))) as HD.
    pose proof (dec_N_nonempty (Z.to_N (Z.pos p))) as HN.
    pose proof (dec_N_value (Z.to_N (Z.pos p))) as HV.
    destruct (dec_N (Z.to_N (Z.pos p))) as [|c t]; [contradiction|].
    inversion HD as [|? ? Hc _]; subst. unfold is_digit in Hc.
    destruct (N.eqb_spec c 45); [lia|]. destruct (N.eqb_spec c 43); [lia|].
    cbn [orb]. rewrite HV by (change (10 ^ 20) with 100000000000000000000; lia).
    change (2 ^ (32 - 1)) with 2147483648.
    destruct (N.ltb_spec (Z.to_N (Z.pos p)) 2147483648); [f_equal; lia|lia].
  - rewrite N.eqb_refl. cbn [orb].
    pose proof (dec_N_nonempty (N.pos p)) as HN.
    pose proof (dec_N_value (N.pos p)) as HV.
    destruct (dec_N (N.pos p)) as [|c t]; [contradiction|].
    rewrite HV by (change (10 ^ 20) with 100000000000000000000; lia).
    change (2 ^ (32 - 1)) with 2147483648.
    destruct (N.leb_spec (N.pos p) 2147483648); [reflexivity|lia].
Qed.

Lemma dec_Z_no_colon wc : Forall (fun c => c <> 58) (dec_Z wc).
Proof.
  assert (G : forall n, Forall (fun c => c <> 58) (dec_N n)).
  { intros n. eapply Forall_impl; [|apply dec_N_digits]. unfold is_digit. intros; lia. }
  unfold dec_Z. destruct wc; try apply G. constructor; [lia|apply G].
Qed.

Lemma split_colon_app w h : Forall (fun c => c <> 58) w ->
  split_colon (w ++ 58 :: h) = Some (w, h).
Proof.
  induction w as [|c w IH]; intros HF; cbn [app split_colon].
  - rewrite N.eqb_refl. reflexivity.
  - inversion HF as [|? ? Hc HF']; subst.
    destruct (N.eqb_spec c 58); [contradiction|]. rewrite IH by exact HF'. reflexivity.
Qed.

(** ** hex *)
Definition hex_check (b : N) : bool :=
  match hex_val (hex_lower (b / 16)), hex_val (hex_lower (b mod 16)) with
  | Some x, Some y => x * 16 + y =? b
  | _, _ => false
  end.

Lemma hex_check_all : forallb hex_check (Nrange 256) = true.
Proof. vm_compute. reflexivity. Qed.

Lemma hex_decode_print a : bytes_ok a -> hex_decode (flat_map hex_byte a) = Some a.
Proof.
  induction a as [|b a IH]; intros HF; [reflexivity|].
  inversion HF as [|? ? Hb HF']; subst.
  pose proof (forallb_Nrange _ 256 hex_check_all b Hb) as Hc. unfold hex_check in Hc.
  cbn [flat_map hex_byte app hex_decode].
  destruct (hex_val (hex_lower (b / 16))) as [x|]; [|discriminate].
  destruct (hex_val (hex_lower (b mod 16))) as [y|]; [|discriminate].
  apply N.eqb_eq in Hc. rewrite IH by exact HF'. rewrite Hc. reflexivity.
Qed.

Lemma hex_print_length a : length (flat_map hex_byte a) = (2 * length a)%nat.
Proof. induction a as [|b a IH]; cbn [flat_map hex_byte app length]; lia. Qed.

(** ** raw round trip *)
Lemma raw_roundtrip wc addr :
  (- 2 ^ 31 <= wc < 2 ^ 31)%Z -> length addr = 32%nat -> bytes_ok addr ->
  parse_raw (print_raw wc addr) = Ok (wc, addr).
Proof.
  intros Hwc HL Ha. unfold parse_raw, print_raw.
  rewrite split_colon_app by apply dec_Z_no_colon.
  rewrite short_spec, hex_print_length, HL. cbn [Nat.mul Nat.add Nat.ltb Nat.leb].
  rewrite parse_int_dec_Z by exact Hwc.
  rewrite hex_decode_print by exact Ha.
  assert (H32 : len_is 32 addr = true) by (apply len_is_spec; exact HL).
  rewrite H32. reflexivity.
Qed.

(* ParseAccountID tries the raw form first, so it inverts ToRaw as well *)
Lemma parse_account_raw wc addr :
  (- 2 ^ 31 <= wc < 2 ^ 31)%Z -> length addr = 32%nat -> bytes_ok addr ->
  parse_account (print_raw wc addr) = Ok (wc, addr).
Proof. intros. unfold parse_account. rewrite raw_roundtrip by assumption. reflexivity. Qed.

(** ** TL form *)
Lemma tl_roundtrip wc addr :
  (- 2 ^ 31 <= wc < 2 ^ 31)%Z -> length addr = 32%nat ->
  tl_unmarshal (tl_marshal wc addr) = Ok (wc, addr).
Proof.
  intros Hwc HL. unfold tl_unmarshal, tl_marshal.
  rewrite short_spec, app_length, HL. cbn [le32_bytes length Nat.add Nat.ltb Nat.leb app].
  replace 32%nat with (length addr) by exact HL. rewrite firstn_all. f_equal. f_equal.
  set (v := Z.to_N (wc mod 2 ^ 32)).
  assert (Hv : v < 2 ^ 32).
  { unfold v. pose proof (Z.mod_pos_bound wc (2 ^ 32) eq_refl). lia. }
  assert (E : v mod 256 + 256 * ((v / 256) mod 256) + 65536 * ((v / 65536) mod 256)
              + 16777216 * ((v / 16777216) mod 256) = v).
  { change 65536 with (256 * 256). change 16777216 with (256 * 256 * 256).
    rewrite <- !N.div_div by lia.
    set (q1 := v / 256). set (q2 := q1 / 256). set (q3 := q2 / 256).
    assert (q3 < 256).
    { unfold q3, q2, q1. rewrite !N.div_div by lia. apply N.div_lt_upper_bound; [lia|].
      change (2 ^ 32) with 4294967296 in Hv. lia. }
    rewrite (N.mod_small q3) by assumption.
    pose proof (N.div_mod v 256). pose proof (N.div_mod q1 256). pose proof (N.div_mod q2 256).
    fold q1 in H0. fold q2 in H1. fold q3 in H2. lia. }
  rewrite E. unfold int32_of_N, v.
  destruct (Z.ltb_spec wc 0) as [Neg|Pos].
  - assert (E2 : (wc mod 2 ^ 32 = wc + 2 ^ 32)%Z).
    { rewrite <- (Z.mod_add wc 1 (2 ^ 32)) by lia. apply Z.mod_small. lia. }
    rewrite E2. destruct (N.ltb_spec (Z.to_N (wc + 2 ^ 32)) (2 ^ 31)); lia.
  - rewrite Z.mod_small by lia. destruct (N.ltb_spec (Z.to_N wc) (2 ^ 31)); lia.
Qed.
