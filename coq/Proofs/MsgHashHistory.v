(** C16 history file: designs that were seeded into the code and are refuted
    on the model level (the current code does not have them). *)
From Coq Require Import List NArith Arith Bool.
From Tongo Require Import Lib.Bits Lib.Res Model.BocParse Model.BocSer.
Import ListNotations.

(** *** C16-r3m1: Hash(true) reads the body through the message's own body cell.
    CopyRemaining is not one step: it saves the read cursor, moves it to the end
    while copying, and puts the saved value back.  On a private copy of the cell
    struct nobody sees the window; on the shared cell two overlapping calls do. *)
Record shared_body := mksb { body_bits : bits; cursor : nat }.
(* the remaining bits a caller copies, and the state inside the window *)
Definition copy_begin (s : shared_body) : bits * nat * shared_body :=
  (skipn (cursor s) (body_bits s), cursor s, mksb (body_bits s) (length (body_bits s))).
Definition copy_end (saved : nat) (s : shared_body) : shared_body := mksb (body_bits s) saved.

(* schedule: A begins, B begins, A ends, B ends *)
Theorem shared_cursor_design_refuted (b : bits) :
  b <> [] ->
  let s0 := mksb b 0 in
  let '(ra, sa, s1) := copy_begin s0 in
  let '(rb, sb, s2) := copy_begin s1 in
  let s3 := copy_end sa s2 in
  let s4 := copy_end sb s3 in
  ra = b /\ rb = [] /\                                  (* B hashes an empty body *)
  fst (fst (copy_begin s4)) = [].                       (* and so does every later, sequential call *)
Proof.
  intros Hb. cbn [copy_begin copy_end cursor body_bits fst snd skipn].
  split; [reflexivity|]. rewrite skipn_all. split; reflexivity.
Qed.

(** *** C16-r3m2: the width of the cell-count field taken from the largest index
    (cellCount - 1) instead of cellCount.  With 256 cells the width is one byte
    and the count is written as 0; the serialiser model (byte_len of the count,
    C01) uses two bytes. *)
Theorem index_width_design_refuted :
  byte_len (256 - 1)%N = 1%nat /\ be_n 1 256%N = [0%N] /\
  byte_len 256%N = 2%nat /\ be_n 2 256%N = [1%N; 0%N] /\
  byte_len (65536 - 1)%N = 2%nat /\ be_n 2 65536%N = [0%N; 0%N].
Proof. vm_compute. repeat split; reflexivity. Qed.

(** *** C16-r6m1: Block.AllTransactions appends the address of the range variable
    (go 1.19 semantics: one variable for the whole loop).  Every pointer of an
    account with k transactions then shows the LAST one: the list handed out is
    [repeat (last l) k] instead of [l]; each element is a genuine record, only
    the multiset differs. *)
Theorem loop_variable_alias_refuted {A} (x y : A) (l : list A) :
  x <> y -> repeat (last (x :: l ++ [y]) x) (length (x :: l ++ [y])) <> x :: l ++ [y].
Proof.
  intros Hxy E.
  assert (L : last (x :: l ++ [y]) x = y).
  { change (x :: l ++ [y]) with ((x :: l) ++ [y]). apply last_last. }
  rewrite L in E. cbn [length repeat] in E. injection E as E _. congruence.
Qed.
