(** C20 proofs, part 3: round trip, JSON shape and totality for the integer,
    bytes, coins, magic, optional, cell, hash and account families. *)
From Coq Require Import List NArith ZArith Bool Lia Arith.
From Tongo Require Import Lib.Bits Lib.Res Model.JsonText Model.Json
  Proofs.JsonTextP Proofs.JsonValidP.
Import ListNotations.
Local Open Scope N_scope.

Definition none_b (f : N -> bool) (l : str) : Prop := Forall (fun c => f c = false) l.

Lemma none_b_hd f l : none_b f l -> hd_not f l.
Proof. destruct 1; [exact I|assumption]. Qed.
Lemma none_b_rev_hd f l : none_b f l -> hd_not f (rev l).
Proof. intros H. apply none_b_hd. apply Forall_rev. exact H. Qed.

Lemma trim_none f l : l <> [] -> none_b f l -> trim f l = l.
Proof. intros Hne H. apply trim_id; [exact Hne|apply none_b_hd|apply none_b_rev_hd]; exact H. Qed.

Lemma trim_quotes_of_quote s : none_b is_quote s -> trim_quotes (quote s) = s.
Proof. intros H. apply trim_quotes_quote; [apply none_b_hd|apply none_b_rev_hd]; exact H. Qed.

Lemma plain_not_quote c : json_plain c = true -> is_quote c = false.
Proof. intros H. destruct (json_plain_facts c H) as (_ & H34 & _). apply N.eqb_neq. exact H34. Qed.

Lemma plain_none_quote s : all_b json_plain s -> none_b is_quote s.
Proof. apply Forall_impl. exact plain_not_quote. Qed.

Lemma signed_digit_not_cut c : is_digit c || (c =? ch_minus) = true -> is_quote_sp_nl c = false.
Proof.
  intros H. assert (Hr : 48 <= c <= 57 \/ c = 45).
  { apply orb_prop in H. destruct H as [H|H]; [left; apply is_digit_range; exact H|right; apply N.eqb_eq; exact H]. }
  unfold is_quote_sp_nl. repeat (apply orb_false_iff; split); apply N.eqb_neq; lia.
Qed.

Lemma print_Z_nonempty z : print_Z z <> [].
Proof. destruct z; cbn [print_Z]; try apply print_N_nonempty. discriminate. Qed.

Lemma trim_cut_print_Z z : trim is_quote_sp_nl (quote (print_Z z)) = print_Z z.
Proof.
  unfold quote. change (ch_quote :: print_Z z ++ [ch_quote]) with ([ch_quote] ++ print_Z z ++ [ch_quote]).
  assert (Hn : none_b is_quote_sp_nl (print_Z z)).
  { eapply Forall_impl; [|apply print_Z_chars]. exact signed_digit_not_cut. }
  apply trim_mid; try (repeat constructor).
  - apply print_Z_nonempty.
  - apply none_b_hd. exact Hn.
  - apply none_b_rev_hd. exact Hn.
Qed.

(** * the two shapes a printed form can have *)
Definition json_number_or_plain_string (doc : str) : Prop :=
  (exists z, doc = print_Z z) \/ (exists s, all_b json_plain s /\ doc = quote s).

Lemma shape_valid doc : json_number_or_plain_string doc ->
  json_valid doc = true /\ json_item doc = doc /\ doc <> s_null.
Proof.
  intros [[z ->]|[s [Hs ->]]].
  - split; [apply json_valid_print_Z|]. split; [apply json_item_print_Z|].
    intros E. pose proof (print_Z_chars z) as Hc. rewrite E in Hc. inversion Hc as [|c l Hc1 _]. discriminate.
  - split; [apply json_valid_quote; exact Hs|]. split; [apply json_item_quote|]. discriminate.
Qed.

Lemma print_N_as_Z n : print_N n = print_Z (Z.of_N n).
Proof. destruct n; reflexivity. Qed.

(* json.Unmarshal(Marshal(v)) when the method-level round trip holds *)
Lemma json_unmarshal_of_shape {A} (pa : str -> res A) doc :
  json_number_or_plain_string doc -> json_unmarshal pa doc = pa doc.
Proof.
  intros H. destruct (shape_valid doc H) as (Hv & Hi & _).
  unfold json_unmarshal. rewrite Hv, Hi. reflexivity.
Qed.

(* a document the scanner rejects is an error for every type *)
Lemma json_unmarshal_invalid {A} (pa : str -> res A) doc :
  json_valid doc = false -> json_unmarshal pa doc = Err EJson.
Proof. intros H. unfold json_unmarshal. rewrite H. reflexivity. Qed.

(** * fixed-width integers *)
Lemma uint_shape w v : json_number_or_plain_string (print_uint w v).
Proof.
  unfold print_uint. destruct (quoted_width w).
  - right. exists (print_N v). split; [apply print_N_plain|reflexivity].
  - left. exists (Z.of_N v). apply print_N_as_Z.
Qed.

Lemma int_shape w z : json_number_or_plain_string (print_int w z).
Proof.
  unfold print_int. destruct (quoted_width w).
  - right. exists (print_Z z). split; [apply print_Z_plain|reflexivity].
  - left. exists z. reflexivity.
Qed.

Lemma uint_roundtrip w v : v < 2 ^ w -> parse_uint_json w (print_uint w v) = Ok v.
Proof.
  intros H. unfold parse_uint_json, print_uint.
  pose proof (plain_none_quote _ (print_N_plain v)) as Hq.
  destruct (quoted_width w).
  - rewrite trim_quotes_of_quote by exact Hq. apply parse_uint_print. exact H.
  - unfold trim_quotes. rewrite trim_none; [apply parse_uint_print; exact H|apply print_N_nonempty|exact Hq].
Qed.

Lemma int_roundtrip w z : 1 <= w ->
  (- Z.of_N (2 ^ (w - 1)) <= z < Z.of_N (2 ^ (w - 1)))%Z ->
  parse_int_json w (print_int w z) = Ok z.
Proof.
  intros Hw Hz. unfold parse_int_json, print_int.
  pose proof (plain_none_quote _ (print_Z_plain z)) as Hq.
  destruct (quoted_width w).
  - rewrite trim_quotes_of_quote by exact Hq. apply parse_int_print; assumption.
  - unfold trim_quotes. rewrite trim_none; [apply parse_int_print; assumption|apply print_Z_nonempty|exact Hq].
Qed.

Lemma big_roundtrip z : parse_big_json (print_big z) = Ok z.
Proof.
  unfold parse_big_json, print_big.
  rewrite trim_quotes_of_quote by (apply plain_none_quote, print_Z_plain). apply parse_big_print.
Qed.

Lemma big_shape z : json_number_or_plain_string (print_big z).
Proof. right. exists (print_Z z). split; [apply print_Z_plain|reflexivity]. Qed.

(** * coins *)
Lemma grams_roundtrip v : v < 2 ^ 64 -> parse_grams (print_grams v) = Ok v.
Proof.
  intros H. unfold parse_grams, print_grams. rewrite print_N_as_Z, trim_cut_print_Z.
  rewrite <- print_N_as_Z. apply parse_uint_print. exact H.
Qed.

Lemma coins_roundtrip z : (- 2 ^ 63 <= z < 2 ^ 63)%Z -> parse_coins (print_coins z) = Ok z.
Proof.
  intros H. unfold parse_coins, print_coins. rewrite trim_cut_print_Z.
  apply parse_int_print; [lia|]. change (2 ^ (64 - 1)) with 9223372036854775808. lia.
Qed.

Lemma grams_shape v : json_number_or_plain_string (print_grams v).
Proof. right. exists (print_N v). split; [apply print_N_plain|reflexivity]. Qed.
Lemma coins_shape z : json_number_or_plain_string (print_coins z).
Proof. right. exists (print_Z z). split; [apply print_Z_plain|reflexivity]. Qed.

(* history of F8: the method as it was before the repair rejects its own output *)
Lemma coins_before_fix_refuted : parse_coins_before_fix (print_coins (-1)) = Err ESyntax.
Proof. vm_compute. reflexivity. Qed.

(** * bytes in hex *)
Lemma len_is_length {A} (l : list A) : len_is (length l) l = true.
Proof. induction l; [reflexivity|exact IHl]. Qed.

Lemma len_is_spec {A} n (l : list A) : len_is n l = true -> length l = n.
Proof.
  revert l. induction n as [|n IH]; intros [|a l] H; try discriminate; [reflexivity|].
  cbn [length]. f_equal. apply IH. exact H.
Qed.

Lemma bytes_hex_roundtrip n bs : bytes_ok bs -> length bs = n ->
  parse_bytes_hex n (print_bytes_hex bs) = Ok bs.
Proof.
  intros Hb Hl. unfold parse_bytes_hex, print_bytes_hex.
  rewrite trim_quotes_of_quote by (apply plain_none_quote, print_hex_plain; exact Hb).
  rewrite (hex_decode_print bs Hb). subst n. rewrite len_is_length. reflexivity.
Qed.

Lemma bytes_hex_shape bs : bytes_ok bs -> json_number_or_plain_string (print_bytes_hex bs).
Proof. intros H. right. exists (print_hex bs). split; [apply print_hex_plain; exact H|reflexivity]. Qed.

(** * magic *)
Lemma x_plain : json_plain 120 = true. Proof. reflexivity. Qed.

Lemma magic_text_plain m : all_b json_plain (s_0x ++ print_hex_N m).
Proof.
  unfold s_0x. constructor; [reflexivity|]. constructor; [reflexivity|].
  apply (all_b_impl is_hex_lower); [exact hex_lower_plain|apply print_hex_N_chars].
Qed.

Lemma magic_roundtrip m : m < 2 ^ 32 -> parse_magic (print_magic m) = Ok m.
Proof.
  intros H. unfold parse_magic, print_magic.
  rewrite trim_quotes_of_quote by (apply plain_none_quote, magic_text_plain).
  unfold has_prefix_b. rewrite has_prefix_app.
  change 2%nat with (length s_0x). rewrite go_slice_from. cbn [bind].
  rewrite parse_uint_hex64_print by (change (2 ^ 64) with 18446744073709551616; change (2 ^ 32) with 4294967296 in H; lia).
  cbn [bind]. f_equal. apply N.mod_small. exact H.
Qed.

Lemma magic_shape m : json_number_or_plain_string (print_magic m).
Proof. right. exists (s_0x ++ print_hex_N m). split; [apply magic_text_plain|reflexivity]. Qed.

(** * Maybe *)
Lemma str_eqb_eq a : forall b, str_eqb a b = true <-> a = b.
Proof.
  induction a as [|x a IH]; intros [|y b]; cbn [str_eqb]; try (split; [discriminate|congruence]); [tauto|].
  rewrite andb_true_iff, N.eqb_eq, IH. split; [intros [-> ->]; reflexivity|intros E; inversion E; auto].
Qed.

Lemma maybe_roundtrip {A} (pr : A -> str) (pa : str -> res A) :
  (forall v, json_number_or_plain_string (pr v)) ->
  (forall v, pa (pr v) = Ok v) ->
  forall m, parse_maybe pa (print_maybe pr m) = Ok m.
Proof.
  intros Hs Hr [v|]; [|reflexivity].
  unfold parse_maybe, print_maybe.
  destruct (shape_valid _ (Hs v)) as (_ & _ & Hn).
  destruct (str_eqb (pr v) s_null) eqn:E; [apply str_eqb_eq in E; contradiction|].
  rewrite json_unmarshal_of_shape by apply Hs. rewrite Hr. reflexivity.
Qed.

(* the guard is needed: an optional of an optional cannot tell its two empties apart *)
Lemma maybe_nested_refuted {A} (pr : A -> str) (pa : str -> res A) :
  parse_maybe (parse_maybe pa) (print_maybe (print_maybe pr) (Some None)) = Ok None.
Proof. reflexivity. Qed.

(** * cells: hex of the BOC, the cell <-> bytes step being C01 / C07 *)
Section CellP.
  Context {cell : Type}.
  Variable ser : cell -> res (list N).
  Variable deser : list N -> res (list cell).
  Hypothesis ser_bytes : forall c bs, ser c = Ok bs -> bytes_ok bs.
  Hypothesis ser_deser : forall c bs, ser c = Ok bs -> deser bs = Ok [c].      (* C01 *)

  Lemma cell_roundtrip c doc : print_cell ser c = Ok doc -> parse_cell deser doc = Ok c.
  Proof.
    unfold print_cell, parse_cell. destruct (ser c) as [bs| |] eqn:E; cbn [bind]; try discriminate.
    intros H. injection H as <-.
    rewrite trim_quotes_of_quote by (apply plain_none_quote, print_hex_plain; eapply ser_bytes; exact E).
    rewrite (hex_decode_print bs (ser_bytes _ _ E)). rewrite (ser_deser _ _ E). reflexivity.
  Qed.

  Lemma cell_shape c doc : print_cell ser c = Ok doc -> json_number_or_plain_string doc.
  Proof.
    unfold print_cell. destruct (ser c) as [bs| |] eqn:E; cbn [bind]; try discriminate.
    intros H. injection H as <-. apply bytes_hex_shape. eapply ser_bytes; exact E.
  Qed.

  Hypothesis deser_total : forall bs p, deser bs <> Panic p.                   (* C07 *)
  Lemma parse_cell_total s p : parse_cell deser s <> Panic p.
  Proof.
    unfold parse_cell. destruct (hex_decode (trim_quotes s)) as [bs|]; [|discriminate].
    pose proof (deser_total bs) as Ht.
    destruct (deser bs) as [[|c [|c' l]]| |p0]; cbn [bind len_is go_index0]; try discriminate.
    exfalso. exact (Ht p0 eq_refl).
  Qed.
End CellP.

(* a bag of cells with any number of roots other than one (zero included) is an
   error, not an index panic *)
Lemma parse_cell_root_count {cell : Type} (deser : list N -> res (list cell)) p bs cs :
  hex_decode (trim_quotes p) = Some bs -> deser bs = Ok cs -> length cs <> 1%nat ->
  parse_cell deser p = Err EOther.
Proof.
  intros Hh Hd Hn. unfold parse_cell. rewrite Hh, Hd. cbn [bind].
  destruct (len_is 1 cs) eqn:E; [apply len_is_spec in E; contradiction|reflexivity].
Qed.

(** * ton.Bits256 and tl.Int256 *)
Lemma ton_bits256_roundtrip bs : bytes_ok bs -> length bs = 32%nat ->
  parse_ton_bits256 (print_bytes_hex bs) = Ok bs.
Proof.
  intros Hb Hl. unfold parse_ton_bits256, print_bytes_hex.
  rewrite fscanf_quoted_hex_print; [|exact Hb|intros ->; discriminate].
  rewrite <- Hl. rewrite len_is_length. reflexivity.
Qed.

Lemma tl_int256_roundtrip bs : bytes_ok bs -> length bs = 32%nat ->
  exists doc, print_tl_int256 bs = Ok doc /\ parse_tl_int256 doc = Ok bs
              /\ json_number_or_plain_string doc.
Proof.
  intros Hb Hl. exists (quote (print_hex bs)). unfold print_tl_int256, parse_tl_int256.
  pose proof (print_hex_plain bs Hb) as Hp.
  rewrite (json_marshal_string_plain _ Hp). split; [reflexivity|]. split.
  - rewrite (json_unmarshal_string_quote _ Hp). cbn [bind]. rewrite (hex_decode_print bs Hb).
    rewrite <- Hl. rewrite len_is_length. reflexivity.
  - right. exists (print_hex bs). split; [exact Hp|reflexivity].
Qed.

(** * totality: no parser ever panics, whatever bytes it is given *)
Definition no_panic {A} (r : res A) : Prop := forall p, r <> Panic p.

Lemma no_panic_bind {A B} (r : res A) (f : A -> res B) :
  no_panic r -> (forall a, no_panic (f a)) -> no_panic (bind r f).
Proof.
  intros Hr Hf. destruct r as [a|e|q]; cbn [bind]; [apply Hf|intros p; discriminate|].
  exfalso. exact (Hr q eq_refl).
Qed.

Ltac np_cases :=
  repeat match goal with
         | |- context [match ?x with _ => _ end] => destruct x
         end; try discriminate.

Lemma parse_uint_total w s : no_panic (parse_uint w s).
Proof. intros p. unfold parse_uint. np_cases. Qed.
Lemma parse_int_total w s : no_panic (parse_int w s).
Proof. intros p. unfold parse_int. np_cases. Qed.
Lemma parse_big_total s : no_panic (parse_big s).
Proof. intros p. unfold parse_big. np_cases. Qed.
Lemma parse_uint_hex64_total s : no_panic (parse_uint_hex64 s).
Proof. intros p. unfold parse_uint_hex64. np_cases. Qed.

Lemma parse_uint_json_total w s : no_panic (parse_uint_json w s).
Proof. apply parse_uint_total. Qed.
Lemma parse_int_json_total w s : no_panic (parse_int_json w s).
Proof. apply parse_int_total. Qed.
Lemma parse_big_json_total s : no_panic (parse_big_json s).
Proof. apply parse_big_total. Qed.
Lemma parse_grams_total s : no_panic (parse_grams s).
Proof. apply parse_uint_total. Qed.
Lemma parse_coins_total s : no_panic (parse_coins s).
Proof. apply parse_int_total. Qed.
Lemma parse_bytes_hex_total n s : no_panic (parse_bytes_hex n s).
Proof. intros p. unfold parse_bytes_hex. np_cases. Qed.

Lemma has_prefix_b_length p s : has_prefix_b p s = true -> (length p <= length s)%nat.
Proof.
  unfold has_prefix_b. destruct (has_prefix p s) as [r|] eqn:E; [|discriminate]. intros _.
  apply has_prefix_length in E. subst s. rewrite app_length. lia.
Qed.

(* str[2:] is guarded by HasPrefix(str, 0x) *)
Lemma parse_magic_total s : no_panic (parse_magic s).
Proof.
  unfold parse_magic. apply no_panic_bind.
  - destruct (has_prefix_b s_0x (trim_quotes s)) eqn:E; [|intros p; discriminate].
    apply has_prefix_b_length in E. cbn [length s_0x] in E.
    destruct (go_slice_no_panic 2 (length (trim_quotes s)) (trim_quotes s) ltac:(lia)) as [r ->].
    intros p; discriminate.
  - intros a. apply no_panic_bind; [apply parse_uint_hex64_total|]. intros v p. discriminate.
Qed.

Lemma json_unmarshal_total {A} (pa : str -> res A) doc :
  (forall s, no_panic (pa s)) -> no_panic (json_unmarshal pa doc).
Proof. intros H. unfold json_unmarshal. destruct (json_valid doc); [apply H|intros p; discriminate]. Qed.

Lemma parse_maybe_total {A} (pa : str -> res A) s :
  (forall s, no_panic (pa s)) -> no_panic (parse_maybe pa s).
Proof.
  intros H. unfold parse_maybe. destruct (str_eqb s s_null); [intros p; discriminate|].
  pose proof (json_unmarshal_total pa s H) as Hj.
  destruct (json_unmarshal pa s) as [a|e|q]; cbn [res_map]; intros p; try discriminate.
  exfalso. exact (Hj q eq_refl).
Qed.

Lemma parse_ton_bits256_total s : no_panic (parse_ton_bits256 s).
Proof. intros p. unfold parse_ton_bits256. np_cases. Qed.

Lemma json_unmarshal_string_total s : no_panic (json_unmarshal_string s).
Proof. intros p. unfold json_unmarshal_string. np_cases. Qed.

Lemma parse_tl_int256_total s : no_panic (parse_tl_int256 s).
Proof.
  unfold parse_tl_int256. apply no_panic_bind; [apply json_unmarshal_string_total|].
  intros a p. np_cases.
Qed.
