(** VM stack list convention: decoding an encoded stack returns the list in
    the opposite order (arguments are listed top-first, results bottom-first). *)
From Coq Require Import List NArith ZArith Arith Lia Bool.
From Tongo Require Import Lib.Bits Lib.Res Proofs.BitStringW Proofs.BitStringR Model.TlbCore Proofs.TlbCoreP Proofs.TlbCoreC Model.VmStack.
Import ListNotations.

Section P.
Variable env : list ty.
Variable fuel : nat.
Variable t : ty.
Hypothesis Hwf : wf env fuel t = true.

Lemma put_list_get_cell : forall vs b',
  Forall (fun v => has_type env fuel t v = true) vs ->
  put_list env fuel t vs empty_bld = Ok b' ->
  get_cell env fuel t (finish b') (N.of_nat (length vs)) = Ok (rev vs).
Proof.
  induction vs as [|v rest IH]; intros b' Hall He.
  - cbn in He. injection He as <-. reflexivity.
  - cbn [put_list] in He.
    destruct (put_list env fuel t rest empty_bld) as [c| |] eqn:Ec; try discriminate. cbn [bind] in He.
    destruct (put_ref (finish c) empty_bld) as [b1| |] eqn:Er; try discriminate. cbn [bind] in He.
    inversion Hall as [|? ? Hv Hrest]; subst.
    destruct (prefix_law env _ _ _ _ _ Hwf Hv He) as (bs & rs & Hb & Hr & Hdec).
    apply put_ref_ok in Er. destruct Er as (Eb1 & Er1). unfold empty_bld in Eb1, Er1. cbn [bb br app] in Eb1, Er1.
    rewrite Eb1 in Hb. rewrite Er1 in Hr. cbn [app] in Hb, Hr.
    unfold finish at 1. rewrite Hb, Hr. cbn [get_cell].
    cbn [length]. destruct (N.eqb_spec (N.of_nat (S (length rest))) 0) as [H0|_]; [lia|].
    replace (N.of_nat (S (length rest)) - 1)%N with (N.of_nat (length rest)) by lia.
    rewrite (IH c Hrest eq_refl). cbn [bind].
    specialize (Hdec [] [] (or_intror (conj eq_refl eq_refl))). rewrite !app_nil_r in Hdec.
    rewrite Hdec. reflexivity.
Qed.

Theorem vmstack_convention vs b :
  Forall (fun v => has_type env fuel t v = true) vs ->
  (N.of_nat (length vs) < 2 ^ 24)%N ->
  enc_stack env fuel t vs empty_bld = Ok b ->
  dec_stack env fuel t (open (finish b)) = Ok (rev vs).
Proof.
  intros Hall Hlen He. unfold enc_stack in He.
  destruct (put_bits (bits_of 24 (N.of_nat (length vs))) empty_bld) as [b0| |] eqn:E0; try discriminate.
  cbn [bind] in He.
  apply put_bits_ok in E0. destruct E0 as (Eb0 & Er0). unfold empty_bld in Eb0, Er0. cbn [bb br app] in Eb0, Er0.
  destruct vs as [|v rest].
  - cbn [put_list] in He. injection He as <-.
    unfold dec_stack, open, finish. cbn [ct_bits ct_refs]. rewrite Eb0, Er0.
    rewrite <- (app_nil_r (bits_of 24 _)).
    rewrite take_bits_app' by apply bits_of_length. cbn [bind fst snd].
    rewrite N_of_bits_bits_of_small by exact Hlen. reflexivity.
  - cbn [put_list] in He.
    destruct (put_list env fuel t rest empty_bld) as [c| |] eqn:Ec; try discriminate. cbn [bind] in He.
    destruct (put_ref (finish c) b0) as [b1| |] eqn:Er; try discriminate. cbn [bind] in He.
    inversion Hall as [|? ? Hv Hrest]; subst.
    destruct (prefix_law env _ _ _ _ _ Hwf Hv He) as (bs & rs & Hb & Hr & Hdec).
    apply put_ref_ok in Er. destruct Er as (Eb1 & Er1).
    rewrite Eb1, Eb0 in Hb. rewrite Er1, Er0 in Hr. cbn [app] in Hr.
    unfold dec_stack, open, finish. cbn [ct_bits ct_refs]. rewrite Hb, Hr.
    rewrite take_bits_app' by apply bits_of_length. cbn [bind fst snd sb sr].
    rewrite N_of_bits_bits_of_small by exact Hlen.
    cbn [length] in *. destruct (N.eqb_spec (N.of_nat (S (length rest))) 0) as [H0|_]; [lia|].
    replace (N.of_nat (S (length rest)) - 1)%N with (N.of_nat (length rest)) by lia.
    rewrite (put_list_get_cell rest c Hrest Ec). cbn [bind].
    specialize (Hdec [] [] (or_intror (conj eq_refl eq_refl))). rewrite !app_nil_r in Hdec.
    rewrite Hdec. reflexivity.
Qed.

End P.
