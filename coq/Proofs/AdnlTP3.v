(** C11 proofs, part 3: corruption and truncation are never delivered, the
    spec server and the client model agree on the handshake and on both
    directions of the packet stream. *)
From Coq Require Import List NArith Bool Lia Arith.
From Tongo Require Import Lib.Bits Spec.AdnlSpec Model.AdnlT Proofs.AdnlTP Proofs.AdnlTP2.
Import ListNotations.
Local Open Scope N_scope.

(* ---------- list helpers ---------- *)

Lemma app_eq_len {A} (a b c d : list A) :
  a ++ b = c ++ d -> length a = length c -> a = c /\ b = d.
Proof.
  intros E L. destruct (app_split_len a b c d E ltac:(lia)) as [m [Hc Hb]].
  assert (m = []).
  { apply (f_equal (@length A)) in Hc. rewrite app_length in Hc.
    destruct m; [reflexivity|cbn in Hc; lia]. }
  subst m. rewrite app_nil_r in Hc. cbn in Hb. auto.
Qed.

Lemma set_nth_app_l {A} (a b : list A) i v :
  (i < length a)%nat -> set_nth i v (a ++ b) = set_nth i v a ++ b.
Proof.
  revert i. induction a as [|x a IH]; intros [|i] L; cbn in *; try lia; auto.
  f_equal. apply IH. lia.
Qed.

Lemma set_nth_app_r {A} (a b : list A) i v :
  (length a <= i)%nat -> set_nth i v (a ++ b) = a ++ set_nth (i - length a) v b.
Proof.
  revert i. induction a as [|x a IH]; intros i L.
  - cbn. rewrite Nat.sub_0_r. reflexivity.
  - destruct i as [|i]; cbn in *; [lia|]. f_equal. apply IH. lia.
Qed.

Lemma set_nth_neq {A} (l : list A) i v d :
  (i < length l)%nat -> nth i l d <> v -> set_nth i v l <> l.
Proof.
  revert i. induction l as [|x l IH]; intros [|i] L Nv E; cbn in *; try lia.
  - injection E as E. congruence.
  - injection E as E. apply (IH i ltac:(lia) Nv E).
Qed.

Lemma slice_0 {A} (x y : list A) k : length x = k -> slice 0 k (x ++ y) = x.
Proof. intros E. unfold slice. cbn [skipn]. rewrite Nat.sub_0_r. apply firstn_app_len. exact E. Qed.

Lemma slice_0_all {A} (x : list A) k : length x = k -> slice 0 k x = x.
Proof. intros E. rewrite <- (app_nil_r x) at 1. apply slice_0. exact E. Qed.

Lemma slice_skip {A} (x y : list A) a b :
  length x = a -> slice a b (x ++ y) = slice 0 (b - a) y.
Proof.
  intros E. unfold slice. rewrite (skipn_app_len x y a E). cbn [skipn].
  rewrite Nat.sub_0_r. reflexivity.
Qed.

Section Faults.
  Variable H : list N -> list N.
  Variable cstate : Type.
  Variable next : cstate -> N * cstate.
  Hypothesis H_len : forall x, length (H x) = 32%nat.

  Notation xor_stream := (xor_stream cstate next).
  Notation parse_packet := (parse_packet H cstate next).
  Notation recv_loop := (recv_loop H cstate next).
  Notation recv_all := (recv_all H cstate next).
  Notation POk := (POk cstate).
  Notation PErr := (PErr cstate).

  (* outcome allowed for an altered frame: rejected, or a SHA-256 coincidence *)
  Definition rejected_or_collision (r : reader) (s : cstate) (x0 rest : list N) : Prop :=
    (exists r', parse_packet r s = PErr PSum r' /\ concat r' = rest) \/
    (exists n p r' s'', parse_packet r s = POk n p r' s'' /\
                        n ++ p <> x0 /\ H (n ++ p) = H x0).

  (* the bytes of nonce|payload are altered and the checksum is intact, or
     the checksum is altered and nonce|payload are intact (length field intact) *)
  Theorem corruption_rejected r s n0 p0 c4 cb cs s' cb' cs' rest :
    wf_msg (n0, p0) ->
    xor_stream s (frame H n0 p0) = (c4 ++ cb ++ cs, s') ->
    length c4 = 4%nat -> length cs = 32%nat ->
    length cb' = length cb -> length cs' = length cs ->
    ((cb' <> cb /\ cs' = cs) \/ (cb' = cb /\ cs' <> cs)) ->
    concat r = c4 ++ cb' ++ cs' ++ rest ->
    rejected_or_collision r s (n0 ++ p0) rest.
  Proof.
    intros [Ln Lp] X L4 L32 Lb Ls Alt C. cbn [fst snd] in Ln, Lp. unfold max_packet_len in Lp.
    destruct (frame_split H cstate next H_len _ _ _ _ _ X)
      as [c4' [cb0 [cs0 [s1 [s2 [E [X1 [X2 [X3 [L1 [L2 L3]]]]]]]]]]].
    apply app_eq_len in E; [|lia]. destruct E as [<- E].
    assert (Lcb : length cb = length cb0).
    { apply (f_equal (@length N)) in E. rewrite !app_length in E. lia. }
    apply app_eq_len in E; [|exact Lcb]. destruct E as [<- <-].
    rewrite app_length in L2.
    (* decrypting the altered pieces *)
    destruct (xor_stream s1 cb') as [db' sb] eqn:Xb.
    assert (sb = s2).
    { pose proof (xor_stream_state cstate next cb' cb s1 Lb) as Q. rewrite Xb, X2 in Q. exact Q. }
    subst sb.
    destruct (xor_stream s2 cs') as [ds' sc] eqn:Xs.
    assert (sc = s').
    { pose proof (xor_stream_state cstate next cs' cs s2 Ls) as Q. rewrite Xs, X3 in Q. exact Q. }
    subst sc.
    pose proof (xor_stream_length_eq _ _ _ _ _ _ Xb) as Ldb.
    assert (X23 : xor_stream s1 (cb' ++ cs') = (db' ++ ds', s'))
      by (eapply xor_stream_app_eq; eassumption).
    destruct (parse_packet_plain H cstate next r s c4 (cb' ++ cs') rest _ (32 + len p0 + 32) _ s1 s'
                ltac:(rewrite C, <- !app_assoc; reflexivity)
                ltac:(unfold len; lia) X1
                ltac:(apply of_le32_le32; lia)
                ltac:(unfold min_packet_len; lia) ltac:(unfold max_packet_len; lia)
                ltac:(rewrite len_app; unfold len in *; lia) X23) as [r2 [C2 P]].
    destruct (check_shape db' ds' (32 + len p0 + 32)) as [E1 [E2 E3]].
    { lia. }
    { unfold len. lia. }
    cbv zeta in P. rewrite E1, E2, E3, (firstn_skipn 32 db') in P.
    destruct Alt as [[Nb ->]|[-> Ns]].
    - (* nonce|payload altered *)
      rewrite X3 in Xs. injection Xs as <-.
      assert (Nd : db' <> n0 ++ p0).
      { intros ->. apply Nb. eapply xor_stream_inj; [exact Xb|exact X2]. }
      destruct (bytes_eqb (H (n0 ++ p0)) (H db')) eqn:B.
      + right. exists (firstn 32 db'), (skipn 32 db'), r2, s'.
        rewrite (firstn_skipn 32 db'). apply bytes_eqb_eq in B. auto.
      + left. eauto.
    - (* checksum altered *)
      rewrite X2 in Xb. injection Xb as <-.
      assert (Nd : ds' <> H (n0 ++ p0)).
      { intros ->. apply Ns. eapply xor_stream_inj; [exact Xs|exact X3]. }
      rewrite (bytes_eqb_neq _ _ Nd) in P. left. eauto.
  Qed.

  (* any single byte (hence any single bit) of nonce, payload or checksum *)
  Theorem single_byte_corruption r s n0 p0 ct0 s' i v rest :
    wf_msg (n0, p0) ->
    xor_stream s (frame H n0 p0) = (ct0, s') ->
    (4 <= i < length ct0)%nat -> nth i ct0 0 <> v ->
    concat r = set_nth i v ct0 ++ rest ->
    rejected_or_collision r s (n0 ++ p0) rest.
  Proof.
    intros W X Hi Nv C.
    destruct (frame_split H cstate next H_len _ _ _ _ _ X)
      as [c4 [cb [cs [s1 [s2 [-> [X1 [X2 [X3 [L1 [L2 L3]]]]]]]]]]].
    rewrite !app_length in Hi.
    rewrite set_nth_app_r in C by lia. rewrite app_nth2 in Nv by lia.
    rewrite L1 in *.
    destruct (Nat.ltb_spec (i - 4) (length cb)) as [Lt|Ge].
    - rewrite set_nth_app_l in C by exact Lt. rewrite app_nth1 in Nv by exact Lt.
      apply (corruption_rejected r s n0 p0 c4 cb cs s' (set_nth (i - 4) v cb) cs rest W X L1 L3).
      + apply set_nth_length.
      + reflexivity.
      + left. split; [|reflexivity]. eapply set_nth_neq; eassumption.
      + rewrite C, <- !app_assoc. reflexivity.
    - rewrite set_nth_app_r in C by exact Ge. rewrite app_nth2 in Nv by exact Ge.
      apply (corruption_rejected r s n0 p0 c4 cb cs s' cb (set_nth (i - 4 - length cb) v cs) rest W X L1 L3).
      + reflexivity.
      + apply set_nth_length.
      + right. split; [reflexivity|]. eapply set_nth_neq; [|eassumption]. lia.
      + rewrite C, <- !app_assoc. reflexivity.
  Qed.

  (* the payload delivered always has the size announced by the decrypted
     length field: an altered length can only deliver a payload of another size *)
  Theorem length_corruption r s c4 rest dsz s1 (p0 : list N) n p r' s'' :
    concat r = c4 ++ rest -> len c4 = 4 -> xor_stream s c4 = (dsz, s1) ->
    of_le32 dsz <> 64 + len p0 ->
    parse_packet r s = POk n p r' s'' -> len p <> len p0.
  Proof.
    intros C L4 X Nl P.
    destruct (parse_packet_inv H cstate next _ _ _ _ _ _ P)
      as [c4' [cd [dsz' [s1' [C' [L4' [X' [Hof _]]]]]]]].
    rewrite C in C'. apply app_eq_len in C'; [|unfold len in *; lia].
    destruct C' as [<- _]. rewrite X in X'. injection X' as <- _.
    intros E. apply Nl. rewrite Hof, E. reflexivity.
  Qed.

  (* ---------- truncation ---------- *)

  Lemma parse_truncated r s n p ct s' part tail :
    wf_msg (n, p) -> xor_stream s (frame H n p) = (ct, s') ->
    ct = part ++ tail -> tail <> [] -> concat r = part ->
    exists e, parse_packet r s = PErr e [] /\ (e = PEof \/ e = PUnexp).
  Proof.
    intros [Ln Lp] X E Nt C. cbn [fst snd] in Ln, Lp. unfold max_packet_len in Lp.
    unfold AdnlT.parse_packet.
    destruct (N.ltb_spec (len part) 4) as [Short|Long].
    - rewrite read_full_short by (rewrite C; exact Short).
      cbn [orb]. destruct (nonempty (concat r)); eauto.
    - destruct (frame_split H cstate next H_len _ _ _ _ _ X)
        as [c4 [cb [cs [s1 [s2 [E' [X1 [X2 [X3 [L1 [L2 L3]]]]]]]]]]].
      rewrite E in E'. symmetry in E'.
      destruct (app_split_len c4 (cb ++ cs) part tail E' ltac:(unfold len in Long; lia))
        as [m [Hp Hm]].
      destruct (read_full_ok r 4 false c4 m ltac:(unfold len; lia) ltac:(rewrite C; exact Hp))
        as [r1 [R1 C1]].
      rewrite R1, X1, of_le32_le32 by lia.
      rewrite (proj2 (N.ltb_ge _ min_packet_len)) by (unfold min_packet_len; lia).
      rewrite (proj2 (N.ltb_ge max_packet_len _)) by (unfold max_packet_len; lia).
      cbn [orb].
      assert (Lm : len (concat r1) < 32 + len p + 32).
      { rewrite C1. apply (f_equal (@length N)) in Hm. rewrite !app_length in Hm.
        rewrite app_length in L2. destruct tail; [congruence|]. cbn [length] in Hm.
        unfold len. lia. }
      rewrite read_full_short by exact Lm. cbn [orb].
      destruct (nonempty (concat r1)); eauto.
  Qed.

  (* a stream cut anywhere inside (or just before) a frame: every earlier
     payload is delivered, then the loop ends with an EOF-class error *)
  Theorem truncated_stream msgs1 n p r s ct1 s1 cm s2 part tail :
    Forall wf_msg msgs1 -> wf_msg (n, p) ->
    xor_stream s (frames_plain H msgs1) = (ct1, s1) ->
    xor_stream s1 (frame H n p) = (cm, s2) ->
    cm = part ++ tail -> tail <> [] ->
    concat r = ct1 ++ part ->
    exists e, recv_all r s = (map snd msgs1, e) /\ (e = PEof \/ e = PUnexp).
  Proof.
    intros W1 W X1 X2 E Nt C. unfold AdnlT.recv_all, reader_len. rewrite C.
    pose proof (xor_stream_length_eq _ _ _ _ _ _ X1) as Lc.
    pose proof (frames_plain_length H msgs1) as Lm.
    rewrite app_length.
    replace (S (length ct1 + length part))
      with (length msgs1 + S (length ct1 + length part - length msgs1))%nat by lia.
    destruct (recv_loop_frames H cstate next H_len msgs1
                (S (length ct1 + length part - length msgs1)) r s ct1 s1 part W1 X1 C)
      as [r' [C' R]].
    rewrite R. cbn [AdnlT.recv_loop].
    destruct (parse_truncated r' s1 n p cm s2 part tail W X2 E Nt C') as [e [P He]].
    rewrite P, app_nil_r. eauto.
  Qed.
  (* the sender does not enforce the 8 MiB limit; the receiver does *)
  Theorem oversize_rejected r s nonce payload ct s' rest :
    len payload + 64 < 4294967296 -> max_packet_len < len payload + 64 ->
    xor_stream s (marshal H nonce payload) = (ct, s') ->
    concat r = ct ++ rest ->
    exists r1, parse_packet r s = PErr PLen r1.
  Proof.
    intros L32 Lmax X C. unfold marshal, packet_size in X.
    apply xor_stream_split in X. destruct X as [c4 [c2 [s1 [-> [X1 X2]]]]].
    pose proof (xor_stream_length_eq _ _ _ _ _ _ X1) as L4. rewrite le32_length in L4.
    apply xor_stream_invol in X1.
    destruct (parse_length_rejected H cstate next r s c4 (c2 ++ rest) _ s1
                ltac:(rewrite C, app_assoc; reflexivity) ltac:(unfold len; lia) X1) as [r1 [P _]].
    - right. rewrite of_le32_le32 by (apply N.mod_lt; lia).
      rewrite N.mod_small by lia. lia.
    - eauto.
  Qed.
End Faults.
