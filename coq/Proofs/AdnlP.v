(** ADNL address: parsing the base32 text gives back the address. *)
From Coq Require Import List NArith ZArith Arith Lia Bool.
From Tongo Require Import Lib.Bits Lib.Res Model.Address Model.Adnl
  Proofs.Crc16P Proofs.Base64P Proofs.AddressP.
Import ListNotations.
Local Open Scope N_scope.

(** ** regrouping *)
Lemma firstn_app_len {A} w (x y : list A) : length x = w -> firstn w (x ++ y) = x.
Proof. intros <-. apply firstn_app_exact. Qed.
Lemma skipn_app_len {A} w (x y : list A) : length x = w -> skipn w (x ++ y) = y.
Proof. intros <-. apply skipn_app_exact. Qed.

Lemma to_from_bits w n : forall l, length l = (w * n)%nat ->
  to_bits w (from_bits w n l) = l.
Proof.
  unfold to_bits, from_bits.
  induction n as [|n IH]; intros l HL.
  - destruct l; [reflexivity|cbn [length] in HL; lia].
  - cbn [chunks map flat_map].
    assert (Hf : length (firstn w l) = w) by (rewrite firstn_length; nia).
    rewrite <- Hf at 1. rewrite bits_of_N_of_bits.
    rewrite IH by (rewrite skipn_length; nia). apply firstn_skipn.
Qed.

Lemma from_to_bits w l : Forall (fun b => b < 2 ^ N.of_nat w) l ->
  from_bits w (length l) (to_bits w l) = l.
Proof.
  unfold to_bits, from_bits.
  induction l as [|b l IH]; intros HF; [reflexivity|].
  inversion HF as [|? ? Hb HF']; subst.
  cbn [length chunks map flat_map].
  rewrite firstn_app_len, skipn_app_len by apply bits_of_length.
  rewrite N_of_bits_bits_of_small by exact Hb. f_equal. apply IH. exact HF'.
Qed.

Lemma from_bits_lt w n : forall l, Forall (fun d => d < 2 ^ N.of_nat w) (from_bits w n l).
Proof.
  unfold from_bits. induction n as [|n IH]; intros l; cbn [chunks map]; constructor; [|apply IH].
  eapply N.lt_le_trans; [apply N_of_bits_bound|].
  apply N.pow_le_mono_r; [lia|]. rewrite firstn_length. lia.
Qed.

Lemma from_bits_length w n l : length (from_bits w n l) = n.
Proof.
  unfold from_bits. rewrite map_length. revert l.
  induction n as [|n IH]; intros l; cbn [chunks length]; [reflexivity|]. rewrite IH. reflexivity.
Qed.

Lemma to_bits_length w l : length (to_bits w l) = (w * length l)%nat.
Proof.
  unfold to_bits. induction l as [|b l IH]; cbn [flat_map length]; [lia|].
  rewrite app_length, bits_of_length, IH. lia.
Qed.

(** ** characters *)
Definition b32_check (d : N) : bool :=
  match b32_digit (to_upper (b32_char d)) with
  | Some x => (x =? d) && negb (b32_char d =? 46)
  | None => false
  end.

Lemma b32_check_all : forallb b32_check (Nrange 32) = true.
Proof. vm_compute. reflexivity. Qed.

Lemma b32_facts d : d < 32 ->
  b32_digit (to_upper (b32_char d)) = Some d /\ b32_char d <> 46.
Proof.
  intros Hd. pose proof (forallb_Nrange _ 32 b32_check_all d Hd) as H. unfold b32_check in H.
  destruct (b32_digit (to_upper (b32_char d))) as [x|]; [|discriminate].
  apply andb_prop in H. destruct H as [H1 H2]. apply N.eqb_eq in H1. subst x.
  split; [reflexivity|]. apply negb_true_iff, N.eqb_neq in H2. exact H2.
Qed.

Lemma b32_digits_print ds : Forall (fun d => d < 32) ds ->
  b32_digits (map to_upper (map b32_char ds)) = Some ds.
Proof.
  induction ds as [|d ds IH]; intros HF; [reflexivity|].
  inversion HF as [|? ? Hd HF']; subst. destruct (b32_facts d Hd) as [H1 _].
  cbn [map b32_digits]. rewrite H1, IH by exact HF'. reflexivity.
Qed.

Lemma trim_suffix_none cs : Forall (fun c => c <> 46) cs -> trim_suffix adnl_suffix cs = cs.
Proof.
  induction cs as [|c cs IH]; intros HF; [reflexivity|].
  inversion HF as [|? ? Hc HF']; subst.
  cbn [trim_suffix]. unfold adnl_suffix at 1. cbn [list_eqb].
  destruct (N.eqb_spec c 46); [contradiction|]. cbn [andb]. rewrite IH by exact HF'. reflexivity.
Qed.

(** ** round trip *)
Lemma adnl_roundtrip tab addr :
  tab = crc16_table_ref -> length addr = 32%nat -> bytes_ok addr ->
  adnl_parse tab (adnl_print tab addr) = Ok addr.
Proof.
  intros Ht HL Ha. unfold adnl_print.
  set (a := 0x2d :: addr).
  assert (Hab : bytes_ok a) by (apply Forall_cons; [reflexivity|exact Ha]).
  assert (Hcrc : crc16_tab tab a = crc16 a) by (apply crc16_tab_ok; assumption).
  set (B := adnl_bytes tab addr).
  assert (HB : B = a ++ be16_bytes (crc16 a)).
  { unfold B, adnl_bytes. cbv zeta. fold a. rewrite Hcrc. reflexivity. }
  assert (HBok : Forall (fun b => b < 2 ^ N.of_nat 8) B).
  { rewrite HB. apply Forall_app. split; [exact Hab|apply be16_bytes_ok, crc16_lt]. }
  assert (HBlen : length B = 35%nat).
  { rewrite HB, app_length. unfold a. cbn [length be16_bytes]. lia. }
  set (D := from_bits 5 56 (to_bits 8 B)).
  assert (HDlt : Forall (fun d => d < 32) D) by apply (from_bits_lt 5).
  assert (HDlen : length D = 56%nat) by apply from_bits_length.
  assert (HD0 : D = 5 :: tl D).
  { unfold D, from_bits. rewrite HB. unfold a.
    cbn [app to_bits flat_map chunks map tl].
    change (bits_of 8 45) with [false; false; true; false; true; true; false; true].
    reflexivity. }
  assert (HDt : Forall (fun d => d < 32) (tl D)).
  { rewrite HD0 in HDlt. inversion HDlt; assumption. }
  unfold adnl_parse. cbv zeta.
  rewrite trim_suffix_none.
  2:{ rewrite Forall_forall. intros c Hc. apply in_map_iff in Hc. destruct Hc as (d & <- & Hd).
      rewrite Forall_forall in HDt. apply b32_facts, HDt, Hd. }
  assert (H55 : len_is 55 (map b32_char (tl D)) = true).
  { apply len_is_spec. rewrite map_length. rewrite HD0 in HDlen. cbn [length] in HDlen. lia. }
  rewrite H55. cbn [b32_digits].
  change (b32_digit 70) with (Some 5).
  rewrite b32_digits_print by exact HDt. rewrite <- HD0.
  unfold D. rewrite to_from_bits by (rewrite to_bits_length, HBlen; reflexivity).
  rewrite <- HBlen, from_to_bits by exact HBok.
  rewrite HB. unfold a at 1. cbn [app nth]. rewrite N.eqb_refl.
  assert (Hal : length a = 33%nat) by (unfold a; cbn [length]; lia).
  rewrite !app_nth2 by lia. rewrite Hal. cbn [Nat.sub be16_bytes nth].
  rewrite be16_of_bytes.
  replace 33%nat with (length a) by exact Hal. rewrite firstn_app_exact, Hcrc, N.eqb_refl.
  unfold a. cbn [app skipn]. replace 32%nat with (length addr) by exact HL.
  rewrite firstn_app_exact. reflexivity.
Qed.
