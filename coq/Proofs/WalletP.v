(** Basic lemmas about the wallet message model: bit cursors, cell builders,
    the payload codecs (v1-v4 list, v5 action list), the external-message
    envelope. *)
From Coq Require Import List NArith ZArith Arith Bool Lia.
From Tongo Require Import Lib.Bits Lib.Res Model.BocParse Model.CellHash Spec.ReprHash Model.Wallet.
From Tongo Require Model.TlbCore Proofs.TlbCoreP.
Import ListNotations.

(** *** cursors *)
Lemma firstn_len_app {A} n (l1 l2 : list A) : length l1 = n -> firstn n (l1 ++ l2) = l1.
Proof. intros <-. apply firstn_app_exact. Qed.
Lemma skipn_len_app {A} n (l1 l2 : list A) : length l1 = n -> skipn n (l1 ++ l2) = l2.
Proof. intros <-. apply skipn_app_exact. Qed.

Lemma take_app_n n a b : length a = n -> take n (a ++ b) = Ok (a, b).
Proof.
  intros <-. unfold take. rewrite short_spec, app_length.
  replace (length a + length b <? length a)%nat with false by (symmetry; apply Nat.ltb_ge; lia).
  rewrite firstn_app_exact, skipn_app_exact. reflexivity.
Qed.

Lemma take_all n a : length a = n -> take n a = Ok (a, []).
Proof. intros H. rewrite <- (app_nil_r a) at 1. apply take_app_n, H. Qed.

Lemma take_ok n l x : take n l = Ok x -> l = fst x ++ snd x /\ length (fst x) = n.
Proof.
  unfold take. rewrite short_spec. destruct (length l <? n)%nat eqn:E; [discriminate|].
  intros [= <-]. cbn [fst snd]. apply Nat.ltb_ge in E.
  split; [symmetry; apply firstn_skipn|]. rewrite firstn_length. lia.
Qed.

Lemma u8_len n : length (u8 n) = 8%nat. Proof. apply bits_of_length. Qed.
Lemma u32_len n : length (u32 n) = 32%nat. Proof. apply bits_of_length. Qed.
Lemma u64_len n : length (u64 n) = 64%nat. Proof. apply bits_of_length. Qed.

Lemma N_u8 n : (n < 256)%N -> N_of_bits (u8 n) = n.
Proof. intros H. unfold u8. apply N_of_bits_bits_of_small. exact H. Qed.
Lemma N_u32 n : (n < 4294967296)%N -> N_of_bits (u32 n) = n.
Proof. intros H. unfold u32. apply N_of_bits_bits_of_small. exact H. Qed.
Lemma N_u32_mod n : N_of_bits (u32 n) = (n mod 4294967296)%N.
Proof. unfold u32. rewrite N_of_bits_bits_of. reflexivity. Qed.
Lemma N_u64 n : (n < 18446744073709551616)%N -> N_of_bits (u64 n) = n.
Proof. intros H. unfold u64. apply N_of_bits_bits_of_small. exact H. Qed.

Lemma unix32_bound t : (unix32 t < 4294967296)%N.
Proof.
  unfold unix32, two32.
  assert (H := Z.mod_pos_bound t 4294967296 ltac:(lia)).
  change 4294967296%N with (Z.to_N 4294967296). apply Z2N.inj_lt; lia.
Qed.

Lemma fit_len n l : length (fit n l) = n.
Proof. unfold fit. rewrite firstn_length, app_length. unfold zeros. rewrite repeat_length. lia. Qed.

Lemma fit_id n l : length l = n -> fit n l = l.
Proof. intros <-. unfold fit. apply firstn_app_exact. Qed.

(** *** cells *)
Lemma mk_ok b rs c : mk b rs = Ok c -> c = ocell b rs /\ (length b <= 1023)%nat /\ (length rs <= 4)%nat.
Proof.
  unfold mk. destruct (1023 <? length b)%nat eqn:E1; [discriminate|].
  destruct (4 <? length rs)%nat eqn:E2; [discriminate|]. intros [= <-].
  apply Nat.ltb_ge in E1. apply Nat.ltb_ge in E2. auto.
Qed.

Lemma mk_fits b rs : (length b <= 1023)%nat -> (length rs <= 4)%nat -> mk b rs = Ok (ocell b rs).
Proof.
  intros H1 H2. unfold mk.
  replace (1023 <? length b)%nat with false by (symmetry; apply Nat.ltb_ge; lia).
  replace (4 <? length rs)%nat with false by (symmetry; apply Nat.ltb_ge; lia). reflexivity.
Qed.

Lemma ocell_eta c b rs : c = ocell b rs -> ocell (cdata c) (crefs c) = c.
Proof. intros ->. reflexivity. Qed.

(** *** messages *)
Definition modes_ok (ms : list rawmsg) : Prop := Forall (fun m => (rm_mode m < 256)%N) ms.

Lemma modes_bits_len ms : length (modes_bits ms) = (8 * length ms)%nat.
Proof.
  induction ms as [|m t IH]; [reflexivity|].
  cbn [modes_bits flat_map length]. rewrite app_length, u8_len. fold (modes_bits t). lia.
Qed.

(* PayloadV1toV4: decoding what was written, whatever follows the modes *)
Lemma payload_dec_modes ms rest :
  modes_ok ms -> payload_dec (map rm_msg ms) (modes_bits ms ++ rest) = Ok ms.
Proof.
  induction ms as [|m t IH]; intros Hm; [reflexivity|].
  inversion Hm as [|? ? Hh Ht]; subst.
  cbn [map payload_dec modes_bits flat_map]. fold (modes_bits t). rewrite <- app_assoc.
  rewrite take_app_n by apply u8_len. cbn [bind fst snd].
  rewrite IH by exact Ht. cbn [bind]. rewrite N_u8 by exact Hh. destruct m; reflexivity.
Qed.

(* v5 action list *)
Lemma actions_cell_ok ms : exists c, actions_cell ms = Ok c.
Proof.
  induction ms as [|m t [c IH]]; [eexists; reflexivity|].
  cbn [actions_cell]. rewrite IH. cbn [bind].
  rewrite mk_fits; [eexists; reflexivity| |cbn; lia].
  rewrite app_length, u32_len, u8_len. lia.
Qed.

Lemma action_magic_u32 : N_of_bits (u32 action_magic) = action_magic.
Proof. apply N_u32. unfold action_magic. lia. Qed.

Lemma actions_dec_cell ms : forall c,
  modes_ok ms -> actions_cell ms = Ok c -> actions_dec c = Ok ms.
Proof.
  induction ms as [|m t IH]; intros c Hm Hc.
  - cbn in Hc. injection Hc as <-. reflexivity.
  - inversion Hm as [|? ? Hh Ht]; subst. cbn [actions_cell] in Hc.
    apply bind_ok in Hc. destruct Hc as (next & Hn & Hc).
    apply mk_ok in Hc. destruct Hc as (-> & _ & _).
    unfold ocell. cbn [actions_dec].
    rewrite app_length, u32_len, u8_len. cbn [Nat.add Nat.eqb].
    rewrite <- (u32_len action_magic) at 1. rewrite firstn_app_exact, action_magic_u32.
    rewrite N.eqb_refl. cbn [negb].
    rewrite (IH next Ht Hn). cbn [bind].
    rewrite <- (u32_len action_magic) at 1. rewrite skipn_app_exact, N_u8 by exact Hh.
    destruct m; reflexivity.
Qed.

Lemma payload_v1v4_ok pre ms u :
  payload_v1v4 pre ms = Ok u ->
  u = ocell (pre ++ modes_bits ms) (map rm_msg ms) /\ (length ms <= 4)%nat.
Proof.
  unfold payload_v1v4. destruct (4 <? length ms)%nat eqn:E; [discriminate|].
  intros H. apply mk_ok in H. apply Nat.ltb_ge in E. tauto.
Qed.

(** *** the envelope *)
Definition init_ok (chash : cell -> res bytes) (init : option cell) : Prop :=
  match init with None => True | Some i => stateinit_ok i = Ok tt end.

Lemma ext_bits_len wc addr hi :
  length addr = 256%nat -> length (ext_bits wc addr hi) = if hi then 278%nat else 277%nat.
Proof.
  intros H. unfold ext_bits. rewrite !app_length, u8_len, H. unfold zeros. rewrite repeat_length.
  destruct hi; reflexivity.
Qed.

Lemma int8_of_range z : (-128 <= int8_of z < 128)%Z.
Proof. unfold int8_of. pose proof (Z.mod_pos_bound (z + 128) 256 ltac:(lia)). lia. Qed.

Lemma int8_of_mod z : (int8_of z mod 256 = z mod 256)%Z.
Proof.
  unfold int8_of. pose proof (Z.div_mod (z + 128) 256 ltac:(lia)) as D.
  replace ((z + 128) mod 256 - 128)%Z with (z + (- ((z + 128) / 256)) * 256)%Z by lia.
  apply Z.mod_add. lia.
Qed.

Lemma enc_int8_of z : TlbCore.enc_int_bits 8 (int8_of z) = u8 (Z.to_N (z mod 256)).
Proof.
  unfold TlbCore.enc_int_bits, u8. change (2 ^ Z.of_nat 8)%Z with 256%Z. rewrite int8_of_mod. reflexivity.
Qed.

Lemma ext_in_std_ok wc addr :
  length addr = 256%nat -> TlbCore.addr_ok (TlbCore.AStd None (int8_of wc) addr) = true.
Proof.
  intros H. unfold TlbCore.addr_ok, TlbCore.any_ok, TlbCore.zfits. rewrite H, Nat.eqb_refl.
  pose proof (int8_of_range wc) as R.
  assert (E1 : ((- 2 ^ (Z.of_nat 8 - 1) <=? int8_of wc) = true)%Z)
    by (apply Z.leb_le; change (2 ^ (Z.of_nat 8 - 1))%Z with 128%Z; lia).
  assert (E2 : ((int8_of wc <? 2 ^ (Z.of_nat 8 - 1)) = true)%Z)
    by (apply Z.ltb_lt; change (2 ^ (Z.of_nat 8 - 1))%Z with 128%Z; lia).
  rewrite E1, E2. reflexivity.
Qed.

(* the bits CreateExternalMessage writes are the info of ext_in_std, then init
   and body flags *)
Lemma ext_bits_info wc addr hi :
  ext_bits wc addr hi =
  [true] ++ [false] ++ TlbCore.addr_bits TlbCore.ANone ++
  TlbCore.addr_bits (TlbCore.AStd None (int8_of wc) addr) ++ zeros 4 ++
  (if hi then [true; true] else [false]) ++ [true].
Proof.
  unfold ext_bits, TlbCore.addr_bits, TlbCore.any_bits. rewrite enc_int8_of.
  cbn [app]. rewrite <- !app_assoc. reflexivity.
Qed.

Lemma grams_dec_zero rest : grams_dec (zeros 4 ++ rest) = Ok (0%N, rest).
Proof.
  unfold grams_dec. rewrite (take_app_n 4) by reflexivity. cbn [bind fst snd].
  change (8 * N.to_nat (N_of_bits (zeros 4)))%nat with 0%nat.
  unfold take. cbn [short firstn skipn bind fst snd]. reflexivity.
Qed.

Section Env.
Variable chash : cell -> res bytes.

Lemma parse_ext_msg wc addr init body e h :
  length addr = 256%nat -> init_ok chash init ->
  ext_msg wc addr init body = Ok e -> chash e = Ok h ->
  parse_ext chash e =
    Ok (mkext (ext_in_std wc addr) init (ocell (cdata body) (crefs body))).
Proof.
  intros Ha Hi He Hh. unfold ext_msg in He. apply mk_ok in He. destruct He as (-> & _ & _).
  unfold parse_ext. rewrite Hh. cbn [bind]. unfold ocell at 1. cbn [cdata crefs].
  rewrite ext_bits_info. unfold info_dec.
  rewrite (take_app_n 1) by reflexivity. cbn [bind fst snd nth negb].
  rewrite (take_app_n 1) by reflexivity. cbn [bind fst snd nth negb].
  rewrite TlbCoreP.addr_parse_bits by reflexivity. cbn [bind fst snd].
  rewrite TlbCoreP.addr_parse_bits by (apply ext_in_std_ok, Ha). cbn [bind fst snd].
  rewrite grams_dec_zero. cbn [bind fst snd].
  destruct init as [i|]; cbn [init_ok] in Hi; cbn [app]; unfold take;
    cbn [short firstn skipn bind fst snd nth crefs ocell].
  - rewrite Hi. reflexivity.
  - reflexivity.
Qed.

End Env.
